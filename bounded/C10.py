"""Bounded stand-in for C10 - zone transactions match a reference model and are
all-or-nothing.  Real dns.zone / dns.versioned / dns.btreezone transactions are driven with
encoded operation sequences and compared with the dict model of bounded/_c10_model.py."""

from __future__ import annotations

import itertools

import dns.exception
import dns.name
import dns.rdatatype
import dns.serial
import dns.transaction

from bounded import _c10_model as M

BOUNDS = (
    "Real transactions on dns.zone.Zone, dns.versioned.Zone and dns.btreezone.Zone x relativize "
    "on/off (6 variants) against an independent dict model (TTL min on merge, singleton types, "
    "CNAME/other-data exclusion, empty nodes removed, RFC 1982 serial). Exhaustive: every "
    "sequence of length 1 and 2 over a core alphabet of 98 operations (3 owner names x "
    "{relative, absolute} spelling x {add A, add A', add CNAME, add TXT, add NS, replace A, "
    "replace CNAME, delete name, delete type A/CNAME/NS, delete rdata, delete_exact "
    "rdata/type/name} + apex SOA add in both spellings, update_serial +1 (default name and "
    "both spellings), +2^31-1, +2^31, absolute 0) "
    "from 2 base zones, each run committed and with an exception injected "
    "after one (quick, every other pair) or every (thorough) operation index; length 1 on all 6 variants x both "
    "bases x 8 end modes; length 2 in quick on one variant/base per pair (rotated), in "
    "thorough on all 6 variants with the base alternating; thorough adds every length-3 "
    "sequence over a 26-operation alphabet (variant rotated). Seeded: random sequences of length <= 40 (quick ~1500, thorough "
    "~40000) over 6 owner names + an out-of-zone name, 4 spellings (Name/str x relative/"
    "absolute), 17 rdatas of 10 types incl. RRSIG(covers), all argument forms (ttl+rdata, "
    "rdataset, rrset, name, type, type+covers, rdata), TTLs {0,1,30,300,3600,2^31-1}, serial "
    "values at the 2^31/2^32 boundaries, 3 base zones; end modes commit / explicit commit / "
    "raise after op k / explicit rollback at k / exception raised from a check_* callback "
    "inside the k-th mutation / library exception propagating out of the with block. After "
    "every operation the transaction's own view (iteration, get by both spellings, "
    "name_exists, get_node) is compared with the model. dns.serial.Serial: +, <, >, <=, >=, == "
    "against RFC 1982 on the 15x15 boundary grid plus seeded pairs. Ended and read-only "
    "transactions: 13 public methods each, per variant. Fresh empty zone with a plain "
    "writer(), per variant. APEX RECORDS THROUGH EVERY OWNER SPELLING (clause apex_owner_spellings, "
    "judged by the same model and the same per-operation view / read-your-writes / commit / rollback "
    "comparisons): on all 6 variants x bases {apex, small} (thorough: + rich) x the 4 spellings of the "
    "apex (dns.name.empty, absolute Name, '@', 'example.') each of 30 operations alone - add and "
    "replace of the SOA with a changed serial in the 3 argument forms, replace by the same SOA with "
    "another TTL, add/replace of apex NS/TXT/A, delete and delete_exact of the SOA rdata (the one "
    "present / another serial) as rdata, rdataset and rrset, of type SOA, of NS rdata(sets), "
    "update_serial(+1, name=spelling), and add/replace of an SOA at two non-origin names (expected: "
    "ValueError, zone and view unchanged) - committed, and (quick: every third run) ended by raise / "
    "check-callback raise / rollback / propagate; 7 two-operation sequences on the apex SOA (replace "
    "then add, add then delete_exact, replace then update_serial, delete type then add, delete name "
    "then replace, refused non-origin SOA then replace, delete SOA rdata then add NS) for all 16 "
    "spelling pairs (quick: 3 variants per pair, alternating; thorough: all 6); seeded sequences of "
    "2-12 operations, 70% from an apex generator (SOA add/replace with serial steps +1/+2/+2^31-1 or "
    "boundary serials, other apex rrsets, deletes of the SOA rdata last written, update_serial, SOA at "
    "a non-origin name) and 30% from the general generator, own generator seeded from the run's seed "
    "(quick 220, thorough <= 6000 in 40 s). Not covered: multi-threaded use (C12), rdata types outside the "
    "pool, $ORIGIN-less zones."
)


class Injected(Exception):
    pass


class _Abort(Exception):
    pass


SOA_KEY = (int(dns.rdatatype.SOA), 0)


# ------------------------------------------------------------------ signatures


def _op_class(op):
    if op["op"] == "serial":
        return "update_serial"
    return op["op"] + "/" + op["form"]


def _op_rdtype(op):
    if op["op"] == "serial":
        return "SOA"
    if op.get("form") in ("type", "type_covers"):
        return op["type"]
    if op.get("rds"):
        return dns.rdatatype.to_text(M.rd(op["rds"][0]).rdtype)
    return "-"


def _spelling_class(op, relativize):
    sp = op.get("sp", "default")
    if sp == "default":
        # update_serial()'s default name is the relative empty name
        sp = "rel"
    if op.get("n") == "out":
        return "out-of-zone"
    return "normalised" if M.is_normalised(sp, relativize) else "non-normalised"


def _sig_exception(op, relativize, exp, got):
    site = M.innermost_dns_site(got) if got is not None else "-"
    spc = _spelling_class(op, relativize)
    gname = type(got).__name__ if got is not None else "none"
    if (
        exp is None
        and isinstance(got, KeyError)
        and site.endswith("WritableVersion.delete_rdataset")
        and spc == "non-normalised"
    ):
        return {
            "site": "dns.zone.WritableVersion.delete_rdataset",
            "exc": "KeyError",
            "class": "last rdataset of a node deleted through a non-normalised owner name",
        }
    if (
        exp is None
        and isinstance(got, ValueError)
        and site.endswith("Transaction._add")
        and _op_rdtype(op) == "SOA"
        and spc == "non-normalised"
    ):
        return {
            "site": "dns.transaction.Transaction._add",
            "exc": "ValueError",
            "class": "apex SOA refused as non-origin when the owner name is not spelled in the zone's own relativity",
        }
    return {
        "site": site,
        "exc": gname,
        "expected": exp.__name__ if exp is not None else "none",
        "op": _op_class(op),
        "rdtype": _op_rdtype(op),
        "spelling": spc,
    }


def _sig_view(op, relativize, where):
    return {
        "site": where,
        "op": _op_class(op),
        "rdtype": _op_rdtype(op),
        "spelling": _spelling_class(op, relativize),
    }


# ------------------------------------------------------------------ one sequence


def _entry(fp, name, key):
    return fp.get(name, {}).get(key)


def _probe(txn, zone, model, op, fails, relativize):
    """Reads inside the transaction see its own writes (through get / name_exists /
    get_node, by either spelling of the owner name)."""
    name, key = M.op_target(op)
    if name is None:
        return 0
    n = op["n"] if op["op"] != "serial" else 0
    probes = 0
    for sp in ("rel", "abs", "srel", "sabs"):
        s = M.spell(n, sp)
        exists = txn.name_exists(s)
        probes += 1
        if exists != (name in model.c):
            fails.append(
                (
                    "C10.read_your_writes",
                    f"name_exists({s!r}) = {exists} after {op}, model says {name in model.c}",
                    {"site": "Transaction.name_exists", "op": _op_class(op), "spelling": sp},
                )
            )
            return probes
        if key is None:
            continue
        got = txn.get(s, dns.rdatatype.RdataType(key[0]), dns.rdatatype.RdataType(key[1]))
        want = model.get(name, key)
        g = None if got is None else (got.ttl, tuple(sorted([M.tok(r) for r in got])))
        w = None if want is None else (want[0], tuple(sorted(want[1])))
        if g != w:
            fails.append(
                (
                    "C10.read_your_writes",
                    f"get({s!r}, {key}) = {g} after {op}, model says {w}",
                    {"site": "Transaction.get", "op": _op_class(op), "spelling": sp},
                )
            )
            return probes
    node = txn.get_node(M.spell(n, "rel" if relativize else "abs"))
    if (node is None) != (name not in model.c):
        fails.append(
            (
                "C10.read_your_writes",
                f"get_node presence {node is not None} after {op}, model says {name in model.c}",
                {"site": "Transaction.get_node", "op": _op_class(op)},
            )
        )
    return probes


def execute(kind, relativize, base_id, ops, mode, zone=None, stats=None):
    """Run one encoded sequence on a real zone.  Returns a list of failures
    (clause, what, sig).  Evaluation stops at the first failure of a sequence: everything
    after it would be judged on a state that already diverged from the model."""
    fails = []
    base = M.base_model(base_id)
    model = base.copy()
    z = zone if zone is not None else M.new_zone(kind, relativize, base)
    before = M.zone_fp(z)
    if before != base.fp():
        raise RuntimeError("harness: zone is not in its base state: " + M.fp_diff(base.fp(), before))
    m = mode["m"]
    k = mode.get("k", 0)
    try:
        txn = M.safe_writer(z)
    except M.Wedged:
        fails.append(
            (
                "C10.rollback_atomic",
                "zone still has a registered write transaction after the previous one ended",
                {"site": "writer", "class": "write transaction still registered after end"},
            )
        )
        return fails
    counter = [0]
    if m == "check_raise":

        def chk(*_a):
            if counter[0] == k:
                counter[0] += 1
                raise Injected()
            counter[0] += 1

        txn.check_put_rdataset(chk)
        txn.check_delete_rdataset(chk)
        txn.check_delete_name(chk)
    ended_by = None
    nops = 0
    propagated = None
    try:
        with txn:
            for i, op in enumerate(ops):
                if m == "raise_after" and i == k:
                    raise Injected()
                if m == "rollback" and i == k:
                    txn.rollback()
                    ended_by = "rollback"
                    break
                trial = model.copy()
                exp = trial.apply(op)
                got = None
                try:
                    M.apply_real(txn, op)
                except Injected:
                    raise
                except Exception as e:  # noqa: BLE001 - judged against the model below
                    got = e
                nops += 1
                ok = (exp is None and got is None) or (
                    exp is not None and got is not None and isinstance(got, exp)
                )
                if not ok:
                    fails.append(
                        (
                            "C10.op_effect",
                            f"{op} on {kind}/relativize={relativize}: expected "
                            f"{exp.__name__ if exp else 'success'}, got "
                            f"{type(got).__name__ + ': ' + str(got)[:80] if got is not None else 'success'}",
                            _sig_exception(op, relativize, exp, got),
                        )
                    )
                    raise _Abort()
                if exp is None:
                    model = trial
                view = M.txn_fp(txn, z)
                if view != model.fp():
                    if model.zero_alt is not None and view == model.zero_alt.fp():
                        model = model.zero_alt
                    else:
                        fails.append(
                            (
                                "C10.op_effect",
                                f"view after {op} on {kind}/relativize={relativize} "
                                f"({'raised ' + type(got).__name__ if got else 'ok'}): "
                                + M.fp_diff(model.fp(), view),
                                _sig_view(op, relativize, "transaction view"),
                            )
                        )
                        raise _Abort()
                model.zero_alt = None
                pr = _probe(txn, z, model, op, fails, relativize)
                if stats is not None:
                    stats["probes"] += pr
                    stats["ops"] += 1
                if fails:
                    raise _Abort()
                if got is not None and m == "propagate":
                    propagated = got
                    raise got
            else:
                if m in ("raise_after",) and k >= len(ops):
                    raise Injected()
                if m == "rollback" and k >= len(ops):
                    txn.rollback()
                    ended_by = "rollback"
                if m == "commit_explicit":
                    txn.commit()
                    ended_by = "commit"
        if ended_by is None:
            ended_by = "commit"
    except Injected:
        ended_by = "exception"
    except _Abort:
        return fails
    except Exception as e:  # noqa: BLE001
        if propagated is not None and e is propagated:
            ended_by = "exception"
        else:
            fails.append(
                (
                    "C10.model_commit",
                    f"ending the transaction ({m}) raised {type(e).__name__}: {str(e)[:80]}",
                    {"site": M.innermost_dns_site(e), "exc": type(e).__name__, "class": "end of transaction " + m},
                )
            )
            return fails
    if stats is not None:
        stats["ended_by"] = ended_by
    if m in ("raise_after", "check_raise") and ended_by != "exception":
        if m == "raise_after":
            fails.append(
                (
                    "C10.rollback_atomic",
                    "an exception raised inside the with block did not propagate",
                    {"site": "Transaction.__exit__", "class": "exception swallowed"},
                )
            )
            return fails
        # check_raise with k beyond the number of mutations: a plain commit
    after = M.zone_fp(z)
    if ended_by == "commit":
        if after != model.fp():
            fails.append(
                (
                    "C10.model_commit",
                    f"{kind}/relativize={relativize} after commit: " + M.fp_diff(model.fp(), after),
                    {"site": "committed zone", "class": "content differs from the model although the transaction view matched", "mode": m},
                )
            )
    else:
        if after != before:
            fails.append(
                (
                    "C10.rollback_atomic",
                    f"{kind}/relativize={relativize} after {ended_by} ({m}@{k}): " + M.fp_diff(before, after),
                    {"site": "zone after " + ended_by, "class": "zone content changed by a transaction that did not commit", "mode": m},
                )
            )
    if not getattr(txn, "_ended", True) and not fails:
        fails.append(
            (
                "C10.ended_refuses",
                f"transaction not marked ended after {ended_by}",
                {"site": "Transaction._end", "class": "not ended after " + ended_by},
            )
        )
    return fails


# ------------------------------------------------------------------ alphabets


def core_alphabet():
    ops = []
    for n in (0, 1, 2):
        for sp in ("rel", "abs"):
            b = {"n": n, "sp": sp}
            ops += [
                dict(b, op="add", form="ttl_rdata", ttl=300, rds=["a1"]),
                dict(b, op="add", form="rdataset", ttl=60, rds=["a2"]),
                dict(b, op="add", form="rrset", ttl=300, rds=["c1"]),
                dict(b, op="add", form="ttl_rdata", ttl=100, rds=["t1"]),
                dict(b, op="replace", form="rdataset", ttl=900, rds=["a2"]),
                dict(b, op="replace", form="ttl_rdata", ttl=50, rds=["c2"]),
                dict(b, op="delete", form="name"),
                dict(b, op="delete", form="type", type="A"),
                dict(b, op="delete", form="type", type="CNAME"),
                dict(b, op="delete", form="rdata", rds=["a1"]),
                dict(b, op="delete_exact", form="rdataset", rds=["a1"]),
                dict(b, op="delete_exact", form="type", type="A"),
                dict(b, op="delete_exact", form="name"),
                dict(b, op="add", form="ttl_rdata", ttl=300, rds=["n2"]),
                dict(b, op="delete", form="type", type="NS"),
            ]
    for sp in ("rel", "abs"):
        ops.append({"op": "add", "n": 0, "sp": sp, "form": "ttl_rdata", "ttl": 100, "rds": ["soa:77"]})
        ops.append({"op": "serial", "value": 1, "relative": True, "sp": sp})
    ops.append({"op": "serial", "value": 1, "relative": True, "sp": "default"})
    ops.append({"op": "serial", "value": 2**31 - 1, "relative": True, "sp": "default"})
    ops.append({"op": "serial", "value": 2**31, "relative": True, "sp": "default"})
    ops.append({"op": "serial", "value": 0, "relative": False, "sp": "default"})
    return ops


def mini_alphabet():
    ops = []
    for n, sp in ((1, "rel"), (1, "abs"), (2, "abs"), (2, "rel")):
        b = {"n": n, "sp": sp}
        ops += [
            dict(b, op="add", form="ttl_rdata", ttl=60, rds=["a2"]),
            dict(b, op="add", form="rdataset", ttl=300, rds=["c1"]),
            dict(b, op="replace", form="rdataset", ttl=900, rds=["a1"]),
            dict(b, op="delete", form="type", type="A"),
            dict(b, op="delete", form="name"),
            dict(b, op="delete_exact", form="rdata", rds=["a1"]),
        ]
    ops.append({"op": "serial", "value": 1, "relative": True, "sp": "default"})
    ops.append({"op": "add", "n": 0, "sp": "rel", "form": "ttl_rdata", "ttl": 10, "rds": ["t1"]})
    return ops


_TYPE_RDS = {
    "A": ["a1", "a2", "a3"],
    "AAAA": ["q1"],
    "TXT": ["t1", "t2"],
    "MX": ["m1"],
    "CNAME": ["c1", "c2"],
    "NS": ["n1", "n2"],
    "NSEC": ["x1", "x2"],
}
_RRSIG_RDS = {"A": ["sa", "sa2"], "CNAME": ["sc"], "NSEC": ["sx"]}
_TTLS = [0, 1, 30, 300, 3600, 2**31 - 1]
_SERIAL_VALUES = [0, 1, 2, 3, 2**31 - 2, 2**31 - 1, 2**31, 2**31 + 1, 2**32 - 2, 2**32 - 1, -1]
_SPELLINGS = ["rel", "abs", "srel", "sabs"]


def _pick_rds(rng, many):
    if rng.random() < 0.2:
        cov = rng.choice(list(_RRSIG_RDS))
        pool = _RRSIG_RDS[cov]
    else:
        t = rng.choice(list(_TYPE_RDS))
        pool = _TYPE_RDS[t]
    if many and len(pool) > 1 and rng.random() < 0.4 and M.rd(pool[0]).rdtype not in M._SINGLETONS:
        return rng.sample(pool, rng.randint(2, len(pool)))
    return [rng.choice(pool)]


def random_op(rng, nnames=6):
    r = rng.random()
    n = rng.randrange(nnames)
    if rng.random() < 0.02:
        n = "out"
    sp = rng.choice(_SPELLINGS)
    if r < 0.08:
        return {
            "op": "serial",
            "value": rng.choice(_SERIAL_VALUES) if rng.random() < 0.7 else rng.randrange(2**32),
            "relative": rng.random() < 0.7,
            "sp": rng.choice(["default", "default", "rel", "abs", "srel", "sabs"]),
        }
    if r < 0.13:
        # SOA add/replace; mostly at the apex
        nn = 0 if rng.random() < 0.85 else rng.randrange(1, nnames)
        return {
            "op": rng.choice(["add", "replace"]),
            "n": nn,
            "sp": sp,
            "form": rng.choice(["ttl_rdata", "rdataset", "rrset"]),
            "ttl": rng.choice(_TTLS),
            "rds": ["soa:" + str(rng.choice([1, 5, 2**31, 2**32 - 1]))],
        }
    if r < 0.50:
        form = rng.choice(["ttl_rdata", "rdataset", "rrset"])
        return {
            "op": "add" if rng.random() < 0.7 else "replace",
            "n": n,
            "sp": sp,
            "form": form,
            "ttl": rng.choice(_TTLS),
            "rds": _pick_rds(rng, form != "ttl_rdata"),
        }
    kind = "delete" if rng.random() < 0.6 else "delete_exact"
    form = rng.choice(["name", "type", "type", "type_covers", "rdataset", "rdata", "rrset"])
    op = {"op": kind, "n": n, "sp": sp, "form": form}
    if form == "type":
        op["type"] = rng.choice(list(_TYPE_RDS) + ["SOA"])
        op["tystr"] = rng.random() < 0.5
    elif form == "type_covers":
        op["type"] = "RRSIG"
        op["covers"] = rng.choice(list(_RRSIG_RDS))
        op["tystr"] = rng.random() < 0.5
    elif form in ("rdataset", "rrset"):
        op["rds"] = _pick_rds(rng, True)
    elif form == "rdata":
        op["rds"] = _pick_rds(rng, False)
    return op


# ------------------------------------------------------------------ driver


class _Zones:
    """One reusable zone per (variant, base); reset through a replacement transaction
    when a committed sequence changed it."""

    def __init__(self, R):
        self.R = R
        self.z = {}

    def get(self, kind, relativize, base_id):
        key = (kind, relativize)
        e = self.z.get(key)
        if e is not None and e[1] == base_id:
            return e[0]  # left in its base state by a run that verified "unchanged"
        base = M.base_model(base_id)
        if e is not None:
            try:
                M.load(e[0], base)
                if M.zone_fp(e[0]) == base.fp():
                    self.z[key] = (e[0], base_id)
                    return e[0]
            except Exception:  # noqa: BLE001
                pass
        z = M.new_zone(kind, relativize, base)
        self.z[key] = (z, base_id)
        return z

    def dirty(self, kind, relativize):
        e = self.z.get((kind, relativize))
        if e is not None:
            self.z[(kind, relativize)] = (e[0], None)

    def drop(self, kind, relativize):
        self.z.pop((kind, relativize), None)


def _run_one(R, zones, kind, relativize, base_id, ops, mode, stats, sample=False, section=None):
    """``section``: (clause, tag) of a section that reports what it finds under a clause of its
    own; its runs are counted under that clause as well as under the ordinary ones."""
    replay = {"kind": kind, "relativize": relativize, "base": base_id, "ops": ops, "mode": mode}
    try:
        with M.watchdog(20):
            z = zones.get(kind, relativize, base_id)
            st = {"probes": 0, "ops": 0}
            fails = execute(kind, relativize, base_id, ops, mode, zone=z, stats=st)
    except M.HarnessTimeout:
        R.note(f"harness watchdog fired on {replay}")
        zones.drop(kind, relativize)
        return
    except Exception as e:  # noqa: BLE001
        if M.raised_in_library(e):
            # building / resetting the zone or reading it back failed inside the library
            R.violation(
                "C10.model_commit",
                f"{kind}/relativize={relativize}: {type(e).__name__}: {str(e)[:100]} while preparing or reading the zone",
                sig={"site": M.innermost_dns_site(e), "exc": type(e).__name__, "class": "library exception outside the judged operations"},
                replay=replay,
            )
        else:
            R.note(f"harness error on {replay}: {type(e).__name__}: {e}")
        zones.drop(kind, relativize)
        return
    key = (kind, relativize, base_id, repr(ops), repr(mode))
    ended = st.get("ended_by")
    R.case("C10.op_effect", key=key, nontrivial=st["ops"] > 0)
    if st["probes"]:
        R.case("C10.read_your_writes", key=key)
    if ended == "commit":
        R.case("C10.model_commit", key=key)
    elif ended in ("exception", "rollback"):
        R.case("C10.rollback_atomic", key=key)
    stats["seq"] += 1
    if section is not None:
        R.case(section[0], key=key, nontrivial=st["ops"] > 0)
        if sample:
            R.sample(section[0], replay)
    elif sample:
        R.sample("C10.model_commit" if ended == "commit" else "C10.rollback_atomic", replay)
    for clause, what, sig in fails:
        if section is not None:
            sig = dict(sig, aspect=clause.split(".", 1)[1])
            what = f"[{section[1]}] {what}"
            clause = section[0]
        R.violation(clause, what, sig=sig, replay=replay)
    if fails:
        zones.drop(kind, relativize)
    elif ended != "exception" and ended != "rollback":
        zones.dirty(kind, relativize)


def _modes_for(nops, rng, all_indices):
    modes = [{"m": "commit"}]
    if all_indices:
        modes += [{"m": "raise_after", "k": k} for k in range(nops + 1)]
    else:
        modes.append({"m": "raise_after", "k": rng.randrange(nops + 1)})
    return modes


def _exhaustive(R, zones, stats):
    core = core_alphabet()
    rng = R.rng
    variants = M.VARIANTS
    # length 1: every op, every variant, both bases, every end mode
    for op in core:
        for kind, rel in variants:
            for base_id in ("small", "apex"):
                for mode in (
                    [{"m": "commit"}, {"m": "commit_explicit"}, {"m": "propagate"}]
                    + [{"m": "raise_after", "k": k} for k in (0, 1)]
                    + [{"m": "rollback", "k": k} for k in (0, 1)]
                    + [{"m": "check_raise", "k": 0}]
                ):
                    _run_one(R, zones, kind, rel, base_id, [op], mode, stats, sample=stats["seq"] < 2)
        if R.deadline():
            return
    # length 2
    i = 0
    for a in core:
        for b in core:
            i += 1
            if R.quick:
                # rotate the variant and the base; both spellings are in the alphabet
                todo = [(variants[i % 6], ("small", "apex")[(i // 6) % 2])]
            else:
                todo = [(v, ("small", "apex")[(i + vi) % 2]) for vi, v in enumerate(variants)]
            for (kind, rel), base_id in todo:
                modes = _modes_for(2, rng, not R.quick)
                if R.quick and i % 2:
                    modes = modes[:1]  # the injected-exception run on every other pair
                for mode in modes:
                    _run_one(R, zones, kind, rel, base_id, [a, b], mode, stats)
        if R.deadline() or R.elapsed() > (25 if R.quick else 280):
            R.note(f"C10 exhaustive length-2 stopped early at {i}/{len(core) ** 2}")
            return
    if R.quick:
        return
    mini = mini_alphabet()
    j = 0
    for seq in itertools.product(mini, repeat=3):
        j += 1
        kind, rel = variants[j % 6]
        for mode in ({"m": "commit"}, {"m": "raise_after", "k": j % 4}, {"m": "check_raise", "k": j % 3}):
            _run_one(R, zones, kind, rel, "small", list(seq), mode, stats)
        if j % 500 == 0 and (R.deadline() or R.elapsed() > 350):
            R.note(f"C10 exhaustive length-3 stopped early at {j}/{len(mini) ** 3}")
            return


def _seeded(R, zones, stats, count, budget_s):
    rng = R.rng
    t_end = R.elapsed() + budget_s
    for s in range(count):
        if R.deadline() or R.elapsed() > t_end:
            R.note(f"C10 seeded stopped at {s}/{count}")
            break
        kind, rel = M.VARIANTS[s % 6]
        base_id = ("rich", "small", "apex")[(s // 6) % 3]
        length = rng.choice([1, 2, 3, 5, 8, 13, 20, 40])
        ops = [random_op(rng) for _ in range(length)]
        r = rng.random()
        if r < 0.45:
            mode = {"m": "commit"}
        elif r < 0.5:
            mode = {"m": "commit_explicit"}
        elif r < 0.65:
            mode = {"m": "raise_after", "k": rng.randrange(length + 1)}
        elif r < 0.75:
            mode = {"m": "rollback", "k": rng.randrange(length + 1)}
        elif r < 0.9:
            mode = {"m": "check_raise", "k": rng.randrange(length + 1)}
        else:
            mode = {"m": "propagate"}
        _run_one(R, zones, kind, rel, base_id, ops, mode, stats, sample=s < 2)


# ---------------------------------------------------------------- apex records, owner spellings

CL_APEX = "C10.apex_owner_spellings"
_BASE_SERIAL = {"apex": 10, "small": 2**32 - 1, "rich": 2**31 - 1}
_APEX_SERIALS = [1, 5, 10, 77, 2**31 - 1, 2**31, 2**32 - 1]


def _soa(serial):
    return "soa:" + str(serial % 2**32)


def apex_ops(base_id, sp):
    """Every way of writing or removing an apex record (SOA included, with serial changes)
    with the owner in spelling ``sp``, and SOAs at two non-origin names (which the model
    refuses with ValueError, the zone unchanged)."""
    s0 = _BASE_SERIAL[base_id]
    b = {"n": 0, "sp": sp}
    ops = []
    for i, form in enumerate(("ttl_rdata", "rdataset", "rrset")):
        ops.append(dict(b, op="add", form=form, ttl=(100, 7200, 3600)[i], rds=[_soa(s0 + 1 + i)]))
        ops.append(dict(b, op="replace", form=form, ttl=(3600, 900, 0)[i], rds=[_soa(s0 + 2**31 - 1 - i)]))
    ops += [
        dict(b, op="replace", form="rdataset", ttl=900, rds=[_soa(s0)]),  # the same SOA, another TTL
        dict(b, op="add", form="ttl_rdata", ttl=300, rds=["n2"]),
        dict(b, op="replace", form="rdataset", ttl=60, rds=["n2"]),
        dict(b, op="add", form="rrset", ttl=100, rds=["t1"]),
        dict(b, op="replace", form="ttl_rdata", ttl=50, rds=["a1"]),
        dict(b, op="delete", form="rdata", rds=[_soa(s0)]),
        dict(b, op="delete", form="rdata", rds=[_soa(s0 + 1)]),  # not the SOA of the zone: nothing happens
        dict(b, op="delete", form="rdataset", rds=[_soa(s0)]),
        dict(b, op="delete", form="rrset", rds=[_soa(s0)]),
        dict(b, op="delete_exact", form="rdata", rds=[_soa(s0)]),
        dict(b, op="delete_exact", form="rdata", rds=[_soa(s0 + 1)]),  # DeleteNotExact
        dict(b, op="delete_exact", form="rrset", rds=[_soa(s0)]),
        dict(b, op="delete", form="type", type="SOA"),
        dict(b, op="delete_exact", form="type", type="SOA"),
        dict(b, op="delete", form="rdata", rds=["n1"]),
        dict(b, op="delete_exact", form="rdata", rds=["n1"]),
        dict(b, op="delete_exact", form="rdataset", rds=["n1", "n2"]),
        {"op": "serial", "value": 1, "relative": True, "sp": sp},
    ]
    for n in (1, 5):
        for kind, form in (("add", "ttl_rdata"), ("replace", "rdataset"), ("add", "rrset")):
            ops.append({"op": kind, "n": n, "sp": sp, "form": form, "ttl": 300, "rds": [_soa(s0 + 1)]})
    return ops


def apex_pairs(base_id, s1, s2):
    """Two operations on the apex SOA, the owner spelled ``s1`` in the first and ``s2`` in the
    second."""
    s0 = _BASE_SERIAL[base_id]
    a = {"n": 0, "sp": s1}
    b = {"n": 0, "sp": s2}
    return [
        [dict(a, op="replace", form="rdataset", ttl=300, rds=[_soa(s0 + 1)]), dict(b, op="add", form="ttl_rdata", ttl=900, rds=[_soa(s0 + 2)])],
        [dict(a, op="add", form="rrset", ttl=300, rds=[_soa(s0 + 1)]), dict(b, op="delete_exact", form="rdata", rds=[_soa(s0 + 1)])],
        [dict(a, op="replace", form="ttl_rdata", ttl=300, rds=[_soa(2**31 - 1)]), {"op": "serial", "value": 2**31 - 1, "relative": True, "sp": s2}],
        [dict(a, op="delete", form="type", type="SOA"), dict(b, op="add", form="rdataset", ttl=300, rds=[_soa(s0 + 1)])],
        [dict(a, op="delete", form="name"), dict(b, op="replace", form="rrset", ttl=300, rds=[_soa(s0 + 1)])],
        [{"op": "add", "n": 2, "sp": s1, "form": "ttl_rdata", "ttl": 300, "rds": [_soa(s0 + 1)]}, dict(b, op="replace", form="ttl_rdata", ttl=300, rds=[_soa(s0 + 1)])],
        [dict(a, op="delete", form="rdata", rds=[_soa(s0)]), dict(b, op="add", form="ttl_rdata", ttl=300, rds=["n2"])],
    ]


def random_apex_op(rng, state):
    """An operation on an apex record, or an SOA at a non-origin name.  ``state["serial"]``
    follows the serial the sequence last wrote, so that deletions of the SOA rdata often
    name the SOA that is there."""
    sp = rng.choice(_SPELLINGS)
    r = rng.random()
    b = {"n": 0, "sp": sp}

    def serial():
        return state["serial"] if rng.random() < 0.4 else rng.choice(_APEX_SERIALS)

    if r < 0.12:
        # an SOA somewhere else: refused
        return {
            "op": rng.choice(["add", "replace"]),
            "n": rng.randrange(1, 6),
            "sp": sp,
            "form": rng.choice(["ttl_rdata", "rdataset", "rrset"]),
            "ttl": rng.choice(_TTLS),
            "rds": [_soa(rng.choice(_APEX_SERIALS))],
        }
    if r < 0.45:
        v = (state["serial"] + rng.choice([1, 2, 2**31 - 1])) % 2**32 if rng.random() < 0.6 else rng.choice(_APEX_SERIALS)
        state["serial"] = v
        return dict(b, op=rng.choice(["add", "replace"]), form=rng.choice(["ttl_rdata", "rdataset", "rrset"]), ttl=rng.choice(_TTLS), rds=[_soa(v)])
    if r < 0.60:
        form = rng.choice(["ttl_rdata", "rdataset", "rrset"])
        t = rng.choice(["NS", "TXT", "A", "MX"])
        pool = _TYPE_RDS[t]
        rds = rng.sample(pool, rng.randint(1, len(pool))) if form != "ttl_rdata" else [rng.choice(pool)]
        return dict(b, op=rng.choice(["add", "replace"]), form=form, ttl=rng.choice(_TTLS), rds=rds)
    if r < 0.68:
        return {"op": "serial", "value": rng.choice([1, 2, 2**31 - 1]), "relative": True, "sp": rng.choice(["default"] + _SPELLINGS)}
    kind = "delete" if rng.random() < 0.5 else "delete_exact"
    form = rng.choice(["rdata", "rdata", "rdataset", "rrset", "type", "name"])
    op = dict(b, op=kind, form=form)
    if form == "type":
        op["type"] = rng.choice(["SOA", "NS", "TXT"])
        op["tystr"] = rng.random() < 0.5
    elif form != "name":
        if rng.random() < 0.6:
            op["rds"] = [_soa(serial())]
        else:
            pool = _TYPE_RDS[rng.choice(["NS", "TXT"])]
            op["rds"] = [rng.choice(pool)] if form == "rdata" else rng.sample(pool, rng.randint(1, len(pool)))
    return op


def _apex_spellings(R, zones, stats):
    """Apex records through every owner spelling.  Own generator, seeded from the run's
    seed: the sections before this one end on time limits, R.rng is then no fixed point."""
    import random

    rng = random.Random(f"C10.apex/{R.seed}")
    sec = (CL_APEX, "apex records, owner spellings")
    bases = ("apex", "small") if R.quick else ("apex", "small", "rich")
    n0 = stats["seq"]
    # every operation alone
    i = 0
    for base_id in bases:
        for sp in _SPELLINGS:
            for op in apex_ops(base_id, sp):
                for kind, rel in M.VARIANTS:
                    i += 1
                    modes = [{"m": "commit"}]
                    if not R.quick or i % 3 == 0:
                        modes += [{"m": ("raise_after", "check_raise", "rollback", "propagate")[(i // 3) % 4], "k": (i // 12) % 2}]
                    for mode in modes:
                        _run_one(R, zones, kind, rel, base_id, [op], mode, stats, sample=stats["seq"] == n0, section=sec)
            if R.deadline():
                R.note("C10 apex spellings: deadline in the single operations")
                return
    # two operations, every pair of spellings
    j = jp = 0
    for s1 in _SPELLINGS:
        for s2 in _SPELLINGS:
            jp += 1
            for vi, (kind, rel) in enumerate(M.VARIANTS):
                if R.quick and (vi + jp) % 2:
                    continue  # quick: every other variant per pair of spellings, alternating
                base_id = bases[(j + vi) % len(bases)]
                for seq in apex_pairs(base_id, s1, s2):
                    j += 1
                    modes = [{"m": "commit"}]
                    if not R.quick or j % 4 == 0:
                        modes.append({"m": "raise_after", "k": 1 + (j // 4) % 2})
                    for mode in modes:
                        _run_one(R, zones, kind, rel, base_id, seq, mode, stats, section=sec)
            if R.deadline():
                R.note("C10 apex spellings: deadline in the pairs")
                return
    # seeded sequences: mostly apex operations, some of the general generator
    count, t_end = (220, R.elapsed() + 2.5) if R.quick else (6000, R.elapsed() + 40.0)
    for s in range(count):
        if R.deadline() or R.elapsed() > t_end:
            R.note(f"C10 apex spellings: seeded stopped at {s}/{count}")
            break
        kind, rel = M.VARIANTS[s % 6]
        base_id = ("rich", "small", "apex")[(s // 6) % 3]
        state = {"serial": _BASE_SERIAL[base_id]}
        length = rng.choice([2, 3, 5, 8, 12])
        ops = [random_apex_op(rng, state) if rng.random() < 0.7 else random_op(rng) for _ in range(length)]
        r = rng.random()
        if r < 0.5:
            mode = {"m": "commit"}
        elif r < 0.7:
            mode = {"m": "raise_after", "k": rng.randrange(length + 1)}
        elif r < 0.8:
            mode = {"m": "rollback", "k": rng.randrange(length + 1)}
        elif r < 0.9:
            mode = {"m": "check_raise", "k": rng.randrange(length + 1)}
        else:
            mode = {"m": "propagate"}
        _run_one(R, zones, kind, rel, base_id, ops, mode, stats, section=sec)
    R.note(f"C10 apex spellings: {stats['seq'] - n0} sequences")


# ---------------------------------------------------------------- ended / read-only


def _use_calls(relativize):
    """Every way of using a transaction for data (the property: ended transactions refuse
    further use, read-only ones refuse writes)."""
    nm = M.spell(1, "rel" if relativize else "abs")
    apex = M.spell(0, "rel" if relativize else "abs")
    reads = [
        ("get", lambda t: t.get(nm, "A")),
        ("get_node", lambda t: t.get_node(nm)),
        ("name_exists", lambda t: t.name_exists(nm)),
        ("iterate_rdatasets", lambda t: list(t.iterate_rdatasets())),
        ("iterate_names", lambda t: list(t.iterate_names())),
        ("__iter__", lambda t: list(iter(t))),
        ("changed", lambda t: t.changed()),
    ]
    writes = [
        ("add", lambda t: t.add(nm, 300, M.rd("a3"))),
        ("replace", lambda t: t.replace(nm, 300, M.rd("a3"))),
        ("delete", lambda t: t.delete(nm)),
        ("delete_exact", lambda t: t.delete_exact(nm, M.rd("a1"))),
        ("update_serial", lambda t: t.update_serial(1, True, apex)),
    ]
    ends = [("commit", lambda t: t.commit()), ("rollback", lambda t: t.rollback())]
    return reads, writes, ends


def _ended_and_readonly(R):
    base = M.model_of(M.BASES["small"])
    for kind, rel in M.VARIANTS:
        reads, writes, ends = _use_calls(rel)
        # ended transactions
        for how in ("commit", "rollback", "with", "with-exception", "commit-changed", "reader-ended"):
            z = M.new_zone(kind, rel, base)
            before = M.zone_fp(z)
            if how == "reader-ended":
                txn = z.reader()
                txn.rollback()
            else:
                txn = M.safe_writer(z)
                if how == "commit":
                    txn.commit()
                elif how == "rollback":
                    txn.add(M.spell(1, "rel" if rel else "abs"), 5, M.rd("a2"))
                    txn.rollback()
                elif how == "with":
                    with txn:
                        pass
                elif how == "commit-changed":
                    txn.add(M.spell(3, "rel" if rel else "abs"), 5, M.rd("a2"))
                    txn.commit()
                    before = M.zone_fp(z)
                else:
                    try:
                        with txn:
                            txn.add(M.spell(1, "rel" if rel else "abs"), 5, M.rd("a2"))
                            raise Injected()
                    except Injected:
                        pass
            before = M.zone_fp(z)  # only the calls on the ended transaction are judged here
            for name, call in reads + writes + ends:
                R.case("C10.ended_refuses", key=(kind, rel, how, name))
                raised = None
                try:
                    call(txn)
                except Exception as e:  # noqa: BLE001
                    raised = e
                rep = {"check": "ended", "kind": kind, "relativize": rel, "how": how, "call": name}
                if not isinstance(raised, dns.transaction.AlreadyEnded):
                    R.violation(
                        "C10.ended_refuses",
                        f"{name}() on a transaction ended by {how} "
                        f"{'raised ' + type(raised).__name__ if raised else 'was accepted'} instead of AlreadyEnded",
                        sig={"site": "dns.transaction.Transaction." + name, "class": "no AlreadyEnded after the transaction ended"},
                        replay=rep,
                    )
                if M.zone_fp(z) != before:
                    R.violation(
                        "C10.ended_refuses",
                        f"{name}() on an ended transaction changed the zone",
                        sig={"site": "dns.transaction.Transaction." + name, "class": "ended transaction changed the zone"},
                        replay=rep,
                    )
        # read-only transactions
        z = M.new_zone(kind, rel, base)
        before = M.zone_fp(z)
        txn = z.reader()
        for name, call in writes:
            R.case("C10.readonly_refuses", key=(kind, rel, name))
            raised = None
            try:
                call(txn)
            except Exception as e:  # noqa: BLE001
                raised = e
            rep = {"check": "readonly", "kind": kind, "relativize": rel, "call": name}
            if not isinstance(raised, dns.transaction.ReadOnly):
                R.violation(
                    "C10.readonly_refuses",
                    f"{name}() on a read-only transaction "
                    f"{'raised ' + type(raised).__name__ if raised else 'was accepted'} instead of ReadOnly",
                    sig={"site": "dns.transaction.Transaction." + name, "class": "no ReadOnly on a read-only transaction"},
                    replay=rep,
                )
            if M.zone_fp(z) != before:
                R.violation(
                    "C10.readonly_refuses",
                    f"{name}() on a read-only transaction changed the zone",
                    sig={"site": "dns.transaction.Transaction." + name, "class": "read-only transaction changed the zone"},
                    replay=rep,
                )
        # reads still work on the read-only transaction and show the zone
        R.case("C10.readonly_refuses", key=(kind, rel, "reads"))
        if M.txn_fp(txn, z) != before:
            R.violation(
                "C10.readonly_refuses",
                "a read-only transaction does not show the zone content",
                sig={"site": "reader", "class": "reader view differs from zone"},
                replay={"check": "readonly", "kind": kind, "relativize": rel, "call": "reads"},
            )
        txn.rollback()


def _check_ended_replay(data):
    base = M.model_of(M.BASES["small"])
    kind, rel = data["kind"], data["relativize"]
    reads, writes, ends = _use_calls(rel)
    call = dict(reads + writes + ends)[data["call"]] if data["call"] != "reads" else None
    z = M.new_zone(kind, rel, base)
    if data["check"] == "readonly":
        txn = z.reader()
        if call is None:
            return (M.txn_fp(txn, z) != M.zone_fp(z), "reader view compared with zone")
        want = dns.transaction.ReadOnly
    else:
        how = data["how"]
        if how == "reader-ended":
            txn = z.reader()
            txn.rollback()
        else:
            txn = M.safe_writer(z)
            if how in ("commit", "commit-changed"):
                if how == "commit-changed":
                    txn.add(M.spell(3, "rel" if rel else "abs"), 5, M.rd("a2"))
                txn.commit()
            elif how == "rollback":
                txn.rollback()
            elif how == "with":
                with txn:
                    pass
            else:
                try:
                    with txn:
                        raise Injected()
                except Injected:
                    pass
        want = dns.transaction.AlreadyEnded
    before = M.zone_fp(z)
    try:
        call(txn)
        got = None
    except Exception as e:  # noqa: BLE001
        got = e
    bad = not isinstance(got, want) or M.zone_fp(z) != before
    return (bad, f"{data['call']} -> {type(got).__name__ if got else 'accepted'}; wanted {want.__name__}")


# ---------------------------------------------------------------- fresh zone


def _fresh_zone(R):
    """A sequence of operations in a write transaction on a zone that has never been
    written (no replacement transaction first)."""
    for kind, rel in M.VARIANTS:
        R.case("C10.fresh_zone_writer", key=(kind, rel))
        bad, detail, sig = _fresh_one(kind, rel)
        if bad:
            R.violation(
                "C10.fresh_zone_writer",
                detail,
                sig=sig,
                replay={"check": "fresh", "kind": kind, "relativize": rel},
            )


def _fresh_one(kind, rel):
    z = M.zone_class(kind)(M.ORIGIN, relativize=rel)
    model = M.Model()
    ops = [
        {"op": "add", "n": 0, "sp": "rel" if rel else "abs", "form": "ttl_rdata", "ttl": 300, "rds": ["soa:1"]},
        {"op": "add", "n": 1, "sp": "rel" if rel else "abs", "form": "ttl_rdata", "ttl": 300, "rds": ["a1"]},
    ]
    try:
        with M.watchdog(10):
            with z.writer() as txn:
                for op in ops:
                    model.apply(op)
                    M.apply_real(txn, op)
    except M.HarnessTimeout:
        return True, "writer() on a fresh zone blocked", {"site": "writer", "class": "fresh zone writer blocks"}
    except Exception as e:  # noqa: BLE001
        wedged = getattr(z, "_write_txn", None) is not None
        return (
            True,
            f"{kind}/relativize={rel}: plain writer() on a never-written zone raised "
            f"{type(e).__name__}: {e}"
            + ("; the zone keeps the failed write transaction registered, so any later writer() blocks forever" if wedged else ""),
            {
                "site": M.innermost_dns_site(e),
                "exc": type(e).__name__,
                "class": "writer() without replacement on a freshly constructed zone",
            },
        )
    if M.zone_fp(z) != model.fp():
        return True, "fresh zone content differs: " + M.fp_diff(model.fp(), M.zone_fp(z)), {"site": "fresh zone", "class": "content differs"}
    return False, "ok", None


# ---------------------------------------------------------------- RFC 1982


def _rfc1982_lt(a, b):
    """RFC 1982 section 3.2 with SERIAL_BITS = 32, written on the difference."""
    d = (b - a) % 2**32
    return 0 < d < 2**31


_GRID = [0, 1, 2, 2**31 - 2, 2**31 - 1, 2**31, 2**31 + 1, 2**31 + 2, 2**32 - 3, 2**32 - 2, 2**32 - 1, 12345, 2**16, 2**31 + 12345, 4 * 10**9]


def _serial_pair(a, b):
    """Returns None or (what, sig) for the first disagreement with RFC 1982."""
    sa, sb = dns.serial.Serial(a), dns.serial.Serial(b)
    lt, gt = _rfc1982_lt(a, b), _rfc1982_lt(b, a)
    checks = [
        ("<", sa < sb, lt),
        (">", sa > sb, gt),
        ("==", sa == sb, a == b),
        ("!=", sa != sb, a != b),
        ("<=", sa <= sb, lt or a == b),
        (">=", sa >= sb, gt or a == b),
        ("<int", sa < b, lt),
        (">int", sa > b, gt),
    ]
    for name, got, want in checks:
        if bool(got) != want:
            return (
                f"Serial({a}) {name} Serial({b}) is {got}, RFC 1982 says {want}",
                {"site": "dns.serial.Serial comparison", "op": name, "class": "distance " + _dist_class(a, b)},
            )
    return None


def _dist_class(a, b):
    d = (b - a) % 2**32
    if d == 0:
        return "0"
    if d == 2**31:
        return "2^31"
    return "<2^31" if d < 2**31 else ">2^31"


def _serial_add(v, n):
    try:
        got = (dns.serial.Serial(v) + n).value
    except ValueError:
        got = "ValueError"
    s = dns.serial.Serial(v)
    try:
        s += n
        got2 = s.value
    except ValueError:
        got2 = "ValueError"
    want = (v + n) % 2**32 if 0 <= n <= 2**31 - 1 else "ValueError"
    if got != want or got2 != want:
        return (
            f"Serial({v}) + {n} = {got} (+= {got2}), RFC 1982 says {want}",
            {"site": "dns.serial.Serial addition", "class": "increment " + ("<=2^31-1" if 0 <= n <= 2**31 - 1 else ">2^31-1")},
        )
    return None


def _serial(R):
    pairs = [(a, b) for a in _GRID for b in _GRID]
    n = 300 if R.quick else 20000
    for _ in range(n):
        a = R.rng.randrange(2**32)
        d = R.rng.choice([0, 1, 2**31 - 1, 2**31, 2**31 + 1, R.rng.randrange(2**32)])
        pairs.append((a, (a + d) % 2**32))
    for a, b in pairs:
        R.case("C10.serial_rfc1982", key=("cmp", a, b))
        bad = _serial_pair(a, b)
        if bad:
            R.violation("C10.serial_rfc1982", bad[0], sig=bad[1], replay={"check": "serial_cmp", "a": a, "b": b})
    incs = [0, 1, 2, 2**31 - 2, 2**31 - 1, 2**31, 2**31 + 1, 2**32 - 1]
    adds = [(v, i) for v in _GRID for i in incs]
    for _ in range(n):
        adds.append((R.rng.randrange(2**32), R.rng.choice(incs + [R.rng.randrange(2**32)])))
    for v, i in adds:
        R.case("C10.serial_rfc1982", key=("add", v, i))
        bad = _serial_add(v, i)
        if bad:
            R.violation("C10.serial_rfc1982", bad[0], sig=bad[1], replay={"check": "serial_add", "v": v, "n": i})
    R.sample("C10.serial_rfc1982", {"cmp": [2**32 - 1, 0], "add": [2**32 - 1, 2**31 - 1]})


# ---------------------------------------------------------------- entry points


def run(R):
    stats = {"seq": 0}
    zones = _Zones(R)
    R.guard("C10.serial_rfc1982", _serial, R)
    R.guard("C10.fresh_zone_writer", _fresh_zone, R)
    R.guard("C10.ended_refuses", _ended_and_readonly, R)
    R.guard("C10.exhaustive", _exhaustive, R, zones, stats)
    if R.quick:
        R.guard("C10.seeded", _seeded, R, zones, stats, 1500, 14.0)
    else:
        R.guard("C10.seeded", _seeded, R, zones, stats, 40000, 200.0)
    R.guard(CL_APEX, _apex_spellings, R, zones, stats)
    R.note(f"C10 sequences run: {stats['seq']}")


def replay(data):
    chk = data.get("check")
    if chk in ("ended", "readonly"):
        return _check_ended_replay(data)
    if chk == "fresh":
        bad, detail, _ = _fresh_one(data["kind"], data["relativize"])
        return bad, detail
    if chk == "serial_cmp":
        bad = _serial_pair(data["a"], data["b"])
        return (bad is not None, bad[0] if bad else "agrees with RFC 1982")
    if chk == "serial_add":
        bad = _serial_add(data["v"], data["n"])
        return (bad is not None, bad[0] if bad else "agrees with RFC 1982")
    try:
        with M.watchdog(30):
            fails = execute(data["kind"], data["relativize"], data["base"], data["ops"], data["mode"])
    except Exception as e:  # noqa: BLE001
        if M.raised_in_library(e):
            return True, f"{type(e).__name__}: {e} while preparing or reading the zone"
        raise
    if fails:
        return True, fails[0][0] + ": " + fails[0][1]
    return False, "sequence matches the model"
