"""Bounded stand-in for C19 - the copy-on-write B-tree is a correct sorted map with
isolated clones (dns/btree.py).

The real ``dns.btree`` classes are driven natively and compared, after every step, with an
independent reference: a plain ``dict`` plus a sorted key list (``bisect``), and a cursor
model in which a cursor is a *cut* in key space (``-inf``, ``+inf``, just before ``k`` or
just after ``k``).  Nothing of the library is patched.

Sections (all deterministic for a given seed):

A  every insertion order (plain in-place trees, no clone);
B  the full reachable-state closure over a small key universe, explored through
   freeze/clone at every step (so the exploration tree *is* a clone tree and every
   explored state stays alive as a frozen original of many clones);
C  as B but with cursors opened at every cut through every route before the operation
   and read after it, and with two operations applied to one clone (partially owned
   trees);
F  depth-limited closures around height-3 base trees (all-minimal, all-maximal, seeded);
D  seeded long multi-tree histories (several clones alive, cursors kept open across
   mutations, iteration while mutating, all wrapper APIs, big branching factors).
"""

from __future__ import annotations

import bisect
import itertools
import traceback

import dns.btree as B

CL_MAP = "C19.map_agrees_with_reference"
CL_SET = "C19.set_agrees_with_reference"
CL_CUR = "C19.cursor_seek_next_prev"
CL_CURM = "C19.cursor_across_mutations"
CL_OCC = "C19.occupancy_and_leaf_depth"
CL_ISO = "C19.clone_isolation"
CL_FRZ = "C19.frozen_rejects_mutation"

BOUNDS = (
    "Real dns.btree code (BTreeDict and BTreeSet) against a dict + sorted-list reference and a cut-based "
    "cursor model (a cursor is -inf, +inf, just-before-k or just-after-k; next/prev move the cut). After every "
    "operation: return values of insert/delete, len, contents and values by an independent node traversal, "
    "occupancy t-1..2t-1 (root exempt from the minimum, an internal root needs >= 1 key), children == keys+1, "
    "equal leaf depth, every frozen tree identical to its snapshot (structure and element identity); for "
    "every structure seen for the first time also lookup of every present key and every gap, iteration, "
    "visit_in_order, items/keys, and static cursor walks (seek before/after every key and gap, the 5-step "
    "walks nppnn and pnnpp, full forward and backward walks, both boundaries). "
    "EXHAUSTIVE: (A) every insertion order in place - quick: 7 keys t=3 with in_order off and on, set 6 keys; "
    "thorough: 8 keys for t=3 and t=4, off and on, set 7 keys. (B) every B-tree state reachable by any "
    "sequence of insert/replace/delete (present or absent key) over a universe of U keys, each operation "
    "applied to a fresh copy-on-write clone of each frozen state, every mutator tried on every frozen state, "
    "all states re-verified against their snapshots at the end - quick: (t,U,in_order) = (3,10,off) (3,9,on) "
    "(4,10,off) (5,10,off), set (3,8,on); thorough: (3,12,off) (3,11,on) (4,12,off) (4,11,on) (5,12,off) "
    "(6,12,off), set (3,10,on). (C) the same closure on smaller universes with ~130 cursors opened "
    "beforehand at every cut through every route (seek before/after, after next(), after prev(), "
    "seek_first/last, exhausted, fresh; half registered, half parked by hand) and read afterwards in the "
    "patterns nn/pp/np/pn - quick (3,7,off) (3,7,on) set (3,6); thorough (3,9,off) (3,8,on) (4,9,off) "
    "(5,10,off) set (3,8) - and with every ordered pair of operations on one clone (partially owned trees) - "
    "quick (3,7,off); thorough (3,8,off) (3,8,on) (4,9,off). (F) closures of depth 2 (thorough also depth 3 "
    "for one base) over every present key and one key per gap around height-3 / full height-2 bases of 20-70 "
    "keys (greedy near-minimal, fullest in-order load, ascending, descending, seeded) - quick 4 bases t=3; "
    "thorough 12 bases t=3 and 9 bases t=4. "
    "SEEDED: (D) 21 configurations: histories of 400 operations over 120-200 keys for t in {3,4,5,6} x "
    "in_order {off,on,mixed per call}, sets, str and dns.name.Name keys, a 24-key churn, and 900-1500 "
    "operations over 400-700 keys for t in {8,16,127}; up to 4 mutable clones and 10 frozen trees alive, "
    "freeze/clone at random points, up to 6 cursors kept open across mutations (also on frozen originals while "
    "clones change), iteration while mutating, every wrapper API (insert_element, __setitem__, update, add, "
    "delete_key, __delitem__, pop, discard, remove, delete_exact), all trees checked after every mutation; "
    "quick one round (~8k steps), thorough rounds until 480 s (~400k steps). "
    "Not covered: key types with an inconsistent order, t > 127, more than one thread. Nothing in this "
    "property needs the cryptography package, so its absence costs no coverage."
)

_VAL = itertools.count(1)
_LIMIT = [None]  # seconds of R.elapsed() after which the current phase stops generating


def dl(R):
    return R.deadline() or (_LIMIT[0] is not None and R.elapsed() > _LIMIT[0])


# --------------------------------------------------------------------------- failures
class Cx:
    """Collects failures: (clause, category, detail, op)."""

    __slots__ = ("fails",)

    def __init__(self):
        self.fails = []

    def fail(self, clause, cat, detail, op=""):
        self.fails.append((clause, cat, str(detail)[:300], op))


# --------------------------------------------------------------------------- inspection
def inspect(tree):
    """Independent traversal: (structure tuple, elements in order, problems)."""
    t = tree.t
    maxk = 2 * t - 1
    mink = t - 1
    probs = []
    elts = []
    depths = set()

    def rec(n, depth, root):
        ne = len(n.elts)
        if ne > maxk:
            probs.append(("occupancy-over", f"{ne} keys > {maxk} at depth {depth} (t={t})"))
        if not root and ne < mink:
            probs.append(("occupancy-under", f"{ne} keys < {mink} at depth {depth} (t={t})"))
        if n.t != t:
            probs.append(("node-t", f"node.t={n.t} tree.t={t}"))
        if n.is_leaf:
            if n.children:
                probs.append(("child-count", "leaf with children"))
            depths.add(depth)
            elts.extend(n.elts)
            return tuple([e.key() for e in n.elts])
        nc = len(n.children)
        if root and ne == 0:
            probs.append(("empty-internal-root", f"internal root without keys over {nc} child(ren)"))
        if nc != ne + 1:
            probs.append(("child-count", f"{nc} children for {ne} keys at depth {depth}"))
        subs = []
        for i in range(max(nc, ne)):
            if i < nc:
                subs.append(rec(n.children[i], depth + 1, False))
            if i < ne:
                elts.append(n.elts[i])
        return (tuple([e.key() for e in n.elts]), tuple(subs))

    st = rec(tree.root, 0, True)
    if len(depths) > 1:
        probs.append(("leaf-depth", f"leaves at depths {sorted(depths)}"))
    return st, elts, probs


def height(tree):
    h = 1
    n = tree.root
    while not n.is_leaf:
        n = n.children[0]
        h += 1
    return h


# --------------------------------------------------------------------------- cursor model
def pos_index(sk, pos):
    tag = pos[0]
    if tag == "b":
        return bisect.bisect_left(sk, pos[1])
    if tag == "a":
        return bisect.bisect_right(sk, pos[1])
    if tag == "-":
        return 0
    return len(sk)


def model_step(sk, pos, ch):
    idx = pos_index(sk, pos)
    if ch == "n":
        if idx < len(sk):
            k = sk[idx]
            return k, ("a", k)
        return None, ("+",)
    if idx > 0:
        k = sk[idx - 1]
        return k, ("b", k)
    return None, ("-",)


WALKS = ("nppnn", "pnnpp")


# --------------------------------------------------------------------------- tree + model
class T:
    __slots__ = ("tree", "kind", "model", "skeys", "frozen", "snap", "io", "path", "manual", "tol")

    def __init__(self, kind, t, io, tree=None):
        self.kind = kind
        self.io = io  # 0 off, 1 on, 2 mixed (per call)
        if tree is None:
            cls = B.BTreeDict if kind == "dict" else B.BTreeSet
            tree = cls(t=t, in_order=(io == 1))
        self.tree = tree
        self.model = {}
        self.skeys = []
        self.frozen = False
        self.snap = None
        self.path = ()
        self.manual = []
        # malformation categories this tree already had before the current operation
        # (reported when they appeared; not re-reported while they merely persist)
        self.tol = frozenset()

    @property
    def clause(self):
        return CL_MAP if self.kind == "dict" else CL_SET

    def freeze(self):
        self.tree.make_immutable()
        self.frozen = True
        st, elts, probs = inspect(self.tree)
        self.snap = (st, list(elts), len(self.tree), probs)

    def clone(self, io=None):
        if io is None:
            io = self.io
        cls = B.BTreeDict if self.kind == "dict" else B.BTreeSet
        tree = cls(original=self.tree, in_order=(io == 1))
        c = T(self.kind, self.tree.t, io, tree)
        c.model = dict(self.model)
        c.skeys = list(self.skeys)
        c.tol = self.tol
        return c

    # ---- mutation through the real API, mirrored on the model
    def apply(self, cx, op, k, variant=0, ioflag=None):
        """op: ins | del | delx | delxbad.  Returns True if the op was evaluated."""
        tree = self.tree
        model = self.model
        present = k in model
        cl = self.clause
        name = f"{op}{variant}"
        for c in self.manual:
            c.park()
        if ioflag is None:
            ioflag = self.io == 1
        tree.in_order = ioflag
        try:
            if op == "ins":
                v = next(_VAL)
                if self.kind == "dict":
                    if variant == 0:
                        old = tree.insert_element(B.KV(k, v), ioflag)
                        if (old is None) == present or (present and old.value() != model[k]):
                            cx.fail(cl, "insert-return", f"insert_element({k!r}) returned {old!r}, present={present}", name)
                    elif variant == 1:
                        tree[k] = v
                    else:
                        tree.update({k: v})
                else:
                    v = True
                    if variant == 0:
                        old = tree.insert_element(B.Member(k), ioflag)
                        if (old is None) == present:
                            cx.fail(cl, "insert-return", f"insert_element({k!r}) returned {old!r}, present={present}", name)
                    else:
                        tree.add(k)
                if not present:
                    bisect.insort(self.skeys, k)
                model[k] = v
            elif op == "del":
                if variant == 0:
                    old = tree.delete_key(k)
                    bad = (old is None) == present
                    if not bad and present and self.kind == "dict" and old.value() != model[k]:
                        bad = True
                    if not bad and present and old.key() != k:
                        bad = True
                    if bad:
                        cx.fail(cl, "delete-return", f"delete_key({k!r}) returned {old!r}, present={present}", name)
                elif variant == 1:
                    if self.kind == "dict":
                        try:
                            del tree[k]
                            raised = False
                        except KeyError:
                            raised = True
                        if raised == present:
                            cx.fail(cl, "delete-return", f"del tree[{k!r}] KeyError={raised}, present={present}", name)
                    else:
                        tree.discard(k)
                else:
                    if self.kind == "dict":
                        sent = object()
                        got = tree.pop(k, sent)
                        if (got is sent) == present or (present and got != model[k]):
                            cx.fail(cl, "delete-return", f"pop({k!r}) returned {got!r}, present={present}", name)
                    else:
                        try:
                            tree.remove(k)
                            raised = False
                        except KeyError:
                            raised = True
                        if raised == present:
                            cx.fail(cl, "delete-return", f"remove({k!r}) KeyError={raised}, present={present}", name)
                if present:
                    del model[k]
                    self.skeys.pop(bisect.bisect_left(self.skeys, k))
            elif op == "delx":
                if not present:
                    return False
                elt = tree.get_element(k)
                if elt is None:
                    cx.fail(cl, "lookup", f"get_element({k!r}) is None for a present key", name)
                    return True
                got = tree.delete_exact(elt)
                if got is not elt:
                    cx.fail(cl, "delete-return", f"delete_exact returned another element for {k!r}", name)
                del model[k]
                self.skeys.pop(bisect.bisect_left(self.skeys, k))
            elif op == "delxbad":
                if not present:
                    return False
                other = B.KV(k, -1) if self.kind == "dict" else B.Member(k)
                try:
                    tree.delete_exact(other)
                except (ValueError, AssertionError):
                    pass
                # A refused delete_exact is outside the property's operation set: only the
                # content (checked by the caller's check_tree) must be unchanged; the
                # key-less root it can leave behind is not counted against this call.
                self.tol = self.tol | {"empty-internal-root"}
            else:  # pragma: no cover
                raise RuntimeError(op)
        except B.Immutable:
            raise
        except Exception as e:  # library crashed on a valid operation
            cx.fail(cl, f"exception:{type(e).__name__}", f"{op}({k!r}) raised {e!r}", name)
            raise LibraryCrash() from e
        return True

    # ---- checks
    def check_tree(self, cx, op=""):
        st, elts, probs = inspect(self.tree)
        for cat, d in probs:
            if cat not in self.tol:
                cx.fail(CL_OCC, cat, d, op)
        if probs or self.tol:
            self.tol = frozenset(cat for cat, _ in probs)
        keys = [e.key() for e in elts]
        cl = self.clause
        if keys != self.skeys:
            if sorted(keys) == self.skeys:
                cx.fail(cl, "node-order", f"in-order traversal not sorted: {keys[:12]}", op)
            else:
                cx.fail(cl, "content", f"tree holds {keys[:12]}.. expected {self.skeys[:12]}..", op)
        elif self.kind == "dict":
            model = self.model
            for e in elts:
                if e.value() != model[e.key()]:
                    cx.fail(cl, "value", f"value at {e.key()!r} is {e.value()!r} expected {model[e.key()]!r}", op)
                    break
        if len(self.tree) != len(self.skeys):
            cx.fail(cl, "len", f"len {len(self.tree)} expected {len(self.skeys)}", op)
        return st

    def check_api(self, cx, probes, op="", full=True):
        tree = self.tree
        cl = self.clause
        sk = self.skeys
        model = self.model
        if full:
            got = list(tree)
            if got != sk:
                cx.fail(cl, "iter", f"iteration {got[:12]} expected {sk[:12]}", op)
            acc = []
            tree.visit_in_order(lambda e: acc.append(e.key()))
            if acc != sk:
                cx.fail(cl, "visit", f"visit_in_order {acc[:12]} expected {sk[:12]}", op)
            if self.kind == "dict":
                if dict(tree.items()) != model or list(tree.keys()) != sk:
                    cx.fail(cl, "items", "items()/keys() differ from the reference", op)
        isdict = self.kind == "dict"
        for p in probes:
            present = p in model
            e = tree.get_element(p)
            if (e is not None) != present or (present and e.key() != p):
                cx.fail(cl, "lookup", f"get_element({p!r}) -> {e!r}, present={present}", op)
                break
            if (p in tree) != present:
                cx.fail(cl, "lookup", f"{p!r} in tree != {present}", op)
                break
            if isdict:
                try:
                    v = tree[p]
                    ok = present and v == model[p]
                except KeyError:
                    ok = not present
                if not ok:
                    cx.fail(cl, "lookup", f"tree[{p!r}] wrong, present={present}", op)
                    break
                if tree.get(p, None) != model.get(p, None):
                    cx.fail(cl, "lookup", f"get({p!r}) wrong", op)
                    break

    def check_cursor_static(self, cx, probes, op="", full=True):
        tree = self.tree
        sk = self.skeys
        n = len(sk)
        c = tree.cursor()
        for p in probes:
            for before in (True, False):
                start = bisect.bisect_left(sk, p) if before else bisect.bisect_right(sk, p)
                for walk in WALKS:
                    c.seek(p, before)
                    idx = start
                    for j, ch in enumerate(walk):
                        if ch == "n":
                            e = c.next()
                            if idx < n:
                                exp = sk[idx]
                                idx += 1
                            else:
                                exp = None
                        else:
                            e = c.prev()
                            if idx > 0:
                                idx -= 1
                                exp = sk[idx]
                            else:
                                exp = None
                        got = e.key() if e is not None else None
                        if got != exp:
                            cx.fail(
                                CL_CUR,
                                "walk",
                                f"seek({p!r}, before={before}) then {walk[:j + 1]!r}: got {got!r} expected {exp!r}; keys={sk[:16]}",
                                op,
                            )
                            return
        if full:
            c = tree.cursor()  # fresh cursor is on the left boundary
            got = []
            for _ in range(n + 1):
                e = c.next()
                got.append(e.key() if e is not None else None)
            if got != sk + [None]:
                cx.fail(CL_CUR, "forward", f"forward walk {got[:12]} expected {sk[:12]}", op)
                return
            e = c.prev()  # from the right boundary back to the greatest
            if (e.key() if e is not None else None) != (sk[-1] if sk else None):
                cx.fail(CL_CUR, "boundary", "prev() from the right boundary is not the greatest key", op)
                return
            c.seek_last()
            got = []
            for _ in range(n + 1):
                e = c.prev()
                got.append(e.key() if e is not None else None)
            if got != sk[::-1] + [None]:
                cx.fail(CL_CUR, "backward", f"backward walk {got[:12]} expected {sk[::-1][:12]}", op)
                return
            e = c.next()
            if (e.key() if e is not None else None) != (sk[0] if sk else None):
                cx.fail(CL_CUR, "boundary", "next() from the left boundary is not the least key", op)
                return
            c.seek_first()
            e = c.next()
            if (e.key() if e is not None else None) != (sk[0] if sk else None):
                cx.fail(CL_CUR, "boundary", "seek_first(); next() is not the least key", op)

    def verify_frozen(self, cx, op=""):
        st, elts, probs = inspect(self.tree)
        sst, selts, ssize, sprobs = self.snap
        if st != sst or len(elts) != len(selts) or any(a is not b for a, b in zip(elts, selts)):
            cx.fail(CL_ISO, "frozen-tree-changed", f"frozen tree differs from its snapshot: {str(st)[:100]} was {str(sst)[:100]}", op)
        elif len(self.tree) != ssize:
            cx.fail(CL_ISO, "frozen-tree-changed", f"len of frozen tree {len(self.tree)} was {ssize}", op)
        elif probs != sprobs:
            cx.fail(CL_ISO, "frozen-tree-changed", f"frozen tree became malformed: {probs[:1]}", op)

    def check_frozen_rejects(self, cx, keys, extra=True):
        """Every mutator on a frozen tree: Immutable when it would change content, and
        content unchanged in every case.  Returns the number of attempts."""
        tree = self.tree
        model = self.model
        isdict = self.kind == "dict"
        attempts = []
        for k in keys:
            present = k in model
            if isdict:
                attempts.append(("insert_element", lambda k=k: tree.insert_element(B.KV(k, -5), False), True))
                attempts.append(("insert_element_in_order", lambda k=k: tree.insert_element(B.KV(k, -5), True), True))
                attempts.append(("__setitem__", lambda k=k: tree.__setitem__(k, -5), True))
                attempts.append(("delete_key", lambda k=k: tree.delete_key(k), present))
                attempts.append(("__delitem__", lambda k=k: tree.__delitem__(k), present))
                if extra:
                    attempts.append(("pop", lambda k=k: tree.pop(k, None), present))
                    attempts.append(("update", lambda k=k: tree.update({k: -5}), True))
                    attempts.append(("setdefault", lambda k=k: tree.setdefault(k, -5), not present))
            else:
                attempts.append(("insert_element", lambda k=k: tree.insert_element(B.Member(k), False), not present))
                attempts.append(("add", lambda k=k: tree.add(k), not present))
                attempts.append(("delete_key", lambda k=k: tree.delete_key(k), present))
                attempts.append(("discard", lambda k=k: tree.discard(k), present))
                if extra:
                    attempts.append(("remove", lambda k=k: tree.remove(k), present))
                    attempts.append(("__ior__", lambda k=k: tree.__ior__({k}), not present))
                    attempts.append(("__isub__", lambda k=k: tree.__isub__({k}), present))
            if present:
                elt = tree.get_element(k)
                if elt is not None:
                    attempts.append(("delete_exact", lambda elt=elt: tree.delete_exact(elt), True))
        if extra:
            nonempty = len(model) > 0
            attempts.append(("clear", lambda: tree.clear(), nonempty))
            if isdict:
                attempts.append(("popitem", lambda: tree.popitem(), nonempty))
            else:
                attempts.append(("pop", lambda: tree.pop(), nonempty))
        for name, fn, would_change in attempts:
            try:
                fn()
                rejected = False
            except B.Immutable:
                rejected = True
            except Exception:
                rejected = None
            if would_change and rejected is not True:
                how = "did not raise" if rejected is False else "raised something other than Immutable"
                cx.fail(CL_FRZ, "frozen-accepted", f"{name} on a frozen tree {how}", name)
        st, elts, probs = inspect(tree)
        sst, selts, ssize, sprobs = self.snap
        if st != sst or len(elts) != len(selts) or any(a is not b for a, b in zip(elts, selts)) or len(tree) != ssize or probs != sprobs:
            cx.fail(CL_FRZ, "frozen-changed", "content of a frozen tree changed after rejected mutators", "")
        return len(attempts)


class LibraryCrash(Exception):
    pass


# --------------------------------------------------------------------------- scripts / replay
class World:
    """Interpreter for recorded scripts (also drives the seeded histories)."""

    def __init__(self, keytype="int", full=True, probe_keys=None):
        self.cx = Cx()
        self.trees = {}
        self.cursors = {}  # cid -> [cursor, tid, pos, mode]
        self.keytype = keytype
        self.full = full
        self.probe_keys = probe_keys  # script-level int keys to probe on full checks
        self.nsteps = 0
        self.dead = False

    def kc(self, k):
        if self.keytype == "int":
            return k
        if self.keytype == "str":
            return f"{(k * 7919) % 1000:03d}-{k}"
        import dns.name

        return dns.name.Name((str(k % 7).encode(), ("n%d" % k).encode(), b""))

    def probes_for(self, X, around=None, limit=None):
        if self.probe_keys is not None and limit is None:
            return [self.kc(k) for k in self.probe_keys]
        ps = set()
        if around is not None:
            ps.add(around)
            i = bisect.bisect_left(X.skeys, around)
            for j in (i - 2, i - 1, i, i + 1, i + 2):
                if 0 <= j < len(X.skeys):
                    ps.add(X.skeys[j])
        if X.skeys:
            ps.add(X.skeys[0])
            ps.add(X.skeys[-1])
        return sorted(ps)

    def check_all(self, op=""):
        cx = self.cx
        for tid, X in self.trees.items():
            if X.frozen:
                X.verify_frozen(cx, op)
            X.check_tree(cx, op)

    def exec(self, st):
        """Execute one step; returns True when the step reached the behaviour under test."""
        if self.dead:
            return False
        self.nsteps += 1
        cx = self.cx
        kind = st[0]
        if kind == "drop":
            for cid in [c for c, ent in self.cursors.items() if ent[1] == st[1]]:
                self.cursors.pop(cid)
            self.trees.pop(st[1], None)
            return False
        try:
            if kind == "new":
                _, tid, k, t, io = st
                self.trees[tid] = T(k, t, io)
                return True
            if kind == "m":
                _, tid, op, key, variant, ioflag = st
                X = self.trees[tid]
                k = self.kc(key)
                nt = X.apply(cx, op, k, variant, None if ioflag is None else bool(ioflag))
                nfail = len(cx.fails)
                X.check_tree(cx, f"{op}{variant}")
                # the other trees must not notice
                for oid, O in self.trees.items():
                    if O is X:
                        continue
                    n0 = len(cx.fails)
                    if O.frozen:
                        O.verify_frozen(cx, f"{op}{variant}")
                    else:
                        O.check_tree(cx, f"{op}{variant}")
                    if len(cx.fails) > n0:
                        # re-label: a mutation of X became visible through O
                        for i in range(n0, len(cx.fails)):
                            f = cx.fails[i]
                            cx.fails[i] = (CL_ISO, "other-tree-changed" if f[1] != "frozen-tree-changed" else f[1], f[2], f[3])
                if self.full:
                    X.check_api(cx, self.probes_for(X, k), f"{op}{variant}")
                    X.check_cursor_static(cx, self.probes_for(X, k), f"{op}{variant}")
                else:
                    ps = self.probes_for(X, k, limit=True)
                    X.check_api(cx, ps, f"{op}{variant}", full=False)
                    X.check_cursor_static(cx, ps, f"{op}{variant}", full=False)
                return nt
            if kind == "freeze":
                self.trees[st[1]].freeze()
                return True
            if kind == "clone":
                _, src, dst, io = st
                self.trees[dst] = self.trees[src].clone(io)
                return True
            if kind == "cur":
                _, cid, tid, mode = st
                X = self.trees[tid]
                c = X.tree.cursor()
                if mode == "w":
                    c.__enter__()
                else:
                    X.manual.append(c)
                self.cursors[cid] = [c, tid, ("-",), mode]
                return True
            if kind == "close":
                ent = self.cursors.pop(st[1])
                X = self.trees[ent[1]]
                if ent[3] == "w":
                    ent[0].__exit__(None, None, None)
                else:
                    X.manual.remove(ent[0])
                return True
            if kind in ("seek", "first", "last"):
                ent = self.cursors[st[1]]
                if kind == "seek":
                    k = self.kc(st[2])
                    ent[0].seek(k, bool(st[3]))
                    ent[2] = ("b", k) if st[3] else ("a", k)
                elif kind == "first":
                    ent[0].seek_first()
                    ent[2] = ("-",)
                else:
                    ent[0].seek_last()
                    ent[2] = ("+",)
                return True
            if kind in ("n", "p"):
                ent = self.cursors[st[1]]
                X = self.trees[ent[1]]
                exp, npos = model_step(X.skeys, ent[2], kind)
                e = ent[0].next() if kind == "n" else ent[0].prev()
                got = e.key() if e is not None else None
                if got != exp:
                    cx.fail(
                        CL_CURM,
                        "live-cursor",
                        f"cursor at {ent[2]!r} {'next' if kind == 'n' else 'prev'}() -> {got!r} expected {exp!r}; keys={X.skeys[:16]}",
                        kind,
                    )
                elif e is not None and X.kind == "dict" and e.value() != X.model[exp]:
                    cx.fail(CL_CURM, "live-cursor-value", f"cursor element at {exp!r} has a stale value", kind)
                ent[2] = npos
                return True
            if kind == "iter":
                _, tid, ops = st
                X = self.trees[tid]
                it = iter(X.tree)
                pos = ("-",)
                i = 0
                while True:
                    exp, pos = model_step(X.skeys, pos, "n")
                    try:
                        got = next(it)
                    except StopIteration:
                        got = None
                    if got != exp:
                        cx.fail(CL_CURM, "iterate-while-mutating", f"iteration yielded {got!r} expected {exp!r} after {i} mutations", "iter")
                        break
                    if got is None:
                        break
                    if i < len(ops):
                        op, key, variant, ioflag = ops[i]
                        i += 1
                        X.apply(cx, op, self.kc(key), variant, None if ioflag is None else bool(ioflag))
                        X.check_tree(cx, "iter-" + op)
                it = None
                return True
            if kind == "frz":
                _, tid, keys = st
                X = self.trees[tid]
                X.check_frozen_rejects(cx, [self.kc(k) for k in keys])
                return True
            if kind == "chk":
                self.check_all("chk")
                for X in self.trees.values():
                    ps = X.skeys if len(X.skeys) <= 64 else X.skeys[:: max(1, len(X.skeys) // 48)]
                    X.check_api(cx, ps, "chk")
                    X.check_cursor_static(cx, ps, "chk")
                return True
            raise RuntimeError(f"bad step {st!r}")
        except LibraryCrash:
            self.dead = True
            return True
        except B.Immutable as e:
            cx.fail(CL_MAP, "exception:Immutable", f"Immutable raised on a mutable tree at {st!r}", str(st[0]))
            self.dead = True
            return True
        except Exception as e:
            where = lib_frame(e)
            if where is None:
                raise
            clause = CL_CURM if kind in ("n", "p", "seek", "iter") else (CL_CUR if kind == "chk" else CL_MAP)
            cx.fail(clause, f"exception:{type(e).__name__}", f"{st!r} raised {e!r} in {where}", str(st[0]))
            self.dead = True
            return True


def path_to_script(path):
    """A closure path is already a tuple of script steps."""
    return [list(s) for s in path]


def report(R, cx, script, opts, seen_before=0):
    for clause, cat, detail, op in cx.fails[seen_before:]:
        op = op.replace("iter-", "").rstrip("0123456789")
        R.violation(
            clause,
            f"{cat}: {detail}",
            sig={"site": "dns.btree", "check": cat, "op": op},
            replay={"script": script, "opts": opts, "clause": clause, "check": cat},
        )


def run_script(script, opts):
    w = World(keytype=opts.get("keytype", "int"), full=True, probe_keys=opts.get("probe_keys"))
    for st in script:
        st = tuple(st)
        w.exec(st)
        if w.dead:
            break
    if not w.dead:
        w.exec(("chk",))
    return w


def replay(data):
    global _VAL
    _VAL = itertools.count(1)
    w = run_script(data["script"], data.get("opts", {}))
    fails = w.cx.fails
    if not fails:
        return False, f"script of {len(data['script'])} steps passes all checks"
    want = (data.get("clause"), data.get("check"))
    for f in fails:
        if (f[0], f[1]) == want:
            return True, f"{f[0]} {f[1]}: {f[2]}"
    if want == (None, None):
        f = fails[0]
        return True, f"{f[0]} {f[1]}: {f[2]}"
    others = sorted({f[1] for f in fails})
    return False, f"the recorded check {want[1]!r} no longer fails on this script (other checks that fail: {others})"


# --------------------------------------------------------------------------- A: insertion orders
def section_insertion_orders(R, t, n, io, kind="dict"):
    """Every insertion order of n distinct keys, in place (no clone)."""
    keys = list(range(n))
    opts = {"probe_keys": list(range(-1, n + 1))}
    probes = list(range(-1, n + 1))

    cl = CL_MAP if kind == "dict" else CL_SET
    count = 0
    stack = [()]
    while stack:
        prefix = stack.pop()
        if (count & 255) == 0 and dl(R):
            R.note(f"A: deadline after {count} prefixes (t={t} n={n})")
            return
        if prefix:
            X = T(kind, t, io)
            cx = Cx()
            crashed = False
            for k in prefix[:-1]:  # the prefix steps were checked at their own DFS node
                try:
                    X.apply(cx, "ins", k, 0)
                except LibraryCrash:
                    crashed = True
                    break
            if crashed:
                continue
            cx = Cx()
            nt, st, fresh = apply_and_check(X, cx, "ins", prefix[-1], probes)
            count += 1
            R.case(cl, ("A", t, io, prefix), nt)
            R.case(CL_OCC, ("A", t, io, prefix), nt)
            if fresh:
                R.case(CL_CUR, ("A", t, io, prefix), nt)
            if cx.fails:
                script = [["new", 0, kind, t, io]] + [["m", 0, "ins", k, 0, None] for k in prefix]
                report(R, cx, script, opts)
                continue
            elif count == 1:
                R.sample(cl, {"section": "A", "t": t, "in_order": io, "insertion_order": list(prefix)})
        if len(prefix) < n:
            used = set(prefix)
            for k in keys:
                if k not in used:
                    stack.append(prefix + (k,))


# --------------------------------------------------------------------------- B/C/F: closures
def lib_frame(e):
    """Name of the innermost dns/btree.py frame of an exception, or None (harness bug)."""
    tb = traceback.extract_tb(e.__traceback__)
    for fr in reversed(tb):
        if fr.filename.replace("\\", "/").endswith("dns/btree.py"):
            return f"{fr.name}"
    return None


def cursor_plan(probes, model):
    """Every cut, through every route, for every 2-step read pattern.
    Entries: (route, key-or-None, walk, mode)."""
    plan = []
    n = 0
    for p in probes:
        routes = ["sb", "sa"] + (["nr", "pr"] if p in model else [])
        for route in routes:
            for walk in ("nn", "pp", "np", "pn"):
                n += 1
                plan.append((route, p, walk, "w" if n & 1 else "m"))
    for route in ("first", "last", "xr", "xl", "fresh"):
        for walk in ("nn", "pp", "np", "pn"):
            n += 1
            plan.append((route, None, walk, "w" if n & 1 else "m"))
    return plan


def plan_open_steps(plan, tid):
    """Script steps that open the cursors of a plan (cid = index in the plan)."""
    steps = []
    for cid, (route, p, walk, mode) in enumerate(plan):
        steps.append(["cur", cid, tid, mode])
        if route == "sb":
            steps.append(["seek", cid, p, 1])
        elif route == "sa":
            steps.append(["seek", cid, p, 0])
        elif route == "nr":
            steps += [["seek", cid, p, 1], ["n", cid]]
        elif route == "pr":
            steps += [["seek", cid, p, 0], ["p", cid]]
        elif route == "first":
            steps.append(["first", cid])
        elif route == "last":
            steps.append(["last", cid])
        elif route == "xr":
            steps += [["last", cid], ["n", cid]]
        elif route == "xl":
            steps += [["first", cid], ["p", cid]]
    return steps


def plan_read_steps(plan):
    steps = []
    for cid, (route, p, walk, mode) in enumerate(plan):
        for ch in walk:
            steps.append([ch, cid])
    return steps


def open_plan(X, plan):
    """Open the cursors of a plan directly on X.  Returns [cursor, pos, walk, route]."""
    tree = X.tree
    out = []
    for route, p, walk, mode in plan:
        c = tree.cursor()
        if route == "sb":
            c.seek(p, True)
            pos = ("b", p)
        elif route == "sa":
            c.seek(p, False)
            pos = ("a", p)
        elif route == "nr":
            c.seek(p, True)
            c.next()
            pos = ("a", p)
        elif route == "pr":
            c.seek(p, False)
            c.prev()
            pos = ("b", p)
        elif route == "first":
            c.seek_first()
            pos = ("-",)
        elif route == "last":
            c.seek_last()
            pos = ("+",)
        elif route == "xr":
            c.seek_last()
            c.next()
            pos = ("+",)
        elif route == "xl":
            c.seek_first()
            c.prev()
            pos = ("-",)
        else:
            pos = ("-",)
        if mode == "w":
            c.__enter__()
        else:
            X.manual.append(c)
        out.append([c, pos, walk, route])
    return out


def check_routes(X, cx, routes, op):
    sk = X.skeys
    for c, pos, walk, route in routes:
        p = pos
        for j, ch in enumerate(walk):
            exp, p = model_step(sk, p, ch)
            e = c.next() if ch == "n" else c.prev()
            got = e.key() if e is not None else None
            if got != exp:
                cx.fail(
                    CL_CURM,
                    "live-cursor",
                    f"cursor opened via {route} at {pos!r}; after the mutation {walk[:j + 1]!r} -> {got!r} expected {exp!r}; keys={sk[:16]}",
                    ch,
                )
                break
    X.tree.cursors.clear()
    X.manual.clear()


def near(sk, k, w=3):
    """Probe keys around k: k itself, w neighbours on each side, and both ends."""
    i = bisect.bisect_left(sk, k)
    ps = set(sk[max(0, i - w) : i + w + 1])
    ps.add(k)
    ps.add(k - 1)
    ps.add(k + 1)
    if sk:
        ps.add(sk[0])
        ps.add(sk[-1])
    return sorted(ps)


# Structures whose read-only behaviour (lookups, iteration, static cursor walks from every
# cut) has already been compared with the reference.  Reads never look at node ownership,
# so they are a function of the structure (shape + keys) alone; every *new* structure is
# checked in full, a structure seen before only gets the per-operation checks.
_CHECKED = {"dict": set(), "set": set()}


def apply_and_check(X, cx, op, k, probes, routes=None, full=True):
    """One operation on X followed by every per-tree check.  Library exceptions become
    failures; returns (evaluated, structure-or-None)."""
    opname = op + "0"
    stage = X.clause
    try:
        nt = X.apply(cx, op, k, 0)
        st = X.check_tree(cx, opname)
        memo = _CHECKED[X.kind]
        fresh = st not in memo
        if fresh:
            if not cx.fails:
                memo.add(st)
            # every present key and every gap (int keys: k-1 / k+1), plus the given probes
            sk = X.skeys
            if len(sk) <= 16:
                ps = set(sk)
            else:
                # big trees: the neighbourhood of the operation (the full forward and
                # backward walks below still cross every node)
                ps = set(near(sk, k, 2))
            ps.update([q - 1 for q in ps])
            ps.update([q + 1 for q in ps])
            ps.update(probes)
            ps = sorted(ps)
            X.check_api(cx, ps, opname, full=True)
            stage = CL_CUR
            X.check_cursor_static(cx, ps, opname, full=True)
        if routes is not None:
            stage = CL_CURM
            check_routes(X, cx, routes, opname)
        return nt, st, fresh
    except LibraryCrash:
        return True, None, False
    except Exception as e:
        where = lib_frame(e)
        if where is None:
            raise
        cx.fail(stage, f"exception:{type(e).__name__}", f"{op}({k!r}) then checks: {e!r} in {where}", opname)
        return True, None, False


def explore_closure(R, tag, start, ops_for, probes, frz_keys, depth_limit=None, with_cursors=False, pairs=False, frozen_every=1):
    """BFS over distinct tree structures; every operation is applied to a fresh
    copy-on-write clone of a frozen state, so every explored state stays alive as the
    original of many clones.  ``start``: a frozen T with .path set."""
    st0, _, _ = inspect(start.tree)
    seen = {st0}
    queue = [(start, 0)]
    cl = start.clause
    ropts = {"probe_keys": probes}
    allprobes = probes
    i = 0
    napps = 0
    while i < len(queue):
        S, depth = queue[i]
        i += 1
        if dl(R):
            R.note(f"{tag}: deadline after {i} of {len(queue)} states")
            break
        ops = ops_for(S)
        tid = sum(1 for s in S.path if s[0] == "clone")
        if frozen_every and (i % frozen_every) == 0:
            cx = Cx()
            S.check_frozen_rejects(cx, frz_keys)
            R.case(CL_FRZ, (tag, S.snap[0]), True)
            if cx.fails:
                report(R, cx, path_to_script(S.path) + [["freeze", tid], ["frz", tid, frz_keys]], ropts)
        prefix = S.path + (("freeze", tid), ("clone", tid, tid + 1, S.io))
        for op, k in ops:
            C = S.clone()
            cx = Cx()
            probes = allprobes if allprobes is not None else near(S.skeys, k)
            plan = routes = None
            if with_cursors:
                plan = cursor_plan(probes, C.model)
                routes = open_plan(C, plan)
            nt, st, fresh = apply_and_check(C, cx, op, k, probes, routes)
            S.verify_frozen(cx, op + "0")
            napps += 1
            key = (tag, S.snap[0], op, k)
            R.case(cl, key, nt)
            R.case(CL_OCC, key, nt)
            if fresh:
                R.case(CL_CUR, key, True)
            R.case(CL_ISO, key, nt)
            if with_cursors:
                R.case(CL_CURM, key, nt)
            step = ("m", tid + 1, op, k, 0, None)
            newpath = prefix + (step,)
            if cx.fails:
                if plan is not None and any(f[0] == CL_CURM for f in cx.fails):
                    script = path_to_script(prefix) + plan_open_steps(plan, tid + 1) + [list(step)] + plan_read_steps(plan)
                else:
                    script = path_to_script(newpath)
                report(R, cx, script, ropts)
                if any(f[1] != "empty-internal-root" for f in cx.fails):
                    continue  # do not build on a broken state
            if napps == 1:
                R.sample(cl, {"section": tag, "state": str(S.snap[0]), "op": op, "key": k, "result": str(st)})
            if pairs:
                for op2, k2 in ops_for(C):
                    # a clone that already owns the nodes touched by the first operation
                    D = S.clone()
                    cx2 = Cx()
                    try:
                        D.apply(cx2, op, k, 0)
                    except LibraryCrash:
                        break
                    nt2, _, _ = apply_and_check(D, cx2, op2, k2, probes, None, full=False)
                    S.verify_frozen(cx2, op2 + "0")
                    key2 = (tag, S.snap[0], op, k, op2, k2)
                    R.case(cl, key2, nt2)
                    R.case(CL_OCC, key2, nt2)
                    R.case(CL_ISO, key2, nt2)
                    if cx2.fails:
                        report(R, cx2, path_to_script(newpath) + [["m", tid + 1, op2, k2, 0, None]], ropts)
            if st is not None and st not in seen and (depth_limit is None or depth + 1 < depth_limit):
                C.path = newpath
                C.freeze()
                seen.add(st)
                queue.append((C, depth + 1))
    # every explored state is the frozen original of many clones: all must be untouched
    for S, _ in queue:
        cx = Cx()
        S.verify_frozen(cx, "final")
        R.case(CL_ISO, (tag, "final", S.snap[0]), True)
        if cx.fails:
            report(R, cx, path_to_script(S.path), ropts)
            break
    return len(queue), napps


def universe_ops(U):
    def ops_for(X):
        out = []
        for k in range(U):
            out.append(("ins", k))
            out.append(("del", k))
        return out

    return ops_for


def section_closure(R, t, U, io, kind, with_cursors=False, pairs=False, tag=None):
    start = T(kind, t, io)
    start.path = (("new", 0, kind, t, io),)
    start.freeze()
    probes = list(range(-1, U + 1))
    tag = tag or f"B:t{t}:U{U}:io{io}:{kind}" + (":cur" if with_cursors else "") + (":pairs" if pairs else "")
    ns, na = explore_closure(R, tag, start, universe_ops(U), probes, list(range(U)), with_cursors=with_cursors, pairs=pairs)
    R.note(f"{tag}: {ns} states, {na} clone+op applications")


# ---- F: height-3 bases
def build_base(R, kind, t, io, steps):
    """Run in-place steps [(op,key)...] on a new tree; return T with path."""
    X = T(kind, t, io)
    cx = Cx()
    path = [("new", 0, kind, t, io)]
    for op, k in steps:
        path.append(("m", 0, op, k, 0, None))
        nt, st, _ = apply_and_check(X, cx, op, k, [])
        if st is None or any(f[1] != "empty-internal-root" for f in cx.fails):
            break
    X.path = tuple(path)
    return X, cx


SP = 16  # spacing of base keys: room for 4 nested insertions into any gap


def minimal_height3(rng, t):
    """Delete keys greedily while the height stays 3: ends with the all-minimal tree."""
    n = 2 * (t ** 2) * 3
    keys = [SP * i for i in range(n)]
    steps = [("ins", k) for k in keys]
    tree = B.BTreeDict(t=t)
    for k in keys:
        tree[k] = 0
    present = list(keys)
    progress = True
    try:
        while progress:
            progress = False
            rng.shuffle(present)
            for k in list(present):
                tree.make_immutable()
                c = B.BTreeDict(original=tree)
                c.delete_key(k)
                if height(c) >= 3:
                    tree = c
                    present.remove(k)
                    steps.append(("del", k))
                    progress = True
                else:
                    tree = B.BTreeDict(original=tree)
    except Exception:
        # a library crash while searching for the base: keep what we have, the checked
        # re-execution in build_base / the closure reports it
        steps.append(("del", k))
    return steps


def maximal_height2(t):
    """Ascending insertion with in_order on fills left siblings; stop before height 3."""
    steps = []
    tree = B.BTreeDict(t=t, in_order=True)
    k = 0
    try:
        while len(steps) < 4 * t * t:
            tree.make_immutable()
            c = B.BTreeDict(original=tree, in_order=True)
            c[k] = 0
            if height(c) > 2:
                break
            tree = c
            steps.append(("ins", k))
            k += SP
    except Exception:
        steps.append(("ins", k))
    return steps


def gap_ops(Y):
    """Delete / replace every present key, insert one representative key into every gap
    (B-tree behaviour depends on the relative order of keys only)."""
    out = []
    sk = Y.skeys
    lo = (sk[0] - SP) if sk else 0
    prev = None
    for j, k in enumerate(sk):
        left = prev if prev is not None else lo - SP
        if k - left >= 2:
            out.append(("ins", (left + k) // 2))
        out.append(("del", k))
        if j % 3 == 0:
            out.append(("ins", k))
        prev = k
    out.append(("ins", (sk[-1] if sk else 0) + SP // 2))
    out.append(("del", (sk[-1] if sk else 0) + SP))  # an absent key
    return out


def section_height3(R, t, depth, nseeded, which=None):
    rng = R.rng
    bases = []
    bases.append(("minimal3", 0, minimal_height3(rng, t)))
    mx = maximal_height2(t)
    bases.append(("maximal2", 1, mx))
    bases.append(("maximal2-noio", 0, mx))
    nasc = (2 * t - 1) * (2 * t) + 2 * t  # a bit beyond a full two-level tree
    bases.append(("ascending", 0, [("ins", SP * i) for i in range(nasc)]))
    bases.append(("ascending-io", 1, [("ins", SP * i) for i in range(nasc + t)]))
    bases.append(("descending", 0, [("ins", SP * i) for i in range(nasc, 0, -1)]))
    for j in range(nseeded):
        n = rng.randrange(6 * t, 12 * t)
        ks = [SP * i for i in range(n)]
        rng.shuffle(ks)
        steps = [("ins", k) for k in ks]
        dels = rng.sample(ks, rng.randrange(0, n // 3))
        steps += [("del", k) for k in dels]
        bases.append((f"seeded{j}", rng.randrange(2), steps))
    for name, io, steps in bases:
        if which is not None and not name.startswith(which):
            continue
        if dl(R):
            break
        X, cx = build_base(R, "dict", t, io, steps)
        if cx.fails:
            report(R, cx, path_to_script(X.path), {})
            if any(f[1] != "empty-internal-root" for f in cx.fails):
                continue
        X.freeze()
        tag = f"F:t{t}:{name}:h{height(X.tree)}:n{len(X.skeys)}"
        ns, na = explore_closure(R, tag, X, gap_ops, None, X.skeys[::4] + [-SP], depth_limit=depth, frozen_every=7)
        R.note(f"{tag}: {ns} states, {na} applications")


# --------------------------------------------------------------------------- D: seeded histories
def seeded_history(R, cfg, idx):
    rng = R.rng
    t = cfg["t"]
    K = cfg["keys"]
    nops = cfg["ops"]
    kind = cfg["kind"]
    keytype = cfg["keytype"]
    io = cfg["io"]
    w = World(keytype=keytype, full=False)
    script = []
    opts = {"keytype": keytype}
    cl = CL_MAP if kind == "dict" else CL_SET

    def do(st):
        script.append(list(st))
        return w.exec(tuple(st))

    do(("new", 0, kind, t, io))
    mutable = [0]
    frozen = []
    next_tid = 1
    next_cid = 0
    open_curs = []  # cids
    phase_len = max(20, nops // rng.choice((3, 4, 6)))
    run_dir = 0
    run_key = 0
    nm = 0
    for step in range(nops):
        if (step & 15) == 0 and dl(R):
            break
        if w.dead or w.cx.fails:
            break
        phase = (step // phase_len) % 3  # 0 grow, 1 shrink, 2 churn
        r = rng.random()
        if r < 0.66 and mutable:
            tid = rng.choice(mutable)
            X = w.trees[tid]
            pins = (0.8, 0.25, 0.5)[phase]
            # runs of ascending / descending keys exercise the in-order fast path
            if run_dir and rng.random() < 0.8:
                run_key += run_dir
                if not (0 <= run_key < K):
                    run_dir = 0
                    run_key = rng.randrange(K)
                key = run_key
            else:
                key = rng.randrange(K)
                if rng.random() < 0.1:
                    run_dir = rng.choice((1, -1))
                    run_key = key
                else:
                    run_dir = 0
            if rng.random() < pins:
                op = "ins"
                if rng.random() < 0.2 and X.skeys:
                    # replacement of a present key
                    key = None
                variant = rng.randrange(3 if kind == "dict" else 2)
            else:
                op = rng.choice(("del", "del", "del", "delx", "delxbad"))
                variant = rng.randrange(3)
                if X.skeys and rng.random() < 0.75:
                    key = None
            if key is None:
                # pick a present key: need its script-level int; keep a reverse map
                kk = rng.choice(X.skeys)
                key = w_rev(w, kk)
            ioflag = None if io != 2 else rng.randrange(2)
            nt = do(("m", tid, op, key, variant, ioflag))
            nm += 1
            R.case(cl, (cfg["name"], idx, step), nt)
            R.case(CL_OCC, (cfg["name"], idx, step), nt)
            R.case(CL_CUR, (cfg["name"], idx, step), nt)
            if len(w.trees) > 1:
                R.case(CL_ISO, (cfg["name"], idx, step), nt)
        elif r < 0.86:
            if open_curs and rng.random() < 0.9:
                cid = rng.choice(open_curs)
                q = rng.random()
                if q < 0.4:
                    do(("n", cid))
                    R.case(CL_CURM, (cfg["name"], idx, step), nm > 0)
                elif q < 0.8:
                    do(("p", cid))
                    R.case(CL_CURM, (cfg["name"], idx, step), nm > 0)
                elif q < 0.94:
                    do(("seek", cid, rng.randrange(-1, K + 1), rng.randrange(2)))
                elif q < 0.97:
                    do(("first", cid))
                else:
                    do(("last", cid))
            elif len(open_curs) < 6:
                tid = rng.choice(mutable + frozen[-2:]) if (mutable or frozen) else 0
                do(("cur", next_cid, tid, rng.choice(("w", "w", "m"))))
                do(("seek", next_cid, rng.randrange(-1, K + 1), rng.randrange(2)))
                open_curs.append(next_cid)
                next_cid += 1
        elif r < 0.89 and open_curs:
            cid = open_curs.pop(rng.randrange(len(open_curs)))
            do(("close", cid))
        elif r < 0.93 and mutable:
            # freeze one tree and clone it once or twice
            tid = mutable.pop(rng.randrange(len(mutable)))
            do(("freeze", tid))
            frozen.append(tid)
            for _ in range(rng.choice((1, 1, 2))):
                if len(mutable) < 4:
                    do(("clone", tid, next_tid, io if io != 2 else 2))
                    mutable.append(next_tid)
                    next_tid += 1
            if len(frozen) > 10:
                # forget the oldest frozen tree (close its cursors first)
                old = frozen.pop(0)
                for cid in [c for c in open_curs if w.cursors[c][1] == old]:
                    do(("close", cid))
                    open_curs.remove(cid)
                w.trees.pop(old)
                script.append(["drop", old])
        elif r < 0.95 and frozen:
            tid = rng.choice(frozen)
            if len(mutable) < 4:
                do(("clone", tid, next_tid, io))
                mutable.append(next_tid)
                next_tid += 1
            X = w.trees[tid]
            ks = [w_rev(w, k) for k in rng.sample(X.skeys, min(3, len(X.skeys)))] + [rng.randrange(K)]
            do(("frz", tid, ks))
            R.case(CL_FRZ, (cfg["name"], idx, step), True)
        elif r < 0.97 and mutable:
            tid = rng.choice(mutable)
            ops = []
            for _ in range(rng.randrange(1, 12)):
                ops.append([rng.choice(("ins", "del", "del")), rng.randrange(K), 0, None if io != 2 else rng.randrange(2)])
            do(("iter", tid, ops))
            R.case(CL_CURM, (cfg["name"], idx, step, "iter"), True)
        elif r < 0.99:
            do(("chk",))
    if not w.dead and not w.cx.fails:
        do(("chk",))
    if w.cx.fails:
        report(R, w.cx, script, opts)
    elif idx == 0:
        R.sample(cl, {"section": "D", "config": cfg["name"], "steps": len(script), "first_steps": script[:6]})
    return len(script)


def w_rev(w, k):
    """Script-level int of a converted key."""
    if w.keytype == "int":
        return k
    if w.keytype == "str":
        return int(k.split("-")[1])
    return int(k.labels[1][1:].decode())


def seeded_configs(quick):
    cfgs = []
    for t in (3, 4, 5, 6):
        for io in (0, 1, 2):
            cfgs.append({"name": f"t{t}-io{io}-dict", "t": t, "keys": 120 if t < 5 else 200, "ops": 400, "kind": "dict", "keytype": "int", "io": io})
    cfgs.append({"name": "t3-set", "t": 3, "keys": 100, "ops": 400, "kind": "set", "keytype": "int", "io": 0})
    cfgs.append({"name": "t4-set-io", "t": 4, "keys": 120, "ops": 400, "kind": "set", "keytype": "int", "io": 1})
    cfgs.append({"name": "t3-str", "t": 3, "keys": 90, "ops": 300, "kind": "dict", "keytype": "str", "io": 2})
    cfgs.append({"name": "t3-name", "t": 3, "keys": 60, "ops": 200, "kind": "set", "keytype": "name", "io": 0})
    cfgs.append({"name": "t3-small", "t": 3, "keys": 24, "ops": 400, "kind": "dict", "keytype": "int", "io": 2})
    cfgs.append({"name": "t8", "t": 8, "keys": 400, "ops": 900, "kind": "dict", "keytype": "int", "io": 2})
    cfgs.append({"name": "t16", "t": 16, "keys": 500, "ops": 1000, "kind": "dict", "keytype": "int", "io": 0})
    cfgs.append({"name": "t127", "t": 127, "keys": 700, "ops": 1500, "kind": "dict", "keytype": "int", "io": 1})
    return cfgs


# --------------------------------------------------------------------------- driver
def run(R):
    quick = R.quick
    _CHECKED["dict"].clear()
    _CHECKED["set"].clear()
    _LIMIT[0] = None

    def sect(fn, *a, **k):
        if dl(R):
            return
        try:
            fn(R, *a, **k)
        except Exception:
            R.note(f"harness error in {fn.__name__}{a}: {traceback.format_exc(limit=4)}")

    cfgs = seeded_configs(quick)
    state = {"round": 0, "total": 0}

    def seeded_until(limit, max_rounds):
        _LIMIT[0] = limit
        for _ in range(max_rounds):
            for cfg in cfgs:
                if dl(R):
                    return
                try:
                    state["total"] += seeded_history(R, cfg, state["round"])
                except Exception:
                    R.note(f"harness error in seeded_history {cfg['name']}: {traceback.format_exc(limit=4)}")
            state["round"] += 1

    # thorough: the exhaustive phases stop generating at 370 s, the seeded phase at 480 s
    if not quick:
        _LIMIT[0] = 370.0

    # A: insertion orders, in place
    if quick:
        plan = ((3, 7, 0), (3, 7, 1))
    else:
        plan = ((3, 8, 0), (3, 8, 1), (4, 8, 0), (4, 8, 1))
    for t, n, io in plan:
        sect(section_insertion_orders, t, n, io)
    sect(section_insertion_orders, 3, 6 if quick else 7, 0, kind="set")

    # C: small closures with live cursors across every operation, and pairs of operations
    plan = ((3, 7, 0), (3, 7, 1)) if quick else ((3, 9, 0), (3, 8, 1), (4, 9, 0), (5, 10, 0))
    for t, U, io in plan:
        sect(section_closure, t, U, io, "dict", with_cursors=True)
    sect(section_closure, 3, 6 if quick else 8, 0, "set", with_cursors=True)
    plan = ((3, 7, 0),) if quick else ((3, 8, 0), (3, 8, 1), (4, 9, 0))
    for t, U, io in plan:
        sect(section_closure, t, U, io, "dict", pairs=True)

    if not quick:
        # a first slice of seeded histories, so that they run whatever the exhaustive
        # phases cost on this machine
        seeded_until(min(R.elapsed() + 70.0, 370.0), 1)
        _LIMIT[0] = 370.0

    # B: big closures
    if quick:
        plan = ((3, 10, 0), (3, 9, 1), (4, 10, 0), (5, 10, 0))
    else:
        plan = ((3, 12, 0), (3, 11, 1), (4, 12, 0), (4, 11, 1), (5, 12, 0), (6, 12, 0))
    for t, U, io in plan:
        sect(section_closure, t, U, io, "dict")
    sect(section_closure, 3, 8 if quick else 10, 1, "set")

    # F: height-3 windows
    if quick:
        for which in ("minimal3", "maximal2", "seeded0"):
            sect(section_height3, 3, 2, 1, which=which)
    else:
        sect(section_height3, 3, 2, 6)
        sect(section_height3, 4, 2, 3)
        sect(section_height3, 3, 3, 0, which="minimal3")

    # D: seeded histories
    if quick:
        seeded_until(None, 1)
    else:
        seeded_until(480.0, 10 ** 6)
    _LIMIT[0] = None
    R.note(f"D: {state['total']} seeded steps in {state['round']} rounds")
