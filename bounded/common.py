"""Shared harness for the *bounded stand-ins* (DESIGN.md section 1.7).

A bounded stand-in executes the real code of /repo natively (under /venv/bin/python)
against the same clauses the contracts state, on an enumerated or seeded input set
with a stated bound.  Results are labelled ``bounded`` and are never added to the
count of discharged proof obligations.

Every module ``bounded/Cnn.py`` provides

    BOUNDS = "human readable statement of the bounds explored"
    def run(R):            # R is a Run; call R.case(...) / R.violation(...)
    def replay(data):      # data is the 'replay' dict of a violation; returns
                           # (still_fails: bool, detail: str)

Rules for authors
-----------------
* A violation is only reported for behaviour that contradicts the property text on the
  real code; when in doubt, do not report.  No flaky checks: all randomness comes from
  ``R.rng`` (seeded from VERIF_SEED).
* ``sig`` identifies *what* fails in a stable way (clause + call site / input class),
  so that known_findings.json can list a genuine, recorded defect without hiding other
  violations of the same clause.
* Respect ``R.deadline()``: stop generating new cases when it returns True.
"""

from __future__ import annotations

import hashlib
import json
import os
import random
import sys
import time
import traceback


def _jsonable(x, depth=0):
    if depth > 6:
        return repr(x)
    if isinstance(x, (str, int, float, bool)) or x is None:
        return x
    if isinstance(x, bytes):
        return {"__bytes__": x.hex()}
    if isinstance(x, (list, tuple)):
        return [_jsonable(y, depth + 1) for y in x]
    if isinstance(x, dict):
        return {str(k): _jsonable(v, depth + 1) for k, v in x.items()}
    return repr(x)


def unjson(x):
    """Inverse of the bytes encoding used in replay files."""
    if isinstance(x, dict):
        if set(x.keys()) == {"__bytes__"}:
            return bytes.fromhex(x["__bytes__"])
        return {k: unjson(v) for k, v in x.items()}
    if isinstance(x, list):
        return [unjson(y) for y in x]
    return x


class Run:
    def __init__(self, prop: str, tier: str, seed: int, budget_s: float):
        self.prop = prop
        self.tier = tier
        self.seed = seed
        self.rng = random.Random(seed)
        self.t0 = time.time()
        self.budget_s = budget_s
        self.evaluations = 0
        self._distinct = set()
        self.per_clause = {}
        self.samples = []
        self.violations = []
        self._vio_keys = set()
        self.notes = []

    # ------------------------------------------------------------------ bookkeeping
    @property
    def quick(self) -> bool:
        return self.tier == "quick"

    def deadline(self) -> bool:
        return time.time() - self.t0 > self.budget_s

    def elapsed(self) -> float:
        return time.time() - self.t0

    def case(self, clause: str, key=None, nontrivial: bool = True) -> None:
        """Count one evaluated case of ``clause``.  ``key`` (anything repr-able)
        identifies the case for the distinct count; trivial cases (e.g. the input was
        rejected before reaching the code under test) are counted but not as distinct
        non-trivial."""
        self.evaluations += 1
        c = self.per_clause.setdefault(clause, [0, 0])
        c[0] += 1
        if nontrivial:
            if key is None:
                key = (clause, self.evaluations)
            h = hashlib.blake2b(repr((clause, key)).encode(), digest_size=8).digest()
            if h not in self._distinct:
                self._distinct.add(h)
                c[1] += 1

    def sample(self, clause: str, what) -> None:
        if sum(1 for s in self.samples if s["clause"] == clause) < 2 and len(self.samples) < 24:
            self.samples.append({"clause": clause, "case": _jsonable(what)})

    def note(self, s: str) -> None:
        self.notes.append(s)

    def violation(self, clause: str, what: str, sig: dict, replay: dict) -> None:
        """Record a violation.  ``sig``: stable identification (dict of str->str/int)
        used for matching against known_findings.json.  ``replay``: JSON-able data
        from which ``replay()`` of the module re-runs the failing case."""
        key = json.dumps([clause, _jsonable(sig)], sort_keys=True)
        if key in self._vio_keys:
            return
        self._vio_keys.add(key)
        if len(self.violations) < 200:
            self.violations.append(
                {
                    "clause": clause,
                    "what": what,
                    "sig": _jsonable(sig),
                    "replay": _jsonable(replay),
                    "tier": "bounded",
                }
            )

    def guard(self, clause: str, fn, *a, **k):
        """Run fn; a crash of the harness itself is a note, not a violation."""
        try:
            return fn(*a, **k)
        except Exception:  # pragma: no cover
            self.note(f"harness error in {clause}: {traceback.format_exc(limit=3)}")
            return None

    def result(self, bounds: str) -> dict:
        return {
            "property": self.prop,
            "tier": self.tier,
            "seed": self.seed,
            "evaluations": self.evaluations,
            "distinct_nontrivial": len(self._distinct),
            "per_clause": {k: {"evaluations": v[0], "distinct_nontrivial": v[1]} for k, v in self.per_clause.items()},
            "bounds": bounds,
            "samples": self.samples,
            "violations": self.violations,
            "notes": self.notes,
            "wall_s": round(time.time() - self.t0, 3),
        }


def main(argv=None):
    import argparse
    import importlib

    ap = argparse.ArgumentParser()
    ap.add_argument("prop")
    ap.add_argument("--tier", default=os.environ.get("VERIF_TIER", "quick"))
    ap.add_argument("--seed", type=int, default=int(os.environ.get("VERIF_SEED", "0") or 0))
    ap.add_argument("--out", default=None)
    ap.add_argument("--budget", type=float, default=None)
    ap.add_argument("--replay", default=None)
    a = ap.parse_args(argv)
    mod = importlib.import_module(f"bounded.{a.prop}")
    if a.replay:
        data = unjson(json.load(open(a.replay)))
        rep = data.get("replay", data)
        fails, detail = mod.replay(rep)
        print(("STILL-FAILS " if fails else "PASSES ") + detail)
        return 1 if fails else 0
    budget = a.budget if a.budget is not None else (45.0 if a.tier == "quick" else 600.0)
    R = Run(a.prop, a.tier, a.seed, budget)
    try:
        mod.run(R)
    except Exception:
        R.note("harness crashed: " + traceback.format_exc(limit=6))
        res = R.result(getattr(mod, "BOUNDS", ""))
        res["crashed"] = True
        if a.out:
            json.dump(res, open(a.out, "w"), indent=1)
        print(res["notes"][-1], file=sys.stderr)
        return 3
    res = R.result(getattr(mod, "BOUNDS", ""))
    if a.out:
        json.dump(res, open(a.out, "w"), indent=1)
    else:
        json.dump(res, sys.stdout, indent=1)
    return 0


if __name__ == "__main__":
    sys.exit(main())
