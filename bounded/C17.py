"""Bounded stand-in for C17 -- resolver caches never serve stale data, honour the LRU
bound, are linearizable (DESIGN.md section 4, C17-B4).

Sequential part: the real ``dns.resolver.Cache`` / ``LRUCache`` run under a fake clock
(``dns.resolver.time`` replaced by a controllable stand-in) against an independent
reference model written from the class documentation; every result, both counters, the
entry count and (for the LRU cache) the recency order are compared after every step.

Threaded part: the same caches on real threads under the controlled scheduler of
bounded/_c12_sched.py (``dns.resolver.threading`` replaced by the shim, pre-emption before
every lock acquisition and before every source line of the cache methods); each observed
concurrent history, followed by a sequential audit of the final state, must have a
sequential witness in the reference model that respects real-time order.
"""

from __future__ import annotations

import itertools
import os as _os
import time as _real_time

import dns.message
import dns.name
import dns.rdataclass
import dns.rdatatype
import dns.resolver

from bounded._c12_sched import (
    Abort,
    LineHook,
    PrefixChooser,
    RandomChooser,
    Sched,
    ShimThreading,
    next_prefix,
)

BOUNDS = (
    "Real dns.resolver.Cache and LRUCache with real Answer objects under a fake clock, against "
    "an independent reference model.  SEQUENTIAL, exhaustive: every operation sequence of "
    "length <= 4 (quick) / 5 (thorough) over an alphabet of 15 (LRU: get/put ttl 1/put ttl 3 on "
    "3 keys, flush(key0), flush(), clock +1, +2, resize 1, resize 2; start size 1 and 2) resp. "
    "13 operations (Cache: same minus resize, cleaning interval 2), checked after every step.  "
    "SEQUENTIAL, seeded: histories of <= 200 operations (get, put with ttl 0..5 or 1000, "
    "flush key/all, resize -1..5, clock advance 0/0.5/1/2/3, hits, misses, snapshot, "
    "reset_statistics, get_hits_for_key) over <= 6 keys, LRU sizes 1-4, cleaning interval "
    "0.5-4, one third of them with a clock that also ticks 0.125 on every time.time() call "
    "(quick 3000 histories, thorough 40000).  THREADED: 2-4 threads x 1-3 operations on one "
    "cache, controlled schedules with pre-emption at every lock acquisition and every source "
    "line of the cache methods: exhaustive DFS with <= 2 pre-emptions for curated and seeded "
    "2- and 3-thread programs (quick 80 programs, thorough 800, 17 of them curated; <= 400 schedules each) plus "
    "seeded random schedules of 4-thread programs (quick 2000, thorough 25000); every history "
    "plus a sequential audit (counters, recency order, get of every key) is checked for a "
    "sequential witness by exhaustive search.  Whether set_max_size() evicts at once is probed "
    "first and the model follows the code in that one respect; the entry-count clause is judged "
    "independently.  Measured: quick ~130000 exhaustive sequences + 3000 histories + ~17000 "
    "schedules in ~24 s; thorough ~1.89 million sequences + 40000 histories + ~174000 schedules in "
    "~330 s.  Not covered: pre-emption inside a bytecode "
    "(A-gil), mutation of an Answer after put, more than 4 threads / 6 keys."
)

IN = dns.rdataclass.IN
A = dns.rdatatype.A
NKEYS = 6
KEYS = [(dns.name.from_text("k%d.example." % i), A, IN) for i in range(NKEYS)]


# ------------------------------------------------------------------ fake clock
class FakeClock:
    """Stands in for the ``time`` module inside dns.resolver."""

    def __init__(self):
        self.now = 1000.0
        self.tick = 0.0
        self.calls = 0

    def time(self):
        self.calls += 1
        self.now += self.tick
        return self.now

    def __getattr__(self, name):
        return getattr(_real_time, name)


class _Patched:
    def __init__(self, clock, threading_shim=None):
        self.clock = clock
        self.shim = threading_shim

    def __enter__(self):
        self.saved_time = dns.resolver.time
        self.saved_thr = dns.resolver.threading
        dns.resolver.time = self.clock
        if self.shim is not None:
            dns.resolver.threading = self.shim
        return self

    def __exit__(self, *a):
        dns.resolver.time = self.saved_time
        dns.resolver.threading = self.saved_thr
        return False


_templates = {}


def _template(kidx, ttl):
    t = _templates.get((kidx, ttl))
    if t is None:
        qname = KEYS[kidx][0]
        r = dns.message.from_text(
            "id 1\nopcode QUERY\nrcode NOERROR\nflags QR RD RA\n;QUESTION\n%s IN A\n"
            ";ANSWER\n%s %d IN A 10.0.0.%d\n" % (qname, qname, ttl, kidx + 1)
        )
        clock = FakeClock()
        clock.now = 0.0
        with _Patched(clock):
            t = dns.resolver.Answer(qname, A, IN, r)
        if t.expiration != float(ttl):
            raise RuntimeError("Answer.expiration is not now + ttl")
        _templates[(kidx, ttl)] = t
    return t


def make_answer(kidx, ttl, now, serial):
    """A real Answer object for key kidx with the given ttl created at time ``now``
    (cloned from one built by the real constructor; the clone is made before put)."""
    t = _template(kidx, ttl)
    a = object.__new__(dns.resolver.Answer)
    a.__dict__.update(t.__dict__)
    a.expiration = now + ttl
    a.__dict__["_serial"] = serial
    return a


# ------------------------------------------------------------------ reference models
class RefCache:
    """Unbounded cache: the latest stored answer per key until it expires or is flushed."""

    def __init__(self):
        self.d = {}
        self.hits = 0
        self.misses = 0

    def lookup(self, k):
        return self.d.get(k)

    def commit_get(self, k, hit):
        if hit:
            self.hits += 1
        else:
            self.misses += 1

    def put(self, k, a):
        self.d[k] = a

    def flush(self, k=None):
        if k is None:
            self.d = {}
        else:
            self.d.pop(k, None)

    def count_bound(self):
        return None


class RefLRU:
    """Strict LRU: ``order`` lists (key, answer) most recently used first.  A hit and a
    put are uses; an entry found expired by get is dropped; put on a full cache evicts
    from the least recently used end until there is room."""

    def __init__(self, max_size, eager_shrink):
        self.order = []
        self.hits = 0
        self.misses = 0
        self.eager = eager_shrink
        self.max = 1
        self.resize(max_size)

    def resize(self, n):
        self.max = n if n >= 1 else 1
        if self.eager:
            del self.order[self.max:]

    def _find(self, k):
        for i, (kk, a) in enumerate(self.order):
            if kk == k:
                return i
        return -1

    def lookup(self, k):
        i = self._find(k)
        return None if i < 0 else self.order[i][1]

    def commit_get(self, k, hit):
        i = self._find(k)
        if hit:
            self.hits += 1
            self.order.insert(0, self.order.pop(i))
        else:
            self.misses += 1
            if i >= 0:  # present but expired: dropped
                self.order.pop(i)

    def put(self, k, a):
        i = self._find(k)
        if i >= 0:
            self.order.pop(i)
        while len(self.order) >= self.max:
            self.order.pop()
        self.order.insert(0, (k, a))

    def flush(self, k=None):
        if k is None:
            self.order = []
        else:
            i = self._find(k)
            if i >= 0:
                self.order.pop(i)

    def count_bound(self):
        return self.max


def probe_eager_shrink():
    """Does set_max_size() below the current size evict at once?  (Either choice is a
    legitimate way to honour the bound afterwards; the model follows the code here and
    the bound clause judges the entry count on its own.)"""
    clock = FakeClock()
    with _Patched(clock):
        c = dns.resolver.LRUCache(3)
        for i in range(3):
            c.put(KEYS[i], make_answer(i, 1000, clock.now, i))
        c.set_max_size(1)
        return len(c.data) <= 1


# ------------------------------------------------------------------ sequential driver
class Fail(Exception):
    def __init__(self, clause, what, sig):
        self.clause, self.what, self.sig = clause, what, sig


def _ring_keys(cache):
    """Keys of the real LRU list, most recently used first (None if the cache has no
    such list); raises Fail if the list is not a consistent ring."""
    s = getattr(cache, "sentinel", None)
    if s is None:
        return None
    out = []
    n = s.next
    prev = s
    limit = len(cache.data) + 2
    while n is not s:
        if n.prev is not prev or len(out) > limit:
            raise Fail("C17.lru_order", "the recency list is not a consistent doubly linked ring",
                       {"cache": "LRUCache", "check": "ring corrupted"})
        out.append(n.key)
        prev = n
        n = n.next
    if s.prev is not prev:
        raise Fail("C17.lru_order", "the recency list is not a consistent doubly linked ring",
                   {"cache": "LRUCache", "check": "ring corrupted"})
    return out


def _raised_in_library(e):
    tb = e.__traceback__
    last = None
    while tb is not None:
        last = tb
        tb = tb.tb_next
    fn = last.tb_frame.f_code.co_filename if last is not None else ""
    return fn == dns.resolver.__file__ or fn.startswith(_os.path.dirname(dns.resolver.__file__))


class SeqRun:
    """Runs one operation sequence on a fresh real cache and the model in lock step."""

    def __init__(self, kind, init, tick, eager):
        self.kind = kind
        self.clock = FakeClock()
        self.eager = eager
        self.serial = 0
        self.gets = 0
        self.notes = {"expired_seen": False, "evicted": False, "boundary": False, "shrunk": False}
        self.shrink_finding = None
        with _Patched(self.clock):
            if kind == "LRU":
                self.cache = dns.resolver.LRUCache(init)
                self.model = RefLRU(init, eager)
            else:
                self.cache = dns.resolver.Cache(cleaning_interval=init)
                self.model = RefCache()
        self.clock.tick = tick
        self.name = "LRUCache" if kind == "LRU" else "Cache"

    def step(self, op):
        with _Patched(self.clock):
            try:
                self._step(op)
            except Fail:
                raise
            except Exception as e:
                if _raised_in_library(e):
                    raise Fail("C17.latest", "%s raised %s: %s" % (op[0], type(e).__name__, str(e)[:80]),
                               {"cache": self.name, "check": "exception", "op": op[0],
                                "exc": type(e).__name__})
                raise

    def _step(self, op):
        c, m, clock, name = self.cache, self.model, self.clock, self.name
        o = op[0]
        if o == "adv":
            clock.now += op[1]
            return
        if o == "get":
            k = KEYS[op[1]]
            t0 = clock.now
            got = c.get(k)
            t1 = clock.now
            self.gets += 1
            want = m.lookup(k)
            if got is not None and got.expiration <= t0:
                raise Fail("C17.fresh", "get returned an answer %.3f s at/after its expiration"
                           % (t0 - got.expiration),
                           {"cache": name, "check": "expired answer returned"})
            if want is None:
                if got is not None:
                    raise Fail("C17.latest", "get returned an answer for a key that was never "
                               "stored, was flushed or was evicted",
                               {"cache": name, "check": "answer for an absent key"})
                m.commit_get(k, False)
            else:
                if want.expiration <= t0:
                    allowed_hit, allowed_miss = False, True
                    self.notes["expired_seen"] = True
                    if want.expiration == t0:
                        self.notes["boundary"] = True
                elif want.expiration > t1:
                    allowed_hit, allowed_miss = True, False
                else:  # expires while the call runs (ticking clock): either is fine
                    allowed_hit = allowed_miss = True
                if got is None:
                    if not allowed_miss:
                        raise Fail("C17.latest", "get returned None although the most recently "
                                   "stored answer is unexpired and was not flushed or evicted",
                                   {"cache": name, "check": "live answer not returned"})
                    m.commit_get(k, False)
                else:
                    if got is not want:
                        raise Fail("C17.latest", "get returned an answer that is not the most "
                                   "recently stored one for the key",
                                   {"cache": name, "check": "not the most recent answer"})
                    if not allowed_hit:  # unreachable (C17.fresh fires first); kept for safety
                        raise Fail("C17.fresh", "expired answer returned",
                                   {"cache": name, "check": "expired answer returned"})
                    m.commit_get(k, True)
        elif o == "put":
            k = KEYS[op[1]]
            self.serial += 1
            a = make_answer(op[1], op[2], clock.now, self.serial)
            if self.kind == "LRU":
                room = len(m.order) - (1 if m._find(k) >= 0 else 0)
                if room >= m.max:
                    self.notes["evicted"] = True
            c.put(k, a)
            m.put(k, a)
        elif o == "flush":
            k = None if op[1] is None else KEYS[op[1]]
            c.flush(k)
            m.flush(k)
        elif o == "resize":
            if self.kind != "LRU":
                return
            c.set_max_size(op[1])
            m.resize(op[1])
            if len(m.order) > m.max or self.eager:
                self.notes["shrunk"] = True
        elif o == "hits":
            if c.hits() != m.hits:
                raise Fail("C17.counters", "hits() = %d, %d lookups returned an answer"
                           % (c.hits(), m.hits), {"cache": name, "check": "hits() wrong"})
        elif o == "misses":
            if c.misses() != m.misses:
                raise Fail("C17.counters", "misses() = %d, %d lookups returned None"
                           % (c.misses(), m.misses), {"cache": name, "check": "misses() wrong"})
        elif o == "snap":
            s = c.get_statistics_snapshot()
            if (s.hits, s.misses) != (m.hits, m.misses):
                raise Fail("C17.counters", "snapshot (%d,%d) differs from (%d,%d)"
                           % (s.hits, s.misses, m.hits, m.misses),
                           {"cache": name, "check": "statistics snapshot wrong"})
        elif o == "reset":
            c.reset_statistics()
            m.hits = m.misses = 0
        elif o == "khits":
            if hasattr(c, "get_hits_for_key"):
                c.get_hits_for_key(KEYS[op[1]])  # must not disturb anything
        else:
            raise RuntimeError("unknown op %r" % (op,))
        # ---- checked after every step
        st = c.statistics
        if (st.hits, st.misses) != (m.hits, m.misses):
            raise Fail("C17.counters", "after %s: counters (%d hits, %d misses) but %d lookups hit "
                       "and %d missed" % (o, st.hits, st.misses, m.hits, m.misses),
                       {"cache": name, "check": "hit/miss counters do not account for every lookup once"})
        if self.kind == "LRU":
            n = len(c.data)
            if n > c.max_size:
                if o == "resize":
                    # recorded, and the run continues (the model keeps the entries too)
                    if self.shrink_finding is None:
                        self.shrink_finding = (
                            "C17.lru_bound",
                            "after set_max_size(%d) the cache still holds %d entries"
                            % (op[1], n),
                            {"cache": name, "site": "set_max_size",
                             "check": "shrinking below the current size leaves more entries than the limit"},
                        )
                elif not (self.shrink_finding is not None and n <= self._last_n):
                    raise Fail("C17.lru_bound", "after %s the cache holds %d entries, limit %d"
                               % (o, n, c.max_size),
                               {"cache": name, "site": o, "check": "more entries than the limit"})
            self._last_n = n
            if c.max_size != m.max:
                raise Fail("C17.lru_bound", "limit is %r, expected %r" % (c.max_size, m.max),
                           {"cache": name, "check": "limit not as set"})
            ring = _ring_keys(c)
            if ring is not None:
                want_order = [k for k, _ in m.order]
                if ring != want_order or set(c.data.keys()) != set(ring) or n != len(ring):
                    raise Fail("C17.lru_order", "after %s the recency order is %s, strict LRU "
                               "gives %s" % (o, [KEYS.index(k) for k in ring if k in KEYS],
                                             [KEYS.index(k) for k in want_order]),
                               {"cache": name, "check": "recency order differs from strict LRU"})

    _last_n = 0


def _emit(R, f, replay):
    rep = dict(replay)
    rep["clause"] = f[0]
    rep["sig"] = f[2]
    R.violation(f[0], f[1], sig=f[2], replay=rep)


def run_sequence(R, kind, init, tick, eager, ops, count=True):
    """Run a whole history; returns the SeqRun.  Reports the first violation."""
    sr = SeqRun(kind, init, tick, eager)
    failed = None
    i = -1
    try:
        for i, op in enumerate(ops):
            sr.step(op)
    except Fail as f:
        failed = (f.clause, f.what, f.sig)
    except Exception as e:  # the harness itself
        if len(R.notes) < 20:
            R.note("harness error in sequential history at step %d %r: %r" % (i, ops[i], e))
    rep = {"mode": "seq", "kind": kind, "init": init, "tick": tick, "ops": [list(o) for o in ops[: i + 1]]}
    if sr.shrink_finding is not None:
        _emit(R, sr.shrink_finding, rep)
    if failed is not None:
        _emit(R, failed, rep)
    return sr, failed


def _count_seq(R, sr, kind, key):
    n = sr.notes
    R.case("C17.fresh", key, nontrivial=n["expired_seen"])
    R.case("C17.latest", key, nontrivial=sr.gets > 0)
    R.case("C17.counters", key, nontrivial=sr.gets > 0)
    if kind == "LRU":
        R.case("C17.lru_bound", key, nontrivial=n["evicted"] or n["shrunk"])
        R.case("C17.lru_order", key, nontrivial=n["evicted"])


def exhaustive(R, kind, init, depth, eager):
    """Every sequence of exactly ``depth`` operations (prefixes are checked on the way,
    since the checks run after every step)."""
    alpha = []
    for k in range(3):
        alpha.append(("get", k))
    for k in range(3):
        alpha.append(("put", k, 1))
        alpha.append(("put", k, 3))
    alpha += [("flush", 0), ("flush", None), ("adv", 1.0), ("adv", 2.0)]
    if kind == "LRU":
        alpha += [("resize", 1), ("resize", 2)]
    n = 0
    for seq in itertools.product(alpha, repeat=depth):
        if (n & 1023) == 0 and R.deadline():
            return n, False
        sr, failed = run_sequence(R, kind, init, 0.0, eager, seq)
        _count_seq(R, sr, kind, (kind, init, seq))
        n += 1
    return n, True


def random_history(rng, kind):
    nkeys = rng.randint(1, NKEYS)
    length = rng.randint(5, 200)
    ops = []
    hot = rng.random() < 0.5
    for _ in range(length):
        r = rng.random()
        k = rng.randrange(nkeys) if not hot or rng.random() < 0.3 else rng.randrange(min(nkeys, 3))
        if r < 0.34:
            ops.append(("get", k))
        elif r < 0.62:
            ops.append(("put", k, rng.choice([0, 1, 1, 2, 2, 3, 4, 5, 1000])))
        elif r < 0.67:
            ops.append(("flush", k))
        elif r < 0.69:
            ops.append(("flush", None))
        elif r < 0.85:
            ops.append(("adv", rng.choice([0.0, 0.5, 1.0, 1.0, 1.0, 2.0, 3.0])))
        elif r < 0.90 and kind == "LRU":
            ops.append(("resize", rng.choice([-1, 0, 1, 2, 3, 4, 5])))
        elif r < 0.93:
            ops.append((rng.choice(["hits", "misses", "snap"]),))
        elif r < 0.94:
            ops.append(("reset",))
        elif r < 0.97:
            ops.append(("khits", k))
        else:
            ops.append(("get", k))
    return ops


# ------------------------------------------------------------------ threaded part
_sched_ref = [None]


def _cache_codes():
    codes = []
    for cls in (dns.resolver.CacheBase, dns.resolver.Cache, dns.resolver.LRUCache,
                dns.resolver.LRUCacheNode, dns.resolver.CacheStatistics):
        for name, f in vars(cls).items():
            c = getattr(f, "__code__", None)
            if c is not None:
                codes.append(c)
    return codes


class _LineMode:
    def __init__(self):
        self.hook = LineHook(_sched_ref)

    def __enter__(self):
        self.hook.install(_cache_codes())
        return self

    def __exit__(self, *a):
        self.hook.uninstall()
        return False


class ThreadedRun:
    """One concurrent history on one cache under one schedule."""

    def __init__(self, kind, init, programs, chooser):
        self.kind, self.init, self.programs = kind, init, programs
        self.clock = FakeClock()
        self.sched = Sched(chooser, line_mode=True, max_steps=6000)
        self.seq = 0
        self.hist = []  # dicts: thread, op, call, ret, result
        self.answers = {}  # serial -> answer
        self.serial = 0
        self.exc = None

    def _do(self, cache, op, rec):
        o = op[0]
        clock = self.clock
        if o == "adv":
            clock.now += op[1]
            return None
        if o == "get":
            a = cache.get(KEYS[op[1]])
            if a is None:
                return None
            return a.__dict__.get("_serial", -1)
        if o == "put":
            cache.put(KEYS[op[1]], rec["answer"])
            return None
        if o == "flush":
            cache.flush(None if op[1] is None else KEYS[op[1]])
            return None
        if o == "resize":
            cache.set_max_size(op[1])
            return None
        if o == "hits":
            return cache.hits()
        if o == "misses":
            return cache.misses()
        if o == "snap":
            s = cache.get_statistics_snapshot()
            return (s.hits, s.misses)
        if o == "reset":
            cache.reset_statistics()
            return None
        raise RuntimeError(op)

    def _record_call(self, tid, op):
        rec = {"thread": tid, "op": op, "call": self.seq, "ret": None, "result": None}
        self.seq += 1
        if op[0] == "put":
            self.serial += 1
            rec["answer"] = make_answer(op[1], op[2], self.clock.now, self.serial)
            rec["serial"] = self.serial
            rec["exp"] = rec["answer"].expiration
            self.answers[self.serial] = rec["answer"]
        self.hist.append(rec)
        return rec

    def _body(self, tid, prog):
        def body(t):
            for op in prog:
                rec = self._record_call(tid, op)
                try:
                    res = self._do(self.cache, op, rec)
                except Abort:
                    raise
                except Exception as e:
                    self.exc = (op[0], type(e).__name__, str(e)[:80])
                    rec["ret"] = self.seq
                    self.seq += 1
                    rec["result"] = ("exc", type(e).__name__)
                    return
                rec["ret"] = self.seq
                self.seq += 1
                rec["result"] = res

        return body

    def run(self):
        _sched_ref[0] = self.sched
        try:
            with _Patched(self.clock, ShimThreading(_sched_ref)):
                if self.kind == "LRU":
                    self.cache = dns.resolver.LRUCache(self.init)
                else:
                    self.cache = dns.resolver.Cache(cleaning_interval=self.init)
                for tid, prog in enumerate(self.programs):
                    self.sched.spawn(self._body(tid, prog))
                self.outcome = self.sched.run()
                for t in self.sched.tasks:
                    if t.exc is not None:
                        raise t.exc
                # sequential audit of the final state (main thread, no scheduler)
                self.sched.line_mode = False
                if self.outcome == "ok" and self.exc is None:
                    audit = [("hits",), ("misses",)]
                    if self.kind == "LRU":
                        audit.append(("ring",))
                    audit += [("get", k) for k in range(NKEYS)]
                    audit += [("hits",), ("misses",)]
                    for op in audit:
                        rec = self._record_call(-1, op)
                        try:
                            if op[0] == "ring":
                                try:
                                    ring = _ring_keys(self.cache)
                                except Fail:
                                    ring = "corrupt"
                                res = None if ring is None else (
                                    ring if ring == "corrupt" else
                                    tuple(KEYS.index(k) if k in KEYS else -1 for k in ring))
                                n = len(self.cache.data)
                                res = (res, n)
                            else:
                                res = self._do(self.cache, op, rec)
                        except Exception as e:
                            self.exc = ("audit " + op[0], type(e).__name__, str(e)[:80])
                            res = ("exc", type(e).__name__)
                        rec["ret"] = self.seq
                        self.seq += 1
                        rec["result"] = res
        finally:
            _sched_ref[0] = None
        return self.outcome


def find_witness(kind, init, eager, hist, t_start):
    """Exhaustive search for a sequential order of ``hist`` that respects real-time
    order and in which the reference model gives every observed result."""
    threads = {}
    for rec in hist:
        threads.setdefault(rec["thread"], []).append(rec)
    tids = sorted(threads)
    lists = [threads[t] for t in tids]
    exp_of = {rec["serial"]: rec["exp"] for rec in hist if rec["op"][0] == "put"}

    # model state: (order tuple of (kidx, serial) MRU first  | for Cache: sorted tuple),
    #              max, hits, misses, now
    init_state = ((), (init if init >= 1 else 1) if kind == "LRU" else 0, 0, 0, t_start)

    def apply(state, rec):
        order, mx, h, m, now = state
        op = rec["op"]
        o = op[0]
        res = rec["result"]
        if o == "adv":
            return (order, mx, h, m, now + op[1])
        if o == "get":
            k = op[1]
            ent = None
            for e in order:
                if e[0] == k:
                    ent = e
                    break
            if ent is None or exp_of[ent[1]] <= now:
                if res is not None:
                    return None
                if ent is not None and kind == "LRU":
                    order = tuple(e for e in order if e is not ent)
                return (order, mx, h, m + 1, now)
            if res != ent[1]:
                return None
            if kind == "LRU":
                order = (ent,) + tuple(e for e in order if e is not ent)
            return (order, mx, h + 1, m, now)
        if o == "put":
            k = op[1]
            rest = tuple(e for e in order if e[0] != k)
            if kind == "LRU":
                while len(rest) >= mx:
                    rest = rest[:-1]
                order = ((k, rec["serial"]),) + rest
            else:
                order = tuple(sorted(rest + ((k, rec["serial"]),)))
            return (order, mx, h, m, now)
        if o == "flush":
            if op[1] is None:
                return ((), mx, h, m, now)
            return (tuple(e for e in order if e[0] != op[1]), mx, h, m, now)
        if o == "resize":
            if kind != "LRU":
                return state
            mx = op[1] if op[1] >= 1 else 1
            if eager:
                order = order[:mx]
            return (order, mx, h, m, now)
        if o == "hits":
            return state if res == h else None
        if o == "misses":
            return state if res == m else None
        if o == "snap":
            return state if res == (h, m) else None
        if o == "reset":
            return (order, mx, 0, 0, now)
        if o == "ring":
            ring, n = res
            if ring is None:
                return state if n == len(order) else None
            return state if (ring == tuple(e[0] for e in order) and n == len(order)) else None
        raise RuntimeError(op)

    seen = set()
    npos = len(lists)

    def search(pos, state):
        key = (pos, state)
        if key in seen:
            return False
        seen.add(key)
        heads = [lists[i][pos[i]] for i in range(npos) if pos[i] < len(lists[i])]
        if not heads:
            return True
        min_ret = min(r["ret"] for r in heads)
        for i in range(npos):
            if pos[i] >= len(lists[i]):
                continue
            rec = lists[i][pos[i]]
            if rec["call"] > min_ret:
                continue  # some other pending operation returned before this one began
            st = apply(state, rec)
            if st is None:
                continue
            if search(pos[:i] + (pos[i] + 1,) + pos[i + 1:], st):
                return True
        return False

    return search(tuple(0 for _ in lists), init_state)


def _hist_text(hist):
    out = []
    for r in hist:
        out.append("T%s:%s->%r" % (r["thread"], "/".join(str(x) for x in r["op"]), r["result"]))
    return " ".join(out)[:400]


def run_threaded(R, kind, init, programs, chooser, eager, mode):
    tr = ThreadedRun(kind, init, programs, chooser)
    t_start = tr.clock.now
    try:
        outcome = tr.run()
    except Exception as e:
        R.note("harness error in threaded run %r: %r" % (programs, e))
        return None
    sched = [c for _, c in tr.sched.trace]
    name = "LRUCache" if kind == "LRU" else "Cache"
    key = (kind, init, tuple(tuple(p) for p in programs), tuple(sched))
    rep = {"mode": "thr", "kind": kind, "init": init,
           "programs": [[list(o) for o in p] for p in programs], "schedule": sched}
    overlapped = any(
        a["thread"] != b["thread"] and a["thread"] >= 0 and b["thread"] >= 0
        and a["call"] < b["call"] < (a["ret"] if a["ret"] is not None else 1 << 30)
        for a in tr.hist for b in tr.hist)
    R.case("C17.linearizable", key, nontrivial=len(programs) > 1)
    tr.overlapped = overlapped
    if outcome != "ok":
        R.violation("C17.linearizable", "threads do not finish (%s): %s" % (outcome, tr.sched.stuck),
                    sig={"cache": name, "check": "deadlock or non-termination"}, replay=rep)
        return tr
    if tr.exc is not None:
        R.violation("C17.linearizable", "%s raised %s: %s under a concurrent schedule" % tr.exc,
                    sig={"cache": name, "check": "exception under concurrency",
                         "op": tr.exc[0], "exc": tr.exc[1]}, replay=rep)
        return tr
    if not find_witness(kind, init, eager, tr.hist, t_start):
        R.violation("C17.linearizable", "no sequential witness for the history: " + _hist_text(tr.hist),
                    sig={"cache": name, "check": "history has no sequential witness"}, replay=rep)
    return tr


def dfs_threaded(R, kind, init, programs, eager, bound, cap):
    prefix = []
    n = 0
    while n < cap:
        if R.deadline():
            return n, False
        tr = run_threaded(R, kind, init, programs, PrefixChooser(prefix, bound), eager, "dfs")
        if tr is None:
            return n, False
        n += 1
        prefix = next_prefix(tr.sched.trace)
        if prefix is None:
            return n, True
    return n, False


CURATED = [
    ("LRU", 2, [[("put", 0, 5), ("get", 0)], [("put", 1, 5), ("get", 1)]]),
    ("LRU", 1, [[("put", 0, 5), ("get", 0)], [("put", 1, 5), ("get", 0)]]),
    ("LRU", 2, [[("put", 0, 5), ("put", 1, 5)], [("put", 2, 5), ("get", 0)]]),
    ("LRU", 2, [[("put", 0, 5), ("get", 0), ("get", 1)], [("put", 1, 5), ("flush", None)]]),
    ("LRU", 2, [[("put", 0, 5), ("flush", 0)], [("put", 0, 5), ("get", 0)]]),
    ("LRU", 2, [[("put", 0, 1), ("get", 0)], [("adv", 1.0), ("get", 0)]]),
    ("LRU", 3, [[("put", 0, 5), ("put", 1, 5)], [("resize", 1), ("put", 2, 5)]]),
    ("LRU", 2, [[("put", 0, 5), ("get", 0)], [("get", 0), ("hits",)], [("get", 0), ("misses",)]]),
    ("LRU", 2, [[("put", 0, 5), ("get", 0), ("get", 0)], [("reset",), ("snap",)]]),
    ("LRU", 2, [[("put", 0, 5)], [("put", 1, 5)], [("put", 2, 5)]]),
    ("LRU", 2, [[("put", 0, 5), ("get", 0), ("get", 1), ("snap",)], [("reset",)]]),
    ("Cache", 2.0, [[("put", 0, 5), ("get", 0)], [("put", 0, 5), ("get", 0)]]),
    ("Cache", 2.0, [[("put", 0, 5), ("get", 0)], [("flush", None), ("get", 0)]]),
    ("Cache", 1.0, [[("put", 0, 1), ("get", 0)], [("adv", 1.0), ("put", 1, 1), ("get", 0)]]),
    ("Cache", 2.0, [[("put", 0, 5), ("get", 0)], [("get", 0), ("hits",)], [("get", 1), ("snap",)]]),
    ("Cache", 2.0, [[("get", 0), ("get", 0)], [("get", 0), ("reset",)], [("misses",)]]),
    ("Cache", 0.5, [[("put", 0, 1), ("adv", 1.0), ("put", 1, 1)], [("get", 0), ("flush", 0), ("get", 1)]]),
]


def random_program(rng, kind, nthreads, maxops):
    nkeys = rng.randint(1, 3)
    progs = []
    for _ in range(nthreads):
        p = []
        for _ in range(rng.randint(1, maxops)):
            r = rng.random()
            k = rng.randrange(nkeys)
            if r < 0.35:
                p.append(("get", k))
            elif r < 0.65:
                p.append(("put", k, rng.choice([0, 1, 2, 5])))
            elif r < 0.72:
                p.append(("flush", rng.choice([k, None])))
            elif r < 0.80:
                p.append(("adv", rng.choice([1.0, 2.0])))
            elif r < 0.86 and kind == "LRU":
                p.append(("resize", rng.choice([1, 2, 3])))
            elif r < 0.95:
                p.append((rng.choice(["hits", "misses", "snap"]),))
            else:
                p.append(("reset",))
        progs.append(p)
    return progs


def run(R):
    quick = R.quick
    try:
        eager = probe_eager_shrink()
    except Exception as e:
        R.note("probe failed: %r" % (e,))
        eager = False
    R.note("set_max_size evicts at once: %s" % eager)

    # ---- sequential, exhaustive small scope
    depth = 4 if quick else 5
    for kind, init in (("LRU", 1), ("LRU", 2), ("Cache", 2.0)):
        n, complete = exhaustive(R, kind, init, depth, eager)
        R.note("exhaustive %s init=%s depth=%d: %d sequences%s"
               % (kind, init, depth, n, "" if complete else " (INCOMPLETE)"))

    # ---- sequential, seeded histories
    nhist = 3000 if quick else 40000
    done = 0
    for i in range(nhist):
        if R.deadline():
            break
        kind = "LRU" if R.rng.random() < 0.6 else "Cache"
        init = R.rng.randint(1, 4) if kind == "LRU" else R.rng.choice([0.5, 1.0, 2.0, 4.0])
        tick = 0.125 if R.rng.random() < 0.33 else 0.0
        ops = random_history(R.rng, kind)
        sr, failed = run_sequence(R, kind, init, tick, eager, ops)
        _count_seq(R, sr, kind, ("hist", R.seed, i))
        if i < 2:
            R.sample("C17.latest", {"kind": kind, "init": init, "tick": tick, "ops": ops[:12]})
        done += 1
    R.note("seeded sequential histories: %d" % done)

    # ---- threaded
    with _LineMode():
        nprog = 80 if quick else 800
        cap = 400
        progs = list(CURATED)
        while len(progs) < nprog:
            kind = "LRU" if R.rng.random() < 0.6 else "Cache"
            init = R.rng.randint(1, 3) if kind == "LRU" else R.rng.choice([0.5, 2.0])
            nthreads = 2 if R.rng.random() < 0.6 else 3
            progs.append((kind, init, random_program(R.rng, kind, nthreads, 3 if nthreads == 2 else 2)))
        total = 0
        ncomplete = 0
        for j, (kind, init, programs) in enumerate(progs):
            if R.deadline():
                break
            n, complete = dfs_threaded(R, kind, init, programs, eager, 2, cap)
            total += n
            ncomplete += 1 if complete else 0
            if j == 0:
                R.sample("C17.linearizable", {"kind": kind, "init": init, "programs": programs,
                                             "schedules": n})
        R.note("threaded DFS (<=2 pre-emptions): %d programs, %d schedules, %d programs exhausted"
               % (len(progs), total, ncomplete))
        nrand = 2000 if quick else 25000
        done = 0
        for i in range(nrand):
            if R.deadline():
                break
            kind = "LRU" if R.rng.random() < 0.6 else "Cache"
            init = R.rng.randint(1, 3) if kind == "LRU" else R.rng.choice([0.5, 2.0])
            programs = random_program(R.rng, kind, 4, 3)
            stick = R.rng.choice([0.0, 0.5, 0.8, 0.95])
            run_threaded(R, kind, init, programs, RandomChooser(R.rng, stick), eager, "rand")
            done += 1
        R.note("threaded random schedules (4 threads): %d" % done)


def replay(data):
    eager = probe_eager_shrink()
    if data.get("mode") == "seq":
        ops = [tuple(o) for o in data["ops"]]
        sr = SeqRun(data["kind"], data["init"], data.get("tick", 0.0), eager)
        found = []
        try:
            for op in ops:
                sr.step(op)
        except Fail as f:
            found.append((f.clause, f.what, f.sig))
        if sr.shrink_finding is not None:
            found.insert(0, sr.shrink_finding)
        want = data.get("sig")
        same = [f for f in found if want is None or f[2] == want]
        if same:
            return True, "%s: %s" % (same[0][0], same[0][1])
        if found:
            return True, "%s: %s (a different failure than recorded)" % (found[0][0], found[0][1])
        return False, "history of %d operations matches the reference model" % len(ops)

    class _R:
        def __init__(self):
            self.v = []

        def case(self, *a, **k):
            pass

        def note(self, s):
            self.v.append(("note", s))

        def violation(self, clause, what, sig, replay):
            self.v.append((clause, what))

        def deadline(self):
            return False

    r = _R()
    programs = [[tuple(o) for o in p] for p in data["programs"]]
    with _LineMode():
        run_threaded(r, data["kind"], data["init"], programs, PrefixChooser(data["schedule"]),
                     eager, "replay")
    hits = [v for v in r.v if v[0] != "note"]
    if hits:
        return True, "%s: %s" % hits[0]
    return False, "schedule of %d steps has a sequential witness" % len(data["schedule"])
