"""Input generators for the C04 bounded stand-in (helper of bounded/C04.py).
All randomness comes from the ``rng`` passed in (R.rng)."""

from __future__ import annotations

import itertools
import struct

import dns.edns
import dns.name
import dns.rdata
import dns.rdataclass
import dns.rdatatype

from bounded._c04_samples import ALPHABET, NASTY_TOKENS, OPT_WIRES, SAMPLES

# octet values on the boundaries of the wire grammar: label length / pointer / type tags
B13 = [0, 1, 2, 3, 63, 64, 65, 127, 128, 191, 192, 193, 255]
B32 = sorted(set(B13 + [4, 5, 6, 7, 8, 9, 12, 15, 16, 17, 31, 32, 33, 41, 46, 47, 48, 250, 254, 129, 200]))


# --------------------------------------------------------------------------- wire encoders
def enc_name(text: str) -> bytes:
    """Independent (not the library's) encoder of an absolute, escape-free name."""
    if text == ".":
        return b"\x00"
    out = b""
    for lab in text.rstrip(".").split("."):
        b = lab.encode("latin-1")
        out += bytes([len(b)]) + b
    return out + b"\x00"


def enc_rr(name: bytes, rdtype: int, rdclass: int, ttl: int, rdata: bytes, rdlen=None) -> bytes:
    if rdlen is None:
        rdlen = len(rdata)
    return name + struct.pack("!HHIH", rdtype, rdclass, ttl & 0xFFFFFFFF, rdlen & 0xFFFF) + rdata


def enc_q(name: bytes, rdtype: int, rdclass: int) -> bytes:
    return name + struct.pack("!HH", rdtype, rdclass)


def enc_header(mid, flags, qd, an, ns, ar) -> bytes:
    return struct.pack("!HHHHHH", mid & 0xFFFF, flags & 0xFFFF, qd & 0xFFFF, an & 0xFFFF, ns & 0xFFFF, ar & 0xFFFF)


# --------------------------------------------------------------------------- type tables
def implemented_types():
    """(rdclass:int, rdtype:int) for every non-generic implementation + generic ones."""
    out = []
    for t in dns.rdatatype.RdataType:
        if dns.rdata.get_rdata_class(dns.rdataclass.IN, t) is not dns.rdata.GenericRdata:
            cls = 255 if int(t) in (249, 250) else 1
            out.append((cls, int(t)))
    out.append((3, 1))  # CH A
    out.append((1, 65280))  # private-use, generic
    out.append((1, 0))
    out.append((254, 1))  # class NONE A
    return out


def sample_wires():
    """[(rdclass:int, rdtype:int, wire)] of the valid text samples, rendered without origin
    (absolute names), plus OPT bodies."""
    out = []
    origin = dns.name.from_text("example.")
    for c, t, x in SAMPLES:
        try:
            rd = dns.rdata.from_text(c, t, x, origin=origin, relativize=False)
            out.append((int(rd.rdclass), int(rd.rdtype), rd.to_wire()))
        except Exception:
            continue
    for w in OPT_WIRES:
        out.append((1, 41, w))
    return out


def option_types():
    known = [int(t) for t in dns.edns.OptionType]
    return sorted(set(known + [0, 4, 16, 17, 19, 65001, 65535]))


OPTION_SAMPLES = [
    (3, b"test"),
    (8, bytes.fromhex("000118000a0000")),
    (8, bytes.fromhex("00022000200108b8")),
    (8, bytes.fromhex("00012000" + "0a000001")),
    (8, bytes.fromhex("00028080" + "20010db8000000000000000000000001")),
    (8, bytes.fromhex("00010000")),
    (10, bytes.fromhex("0102030405060708")),
    (10, bytes.fromhex("01" * 16)),
    (10, bytes.fromhex("01" * 40)),
    (15, bytes.fromhex("0003626c6168")),
    (15, bytes.fromhex("0000")),
    (15, bytes.fromhex("ffff" + "c3a9" + "00")),
    (18, b"\x07example\x03com\x00"),
    (18, b"\x00"),
]


# --------------------------------------------------------------------------- byte mutations
def substitutions(wire: bytes, values, positions=None, neighbours=True):
    for i in (range(len(wire)) if positions is None else positions):
        if i >= len(wire):
            continue
        orig = wire[i]
        for v in values:
            if v != orig:
                yield wire[:i] + bytes([v]) + wire[i + 1:], i
        if neighbours:
            for v in ((orig + 1) & 255, (orig - 1) & 255):
                if v not in values:
                    yield wire[:i] + bytes([v]) + wire[i + 1:], i


def sparse_positions(n, dense=12, step=4, limit=64):
    return list(range(0, min(n, dense))) + list(range(dense, min(n, limit), step))


def truncations(wire: bytes):
    for n in range(len(wire)):
        yield wire[:n]


def indels(wire: bytes, values):
    for i in range(len(wire)):
        yield wire[:i] + wire[i + 1:]
    for i in range(len(wire) + 1):
        for v in values:
            yield wire[:i] + bytes([v]) + wire[i:]


def small_buffers(maxlen_full: int, maxlen_b13: int):
    """All byte strings up to maxlen_full, then strings over B13 up to maxlen_b13."""
    for n in range(0, maxlen_full + 1):
        for t in itertools.product(range(256), repeat=n):
            yield bytes(t)
    for n in range(maxlen_full + 1, maxlen_b13 + 1):
        for t in itertools.product(B13, repeat=n):
            yield bytes(t)


# --------------------------------------------------------------------------- seeded names
def random_name_buffer(rng):
    """A buffer holding several wire names, pointers (backward, forward, self, into label
    interiors), reserved label types, and a start offset."""
    buf = bytearray()
    starts = []
    for _ in range(rng.randrange(1, 5)):
        starts.append(len(buf))
        nlab = rng.randrange(0, 5)
        for _ in range(nlab):
            ll = rng.choice([1, 1, 2, 3, 7, 62, 63])
            buf += bytes([ll]) + bytes(rng.randrange(256) for _ in range(ll))
        k = rng.random()
        if k < 0.35:
            buf += b"\x00"
        elif k < 0.8:
            tgt = rng.choice(starts + [len(buf), len(buf) + 2, rng.randrange(0, len(buf) + 4)])
            tgt = max(0, min(tgt, 0x3FFF))
            buf += bytes([0xC0 | (tgt >> 8), tgt & 0xFF])
        elif k < 0.9:
            buf += bytes([rng.choice([64, 65, 127, 128, 191])])
        else:
            pass  # unterminated
    cur = rng.choice(starts + [rng.randrange(0, len(buf) + 2)])
    return bytes(buf), cur


def long_name_buffers():
    """Names around the 255-octet limit, plain and reached through pointers."""
    out = []
    for total in (253, 254, 255, 256, 257):
        # total = wire length including root
        rem = total - 1
        labs = []
        while rem > 0:
            ll = min(63, rem - 1)
            if ll <= 0:
                break
            labs.append(ll)
            rem -= ll + 1
        w = b"".join(bytes([l]) + b"a" * l for l in labs) + b"\x00"
        out.append((w, 0))
    # pointer chain: second name = label(63) + pointer to a 200-octet name
    base = b"".join(bytes([49]) + b"b" * 49 for _ in range(4)) + b"\x00"  # 201 octets
    for ll in (50, 51, 52, 53, 54, 55, 63):
        w = base + bytes([ll]) + b"c" * ll + b"\xc0\x00"
        out.append((w, len(base)))
    return out


# --------------------------------------------------------------------------- messages
def base_messages():
    """[(label, wire, opts_hint, rr_spans)] built with the independent encoder."""
    out = []
    ex = enc_name("www.example.")
    # M1 plain query
    out.append(("query", enc_header(0x1234, 0x0100, 1, 0, 0, 0) + enc_q(ex, 1, 1), {}, []))
    # M2 response, compression, OPT with options
    body = enc_q(ex, 1, 1)
    spans = []
    off = 12 + len(body)
    r1 = enc_rr(b"\xc0\x0c", 5, 1, 300, b"\x03foo\xc0\x10")
    spans.append((off, off + len(r1)))
    r2 = enc_rr(b"\x03foo\xc0\x10", 1, 1, 300, bytes([10, 0, 0, 1]))
    spans.append((off + len(r1), off + len(r1) + len(r2)))
    r3 = enc_rr(b"\xc0\x10", 2, 1, 0x80000000, b"\x02ns\xc0\x10")
    optrd = bytes.fromhex("0003000474657374" + "00080007000118000a0000" + "000f00060003626c6168")
    r4 = enc_rr(b"\x00", 41, 1232, 0x00008000, optrd)
    out.append(("response+opt", enc_header(0x1234, 0x8180, 1, 2, 1, 1) + body + r1 + r2 + r3 + r4, {}, spans))
    # M3 update
    z = enc_q(enc_name("example."), 6, 1)
    pre = enc_rr(b"\x03foo\xc0\x0c", 1, 255, 0, b"") + enc_rr(b"\x03bar\xc0\x0c", 255, 254, 0, b"")
    upd = enc_rr(b"\x03foo\xc0\x0c", 1, 1, 300, bytes([10, 0, 0, 2])) + enc_rr(b"\x03foo\xc0\x0c", 16, 254, 0, b"\x03abc")
    out.append(("update", enc_header(7, 0x2800, 1, 2, 2, 0) + z + pre + upd, {}, []))
    # M4 TSIG-signed query (MAC is wrong on purpose: validation must fail cleanly)
    tsigrd = enc_name("hmac-sha256.") + bytes(6) + struct.pack("!HH", 300, 32) + bytes(32) + struct.pack("!HHH", 0x1234, 0, 0)
    t = enc_rr(enc_name("key."), 250, 255, 0, tsigrd)
    out.append(("tsig", enc_header(0x1234, 0x0100, 1, 0, 0, 1) + enc_q(ex, 1, 1) + t, {"keyring": "dict"}, []))
    # M5 zone transfer
    soa = enc_name("ns.example.") + enc_name("root.example.") + struct.pack("!IIIII", 1, 2, 3, 4, 5)
    q = enc_q(enc_name("example."), 252, 1)
    rrs = (
        enc_rr(b"\xc0\x0c", 6, 1, 300, soa)
        + enc_rr(b"\x01a\xc0\x0c", 1, 1, 300, bytes([10, 0, 0, 3]))
        + enc_rr(b"\x01a\xc0\x0c", 1, 1, 300, bytes([10, 0, 0, 4]))
        + enc_rr(b"\xc0\x0c", 6, 1, 300, soa)
    )
    out.append(("xfr", enc_header(9, 0x8400, 1, 4, 0, 0) + q + rrs, {"xfr": True, "origin": "example."}, []))
    # M6 notify, M7 unknown opcode, M8 truncated response
    out.append(("notify", enc_header(1, 0x2400, 1, 0, 0, 0) + enc_q(enc_name("example."), 6, 1), {}, []))
    out.append(("opcode15", enc_header(1, 0x7800, 1, 0, 0, 0) + enc_q(ex, 1, 1), {}, []))
    out.append(("tc", enc_header(1, 0x8380, 1, 1, 0, 0) + enc_q(ex, 16, 1) + enc_rr(b"\xc0\x0c", 16, 1, 5, b"\x02hi\x00"), {}, []))
    # M10 text-bearing rdata (URI target, TXT, CAA value) for the rendering clause
    out.append(
        (
            "textual",
            enc_header(3, 0x8180, 1, 3, 0, 0)
            + enc_q(ex, 256, 1)
            + enc_rr(b"\xc0\x0c", 256, 1, 60, struct.pack("!HH", 10, 1) + b"ftp://x/y")
            + enc_rr(b"\xc0\x0c", 16, 1, 60, b"\x03a\"b\x00")
            + enc_rr(b"\xc0\x0c", 257, 1, 60, b"\x00\x05issuea.b"),
            {},
            [],
        )
    )
    # M9 records of several types with covered types (RRSIG), same owner
    sigrd = struct.pack("!HBBIIIH", 1, 8, 2, 300, 1577836800, 1041379200, 4660) + enc_name("example.") + b"\x01" * 16
    out.append(
        (
            "rrsig",
            enc_header(2, 0x8180, 1, 3, 0, 0)
            + enc_q(ex, 1, 1)
            + enc_rr(b"\xc0\x0c", 1, 1, 300, bytes([10, 0, 0, 5]))
            + enc_rr(b"\xc0\x0c", 46, 1, 300, sigrd)
            + enc_rr(b"\xc0\x0c", 46, 1, 300, sigrd[:1] + b"\x02" + sigrd[2:]),
            {},
            [],
        )
    )
    return out


OPT_BOOLS = ["question_only", "one_rr_per_rrset", "ignore_trailing", "raise_on_truncation", "xfr", "multi"]


def random_opts(rng, hint=None):
    o = {}
    for k in OPT_BOOLS:
        if rng.random() < 0.3:
            o[k] = True
    r = rng.random()
    if r < 0.25:
        o["origin"] = "example."
    r = rng.random()
    if r < 0.3:
        o["keyring"] = "dict"
    elif r < 0.5:
        o["keyring"] = "false"
    elif r < 0.55:
        o["keyring"] = "key"
    if hint and rng.random() < 0.5:
        o.update(hint)
    return o


def all_bool_opts():
    for bits in itertools.product([False, True], repeat=len(OPT_BOOLS)):
        yield {k: True for k, b in zip(OPT_BOOLS, bits) if b}


def corrupted_record_messages():
    """Messages of four A records in which exactly one record has malformed rdata while
    its RDLENGTH is honest; yields (wire, span_of_bad_rr)."""
    ex = enc_name("www.example.")
    for bad in range(4):
        for kind in range(4):
            body = enc_q(ex, 1, 1)
            off = 12 + len(body)
            span = None
            for i in range(4):
                if i == bad:
                    if kind == 0:
                        r = enc_rr(b"\xc0\x0c", 1, 1, 60, bytes([10, 0, i]))  # 3-octet A
                    elif kind == 1:
                        r = enc_rr(b"\xc0\x0c", 15, 1, 60, b"\x00\x0a\x03abc")  # MX, name runs out
                    elif kind == 2:
                        r = enc_rr(b"\xc0\x0c", 28, 1, 60, bytes(17))  # 17-octet AAAA
                    else:
                        r = enc_rr(b"\xc0\x0c", 2, 1, 60, b"\xc0\xff")  # NS forward pointer
                    span = (off, off + len(r))
                else:
                    r = enc_rr(b"\xc0\x0c", 1, 1, 60, bytes([10, 0, 0, i]))
                body += r
                off += len(r)
            yield enc_header(5, 0x8180, 1, 4, 0, 0) + body, span


def random_message(rng, wires_by_type):
    """A structurally plausible message with deliberate lies: counts, RDLENGTH, pointers,
    misplaced OPT/TSIG, random rdata."""
    opcode = rng.choice([0, 0, 0, 0, 4, 5, 5, 1, 2, 3, 6, 15])
    flags = (opcode << 11) | rng.choice([0, 0x8000, 0x8180, 0x0200, 0x8200, 0x0100, rng.randrange(0x10000) & 0x87FF])
    names_at = []
    body = bytearray()

    def a_name():
        r = rng.random()
        if names_at and r < 0.45:
            t = rng.choice(names_at)
            return bytes([0xC0 | (t >> 8), t & 0xFF])
        if r < 0.5:
            t = rng.randrange(0, 12 + len(body) + 8)
            return bytes([0xC0 | ((t >> 8) & 0x3F), t & 0xFF])
        if r < 0.55:
            return b"\x00"
        if r < 0.58:
            return bytes([rng.choice([64, 128, 191])]) + b"x"
        n = rng.choice(["www.example.", "example.", "a.b.c.example.", "key.", "x.", "MiXed.Example."])
        w = enc_name(n)
        if names_at and rng.random() < 0.4:
            t = rng.choice(names_at)
            w = w[:-1] + bytes([0xC0 | (t >> 8), t & 0xFF])
        return w

    counts = [0, 0, 0, 0]
    nq = rng.choice([0, 1, 1, 1, 1, 2])
    for _ in range(nq):
        names_at.append(12 + len(body))
        body += enc_q(a_name(), rng.choice([1, 6, 16, 28, 252, 251, 255, 41, 250, rng.randrange(65536)]), rng.choice([1, 1, 1, 3, 254, 255, rng.randrange(65536)]))
    counts[0] = nq
    types = list(wires_by_type.keys())
    for sec in (1, 2, 3):
        n = rng.choice([0, 0, 1, 1, 2, 3])
        for i in range(n):
            names_at.append(12 + len(body))
            r = rng.random()
            if r < 0.12:
                # OPT
                nm = b"\x00" if rng.random() < 0.8 else a_name()
                rd = rng.choice(OPT_WIRES) if rng.random() < 0.7 else bytes(rng.randrange(256) for _ in range(rng.randrange(0, 12)))
                body += enc_rr(nm, 41, rng.choice([512, 1232, 65535, 0]), rng.randrange(1 << 32), rd, _lie(rng, len(rd)))
            elif r < 0.22:
                c, t, rd = rng.choice(wires_by_type[(255, 250)]) if (255, 250) in wires_by_type else (255, 250, b"")
                nm = enc_name("key.") if rng.random() < 0.7 else a_name()
                if rng.random() < 0.3:
                    rd = _mutate_bytes(rng, rd)
                body += enc_rr(nm, 250, rng.choice([255, 255, 255, 1]), 0, rd, _lie(rng, len(rd)))
            else:
                key = rng.choice(types)
                c, t, rd = rng.choice(wires_by_type[key])
                k = rng.random()
                if k < 0.35:
                    rd = _mutate_bytes(rng, rd)
                elif k < 0.45:
                    rd = bytes(rng.randrange(256) for _ in range(rng.randrange(0, 24)))
                elif k < 0.5:
                    rd = b""
                cls = c if rng.random() < 0.8 else rng.choice([1, 3, 254, 255, 0, 65535])
                ttl = rng.choice([0, 1, 300, 0x7FFFFFFF, 0x80000000, 0xFFFFFFFF])
                body += enc_rr(a_name(), t, cls, ttl, rd, _lie(rng, len(rd)))
        counts[sec] = n
    if rng.random() < 0.2:
        j = rng.randrange(4)
        counts[j] = max(0, counts[j] + rng.choice([-1, 1, 1, 2, 65530]))
    if rng.random() < 0.1:
        body += bytes(rng.randrange(256) for _ in range(rng.randrange(1, 4)))
    if rng.random() < 0.1 and len(body) > 0:
        body = body[: rng.randrange(len(body))]
    return enc_header(rng.randrange(65536), flags, *counts) + bytes(body)


def _lie(rng, n):
    r = rng.random()
    if r < 0.85:
        return n
    return max(0, n + rng.choice([-2, -1, 1, 2, 255, 65535 - n]))


def _mutate_bytes(rng, b: bytes) -> bytes:
    if not b:
        return bytes([rng.randrange(256)])
    b = bytearray(b)
    for _ in range(rng.choice([1, 1, 1, 2, 3])):
        k = rng.random()
        i = rng.randrange(len(b)) if b else 0
        if k < 0.5 and b:
            b[i] = rng.choice(B13 + [rng.randrange(256)])
        elif k < 0.7 and b:
            del b[i]
        elif k < 0.9:
            b.insert(i, rng.choice(B13))
        else:
            b = b[:i]
    return bytes(b)


# --------------------------------------------------------------------------- text
def strings_upto(n, alphabet=ALPHABET):
    for k in range(0, n + 1):
        for t in itertools.product(alphabet, repeat=k):
            yield "".join(t)


ESC_ALPHABET = ["\\", "0", "2", "5", "6", "9", "a", "."]


def char_substitutions(text: str, alphabet=ALPHABET):
    for i in range(len(text)):
        for c in alphabet:
            if c != text[i]:
                yield text[:i] + c + text[i + 1:]


def token_mutations(rng, text: str, n: int, pool=NASTY_TOKENS):
    """n seeded mutations at token level: replace / delete / duplicate / insert / swap."""
    toks = text.split(" ")
    for _ in range(n):
        t = list(toks)
        for _ in range(rng.choice([1, 1, 1, 2])):
            k = rng.random()
            i = rng.randrange(len(t)) if t else 0
            if k < 0.5 and t:
                t[i] = rng.choice(pool)
            elif k < 0.62 and t:
                del t[i]
            elif k < 0.72 and t:
                t.insert(i, t[i])
            elif k < 0.9:
                t.insert(i, rng.choice(pool))
            elif len(t) > 1:
                j = rng.randrange(len(t))
                t[i], t[j] = t[j], t[i]
        yield " ".join(t)


BASE_ZONE = """$TTL 300
$ORIGIN example.
@ IN SOA ns1 hostmaster 1 2 3 4 5
@ NS ns1
@ NS ns2.example.
ns1 A 10.53.0.1
ns2 3600 IN A 10.53.0.2
 IN 60 AAAA ::1
www CNAME ns1
txt TXT "foo bar" ( "baz"
  "qux" ) ; comment
$ORIGIN sub.example.
a MX 10 mail.example.
$GENERATE 1-3 host$ A 10.0.0.$
$GENERATE 4-8/2 h${0,3,x} CNAME host${-3,0,d}.example.
out.of.zone. A 1.2.3.4
"""

ZONE_LINES = [
    "$TTL 1h", "$TTL", "$TTL x", "$TTL 4294967296", "$ORIGIN", "$ORIGIN foo", "$ORIGIN foo.", "$ORIGIN .", "$ORIGIN \\999.",
    "$ORIGIN example.", "$origin sub.example.", "$INCLUDE /nonexistent", "$INCLUDE", "$UNICODE 2008", "$UNICODE 2003 2008", "$UNICODE \"x\"",
    "$UNKNOWN 1", "$", "$$", "$GENERATE", "$GENERATE 1-2", "$GENERATE 1-2 a$", "$GENERATE 1-2 a$ A", "$GENERATE 1-2 a$ A 1.2.3.$",
    "$GENERATE 2-1 a$ A 1.2.3.$", "$GENERATE 1-3/0 a$ A 1.2.3.$", "$GENERATE -1-3 a$ A 1.2.3.$", "$GENERATE 1-3/ a$ A 1.2.3.$",
    "$GENERATE 1-3 a${0,2,q} A 1.2.3.$", "$GENERATE 1-3 a${+1,2,X} A 1.2.3.$", "$GENERATE 1-3 a${-5} A 1.2.3.$", "$GENERATE 1-3 a${1,2} A 1.2.3.$",
    "$GENERATE 1-3 $.${0,4,n}.ip6 PTR h$.example.", "$GENERATE 1-3 a${0,2,N} 300 IN A 1.2.3.$", "$GENERATE 1-3 a$ IN 300 A 1.2.3.$",
    "$GENERATE 1-3 a$ CH A 1.2.3.$", "$GENERATE 1-3 a$ TYPE0 x", "$GENERATE 1-3 a$ A", "$GENERATE 1-3 \"a$\" A 1.2.3.$", "$GENERATE 1-3 a$..b A 1.2.3.$",
    "$GENERATE 1-3 a$ A \"1.2.3.$\"", "$GENERATE 1-3 " + "a" * 62 + "$ A 1.2.3.$", "$GENERATE 9-11 " + "a" * 62 + "$ A 1.2.3.$", "$GENERATE 1-2 a$.out. A 1.2.3.$",
    "$GENERATE 1-2 a$ SOA a b 1 2 3 4 5", "$GENERATE 1-2 @ CNAME a$", "$GENERATE 1-2 \\999$ A 1.2.3.$", "$GENERATE 1-2 a$ TXT \\$ ${0,3} $$",
    '""', '"" 300 IN A 1.2.3.4', '"a" A 1.2.3.4', "( a ) A 1.2.3.4", "a ( A", "a A ( 1.2.3.4", ") a A 1.2.3.4", "a A 1.2.3.4 )",
    "\\999 A 1.2.3.4", "\\256 A 1.2.3.4", "a\\ A 1.2.3.4", "a.. A 1.2.3.4", ".a A 1.2.3.4", "a" * 64 + " A 1.2.3.4",
    ("a" * 63 + ".") * 4 + " A 1.2.3.4", "a 4294967296 A 1.2.3.4", "a 1w A 1.2.3.4", "a IN IN A 1.2.3.4", "a 1 2 A 1.2.3.4", "a CH A 1.2.3.4",
    "a CLASS1 A 1.2.3.4", "a CLASS65536 A 1.2.3.4", "a TYPE1 \\# 4 01020304", "a TYPE65536 \\# 0", "a A", "a", "a IN", "a 300", "a 300 IN",
    " A 1.2.3.4", "\tA 1.2.3.4", " ", "\t", ";", "; comment only", "a A 1.2.3.4 ; c", "a A 1.2.3.4 x", "@ SOA a b 1 2 3 4 5", "a SOA a b 1 2 3 4 5",
    "www A 1.2.3.4", "www CNAME x", "c CNAME x", "c A 1.2.3.4", "c RRSIG A 8 2 300 1577836800 1041379200 1 example. AAAA", "c NSEC d A", "c KEY 0 0 0 AA==",
    "@ 300 IN NS .", "é A 1.2.3.4", "é.example. A 1.2.3.4", "a TXT \"unterminated", "a TXT \"new\nline\"", "a TXT (", "a TXT ( ; x", "a TXT ((a))",
    "a OPT 1", "a TSIG x", "a ANY 1", "a AXFR", "a NXT x", "a A6 0 ::", "*.a A 1.2.3.4", "a.*.b A 1.2.3.4", "a LOC 0 0 0 N 0 0 0 E 42849673m",
    "a HINFO \"a\\200b\" x", "a URI 1 1 \"a\\\"b\"", "a\\032b A 1.2.3.4", "a\\.b A 1.2.3.4", "\\@ A 1.2.3.4", "@ A 1.2.3.4", "@.a A 1.2.3.4",
]

MSG_LINES = [
    "id 1", "id", "id x", "id 65536", "id -1", "opcode QUERY", "opcode UPDATE", "opcode NOTIFY", "opcode 15", "opcode 16", "opcode X", "opcode",
    "rcode NOERROR", "rcode BADVERS", "rcode 4095", "rcode 4096", "rcode X", "flags QR AA", "flags XX", "flags", "flags 1", "edns 0", "edns -1", "edns 256", "edns x",
    "eflags DO", "eflags XX", "payload 1232", "payload 65536", "payload x", "option NSID", "option ECS 1.2.3.4/24", "unknown 1",
    ";QUESTION", ";ANSWER", ";AUTHORITY", ";ADDITIONAL", ";ZONE", ";PREREQ", ";UPDATE", ";OPT", ";BOGUS", ";",
    "www.example. IN A", "www.example. A", "www.example. IN", "www.example.", " IN A", "www.example. CH TXT", "www.example. CLASS7 TYPE7", "www.example. IN TYPE65536",
    "www.example. 300 IN A 1.2.3.4", "www.example. IN 300 A 1.2.3.4", "www.example. 300 A 1.2.3.4", "www.example. 300 IN A", "www.example. 300 IN A 1.2.3",
    " 300 IN A 1.2.3.5", "www.example. 4294967296 IN A 1.2.3.4", "www.example. 300 NONE A", "www.example. 0 ANY A", "www.example. 0 ANY ANY", "www.example. 0 NONE A 1.2.3.4",
    "example. 300 IN SOA a. b. 1 2 3 4 5", "www.example. 300 IN RRSIG A 8 2 300 1577836800 1041379200 1 example. AAAA", "\\999. 300 IN A 1.2.3.4", "\"\" 300 IN A 1.2.3.4",
    ". 0 CLASS1232 OPT \\# 0", "key. 0 ANY TSIG hmac-sha256. 1577836800 300 2 AQI= 1 NOERROR 0", "www.example. 300 IN TXT \"a\" ( \"b\"", "www.example. 300 IN TXT \"abc",
    "www.example. 300 IN CNAME x.", "www.example. 300 IN MX 10 .", "www.example. 300 IN TYPE999 \\# 1 00", "www.example. 300 IN A \\# 4 01020304", "www 300 IN A 1.2.3.4",
]
