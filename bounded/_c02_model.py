"""Reference model of the rdata wire / text formats, written from the RFCs.

Shared by bounded/C02.py and bounded/C05.py.  Nothing in here is copied from the library:
the reference encoders build the wire form from plain Python data (ints, bytes, label lists),
so that ``to_wire`` of the real classes can be compared against an independent oracle, and
the reference text emitters spell values in a *different* (but RFC 1035 legal) way than the
library's own ``to_text`` (everything outside [A-Za-z0-9-] is written as \\DDD).

Model value domain (JSON-able through bounded.common._jsonable / unjson): int, bool, None, str,
bytes, and lists of those.  A domain name is a list of label ``bytes`` (absolute names end
with ``b""``).
"""

from __future__ import annotations

import base64
import binascii
import struct

import dns.name
import dns.rdata
import dns.rdataclass
import dns.rdatatype

IN = 1
CH = 3
ANY = 255


# Enumeration depth, set by the caller before generating values:
#   FULL_OCTETS  – all 256 single-octet values in string / label / opaque fields (else 34 representatives)
#   FULL_INTS    – all 256 values of 8-bit fields, all IPv4 octet values, 3 IPv6 fillings (else a boundary subset)
MODE = {"FULL_OCTETS": True, "FULL_INTS": True}

REP_OCTETS = [0, 1, 9, 10, 13, 31, 32, 33, 34, 36, 40, 41, 42, 44, 46, 47, 48, 57, 59, 61, 64, 65, 90, 92, 97, 126, 127, 128, 129, 160, 192, 224, 254, 255]
REP_U8 = sorted(set(list(range(0, 18)) + [31, 32, 33, 63, 64, 65, 99, 100, 101, 126, 127, 128, 129, 199, 200, 201] + list(range(248, 256))))


def octets():
    return range(256) if MODE["FULL_OCTETS"] else REP_OCTETS


class NoRefText(Exception):
    """The model has no independent text spelling for this value."""


# --------------------------------------------------------------------------- names


def mkname(labels):
    return dns.name.Name([bytes(x) for x in labels])


def is_abs(labels):
    return len(labels) > 0 and bytes(labels[-1]) == b""


def name_wire(labels, origin=None):
    """RFC 1035 3.1 uncompressed encoding; a relative name is completed with origin."""
    labels = [bytes(x) for x in labels]
    if not is_abs(labels):
        if origin is None:
            raise ValueError("relative name without origin")
        labels = labels + [bytes(x) for x in origin]
    out = b""
    for l in labels:
        assert len(l) <= 63
        out += bytes([len(l)]) + l
    assert len(out) <= 255
    return out


_PLAIN = set(b"abcdefghijklmnopqrstuvwxyzABCDEFGHIJKLMNOPQRSTUVWXYZ0123456789-_")


def esc_ddd(data, plain=_PLAIN):
    """Spell octets with \\DDD for everything that is not a letter, digit, '-' or '_'."""
    return "".join(chr(c) if c in plain else "\\%03d" % c for c in bytes(data))


def name_text(labels):
    labels = [bytes(x) for x in labels]
    if len(labels) == 0:
        return "@"
    if labels == [b""]:
        return "."
    if is_abs(labels):
        return ".".join(esc_ddd(l) for l in labels[:-1]) + "."
    return ".".join(esc_ddd(l) for l in labels)


def relativize_labels(labels, origin):
    """labels (absolute) minus the origin suffix (case-insensitive), or None."""
    labels = [bytes(x) for x in labels]
    origin = [bytes(x) for x in origin]
    n = len(origin)
    if len(labels) >= n and [x.lower() for x in labels[len(labels) - n :]] == [
        x.lower() for x in origin
    ]:
        return labels[: len(labels) - n]
    return None


ORIGINS = [
    [b"example", b""],
    [b"Sub", b"Example", b"COM", b""],
    [b""],
]


def abs_names(thorough=False):
    """(labels, label) boundary set of absolute names."""
    out = [
        ([b""], "root"),
        ([b"a", b""], "one-label"),
        ([b"example", b""], "equals-origin"),
        ([b"www", b"example", b""], "under-origin"),
        ([b"WWW", b"ExAmPlE", b""], "mixed-case-under-origin"),
        ([b"host", b"other", b"org", b""], "outside-origin"),
        ([b"*", b"example", b""], "wildcard"),
        ([b"x" * 63, b"example", b""], "label63"),
        ([b"a" * 63, b"b" * 63, b"c" * 63, b"d" * 61, b""], "name255"),
        ([b"a"] * 127 + [b""], "127-labels"),
        ([b"a.b", b"example", b""], "dot-in-label"),
        ([b"a\\b", b"c\"d", b""], "backslash-quote"),
        ([b"a b", b"c;d", b"(e)", b""], "space-semicolon-paren"),
        ([b"@", b"$x", b""], "at-dollar"),
        ([b"\x00", b"\xff\x80", b""], "nul-high"),
        ([b"123", b"4", b""], "digits"),
        ([b"\\", b""], "only-backslash"),
        ([b"a\x01" + b"1", b""], "ctl-then-digit"),
    ]
    return out


def octet_names(full=True):
    """One name per octet value: label = that single octet, under example."""
    return [([bytes([c]), b"example", b""], octet_class(c)) for c in (octets() if full else REP_OCTETS)]


def rel_names():
    return [
        ([], "empty-relative"),
        ([b"www"], "rel-one"),
        ([b"A", b"b"], "rel-two-mixed"),
        ([b"x" * 63], "rel-label63"),
        ([b"a.b", b"\x00\xff"], "rel-special"),
        ([b"*"], "rel-wild"),
    ]


def octet_class(c):
    if c == 0x22:
        return "octet-dquote"
    if c == 0x5C:
        return "octet-backslash"
    if c < 0x20:
        return "octet-00-1f"
    if c == 0x7F:
        return "octet-7f"
    if c >= 0x80:
        return "octet-80-ff"
    if c in b" \t":
        return "octet-space"
    if c in b";()@$.,=":
        return "octet-" + chr(c)
    if 0x30 <= c <= 0x39:
        return "octet-digit"
    return "octet-printable"


def bytes_class(b):
    b = bytes(b)
    if len(b) == 0:
        return "empty"
    pri = [
        "octet-80-ff",
        "octet-dquote",
        "octet-backslash",
        "octet-00-1f",
        "octet-7f",
        "octet-space",
        "octet-;",
        "octet-(",
        "octet-)",
        "octet-@",
        "octet-$",
        "octet-.",
        "octet-,",
        "octet-=",
    ]
    cls = {octet_class(c) for c in b}
    for p in pri:
        if p in cls:
            return p
    if len(b) >= 255:
        return "len>=255"
    return "plain"


# --------------------------------------------------------------------------- field kinds


class Field:
    kind = "?"

    def __init__(self, attr, **kw):
        self.attr = attr
        self.kw = kw

    # values ---------------------------------------------------------------
    def nominal(self):
        raise NotImplementedError

    def boundary(self, thorough):
        """list of (value, label)"""
        raise NotImplementedError

    def rand(self, rng):
        raise NotImplementedError

    def classify(self, v):
        return "any"

    # conversions ----------------------------------------------------------
    def ctor(self, v):
        return v

    def wire(self, v, vals, origin):
        raise NotImplementedError

    def text(self, v, vals):
        raise NoRefText

    def match(self, got, v):
        return got == v

    def has_name(self):
        return False

    def relativized(self, v, origin):
        """value with names made relative to origin where possible (None: n/a)"""
        return v


class U(Field):
    """Unsigned big-endian integer of ``bits`` bits."""

    kind = "uint"

    def __init__(self, attr, bits, lo=0, hi=None, exhaustive=None, fmt="d", nominal=1, skip=(), extra=()):
        super().__init__(attr)
        self.bits = bits
        self.lo = lo
        self.hi = (1 << bits) - 1 if hi is None else hi
        self.exhaustive = bits == 8 if exhaustive is None else exhaustive
        self.fmt = fmt
        self._nom = nominal
        self.skip = set(skip)
        self.extra = set(extra)  # values with a mnemonic in the presentation format

    def nominal(self):
        return self._nom

    def _ok(self, v):
        return self.lo <= v <= self.hi and v not in self.skip

    def boundary(self, thorough):
        if self.exhaustive and (MODE["FULL_INTS"] or self.bits != 8):
            vs = range(self.lo, self.hi + 1)
        elif self.exhaustive:
            vs = REP_U8
        else:
            m = (1 << self.bits) - 1
            vs = {0, 1, 2, 127, 128, 255, 256, 257, 0x7FFF, 0x8000, 0xFFFF, 0x10000}
            vs |= {0x7FFFFFFF, 0x80000000, 0xFFFFFFFF, 0x100000000, m - 1, m, m >> 1, (m >> 1) + 1}
            vs |= {self.lo, self.lo + 1, self.hi - 1, self.hi}
            vs |= self.extra
            vs = sorted(vs)
        return [(v, self.classify(v)) for v in vs if self._ok(v)]

    def rand(self, rng):
        while True:
            v = rng.randint(self.lo, self.hi)
            if self._ok(v):
                return v, self.classify(v)

    def classify(self, v):
        if v == self.hi:
            return "max"
        if v == self.lo:
            return "min"
        return "mid"

    def wire(self, v, vals, origin):
        return int(v).to_bytes(self.bits // 8, "big")

    def text(self, v, vals):
        return format(v, self.fmt)


class RdType(U):
    """16-bit RR type code, written TYPEnnn in the reference text."""

    kind = "rdtype"

    def __init__(self, attr):
        super().__init__(attr, 16, nominal=1)

    def boundary(self, thorough):
        vs = set(range(0, 270)) | {32768, 32769, 32770, 65279, 65280, 65534, 65535, 1000, 4096}
        if thorough:
            vs |= set(range(0, 65536, 97))
        return [(v, self.classify(v)) for v in sorted(vs)]

    def text(self, v, vals):
        return "TYPE%d" % v


class Bool(Field):
    kind = "bool"

    def nominal(self):
        return False

    def boundary(self, thorough):
        return [(False, "false"), (True, "true")]

    def rand(self, rng):
        v = rng.random() < 0.5
        return v, str(v).lower()

    def text(self, v, vals):
        return "1" if v else "0"


class NameF(Field):
    kind = "name"

    def __init__(self, attr, nominal=None):
        super().__init__(attr)
        self._nom = nominal or [b"host", b"example", b""]

    def nominal(self):
        return list(self._nom)

    sweep_full = True  # False: the single-octet label sweep uses the 34 representatives

    def boundary(self, thorough):
        return abs_names(thorough) + octet_names(self.sweep_full)

    def rand(self, rng):
        n = rng.choice([1, 1, 2, 3, 5])
        labels = []
        for _ in range(n):
            ln = rng.choice([1, 1, 2, 3, 8, 20, 63]) if rng.random() < 0.9 else rng.randint(1, 63)
            mode = rng.random()
            if mode < 0.4:
                lab = bytes(rng.choice(b"abcXYZ019-_") for _ in range(ln))
            elif mode < 0.7:
                lab = bytes(rng.choice(b'a.\\"; ()@$\x00\x7f\xff\x80*09') for _ in range(ln))
            else:
                lab = bytes(rng.randrange(256) for _ in range(ln))
            labels.append(lab)
        if rng.random() < 0.4:
            labels += [b"example"]
        labels.append(b"")
        while len(name_wire(labels_trunc(labels))) > 255:  # pragma: no cover
            labels.pop(0)
        labels = labels_trunc(labels)
        return labels, self.classify(labels)

    def classify(self, v):
        v = [bytes(x) for x in v]
        if not is_abs(v):
            return "relative"
        if v == [b""]:
            return "root"
        c = bytes_class(b"".join(v))
        if c not in ("plain", "len>=255"):
            return "name-" + c
        if len(name_wire(v)) >= 255:
            return "name255"
        if max(len(x) for x in v) == 63:
            return "label63"
        return "name-plain"

    def ctor(self, v):
        return mkname(v)

    def wire(self, v, vals, origin):
        return name_wire(v, origin)

    def text(self, v, vals):
        return name_text(v)

    def match(self, got, v):
        return isinstance(got, dns.name.Name) and list(got.labels) == [bytes(x) for x in v]

    def has_name(self):
        return True

    def relativized(self, v, origin):
        r = relativize_labels(v, origin)
        return v if r is None else r


def labels_trunc(labels):
    labels = [bytes(x) for x in labels]
    while sum(len(x) + 1 for x in labels) > 255:
        labels.pop(0)
    return labels


def _rand_bytes(rng, n):
    mode = rng.random()
    if mode < 0.3:
        return bytes(rng.choice(b"abcXYZ0189 ") for _ in range(n))
    if mode < 0.6:
        return bytes(rng.choice(b'a"\\; ()\t@$.,=\x00\x01\x1f\x7f\x80\xff019') for _ in range(n))
    return bytes(rng.randrange(256) for _ in range(n))


_SPECIAL_STRINGS = [
    (b'a"b', "octet-dquote"),
    (b"a\\b", "octet-backslash"),
    (b"\\", "octet-backslash"),
    (b'"', "octet-dquote"),
    (b"a b", "octet-space"),
    (b" ", "octet-space"),
    (b"a;b", "octet-;"),
    (b"(a)", "octet-("),
    (b"\x01" + b"23", "octet-00-1f"),
    (b"\\" + b"065", "octet-backslash"),
    (b"\xc3\xa9", "octet-80-ff"),
    (b"\xff\xfe", "octet-80-ff"),
    (b"a\x00b", "octet-00-1f"),
    (b"a\nb", "octet-00-1f"),
    (b"a\tb", "octet-00-1f"),
    (b"abc", "plain"),
    (b"0", "plain"),
]


class CharStr(Field):
    """RFC 1035 <character-string>: one length octet then up to 255 octets."""

    kind = "charstr"

    def __init__(self, attr, lo=0, hi=255, nominal=b"abc", alphabet=None):
        super().__init__(attr)
        self.lo = lo
        self.hi = hi
        self._nom = nominal
        self.alphabet = alphabet

    def nominal(self):
        return self._nom

    def _fit(self, b):
        return self.lo <= len(b) <= self.hi and (
            self.alphabet is None or all(c in self.alphabet for c in b)
        )

    def boundary(self, thorough):
        out = []
        if self.alphabet is None:
            out += [(bytes([c]), octet_class(c)) for c in octets()]
            out += list(_SPECIAL_STRINGS)
            out += [(b"\xff" * self.hi, "octet-80-ff"), (b'"' * self.hi, "octet-dquote")]
        else:
            out += [(bytes([c]), "plain") for c in self.alphabet]
        a = bytes([self.alphabet[0]]) if self.alphabet else b"a"
        for n in (self.lo, self.lo + 1, 2, 63, 64, 127, 128, self.hi - 1, self.hi):
            if self.lo <= n <= self.hi:
                out.append((a * n, "empty" if n == 0 else ("len>=255" if n >= 255 else "plain")))
        return [(b, l) for (b, l) in out if self._fit(b)]

    def rand(self, rng):
        n = rng.choice([0, 1, 1, 2, 3, 5, 17, 64, 200, 255])
        n = max(self.lo, min(self.hi, n))
        if self.alphabet is not None:
            b = bytes(rng.choice(self.alphabet) for _ in range(n))
        else:
            b = _rand_bytes(rng, n)
        return b, self.classify(b)

    def classify(self, v):
        return bytes_class(v)

    def wire(self, v, vals, origin):
        v = bytes(v)
        assert len(v) <= 255
        return bytes([len(v)]) + v

    def text(self, v, vals):
        return '"' + esc_ddd(v) + '"'

    def match(self, got, v):
        return got == bytes(v)


class Blob(Field):
    """Opaque octets: the rest of the RDATA (prefix=0) or with a 1/2-octet length prefix."""

    kind = "blob"

    def __init__(self, attr, enc="hex", lo=0, hi=None, prefix=0, nominal=b"\x01\x02\x03\x04", big=1000):
        super().__init__(attr)
        self.enc = enc
        self.lo = lo
        self.hi = hi
        self.prefix = prefix
        self._nom = nominal
        self.big = big

    def nominal(self):
        return self._nom

    def _fit(self, b):
        return self.lo <= len(b) and (self.hi is None or len(b) <= self.hi)

    def boundary(self, thorough):
        out = [(bytes([c]), "one-octet") for c in octets()]
        lens = {0, 1, 2, 3, 4, 5, 23, 24, 25, 31, 32, 33, 47, 48, 49, 63, 64, 65, 95, 96, 97, 255, 256}
        lens |= {self.big}
        if thorough:
            lens |= {4095, 4096, 20000}
        if self.hi is not None:
            lens |= {self.hi - 1, self.hi}
        lens |= {self.lo, self.lo + 1}
        for n in sorted(lens):
            if n >= 0:
                b = bytes((i * 37 + 11) & 0xFF for i in range(n))
                out.append((b, "empty" if n == 0 else "len%d" % n if n > 255 else "len-small"))
        out.append((b"\x00" * 8, "zeros"))
        out.append((b"\xff" * 8, "ones"))
        return [(b, l) for (b, l) in out if self._fit(b)]

    def rand(self, rng):
        n = rng.choice([0, 1, 2, 3, 4, 8, 16, 20, 32, 33, 48, 64, 100, 300])
        if n < self.lo:
            n = self.lo
        if self.hi is not None and n > self.hi:
            n = self.hi
        b = bytes(rng.randrange(256) for _ in range(n))
        return b, self.classify(b)

    def classify(self, v):
        return "empty" if len(v) == 0 else "nonempty"

    def wire(self, v, vals, origin):
        v = bytes(v)
        if self.prefix:
            return len(v).to_bytes(self.prefix, "big") + v
        return v

    def text(self, v, vals):
        v = bytes(v)
        if len(v) == 0:
            raise NoRefText
        if self.enc == "hex":
            # RFC 4034/… allow embedded white space; use upper case and odd chunking
            h = binascii.hexlify(v).decode().upper()
            return " ".join(h[i : i + 7] for i in range(0, len(h), 7))
        if self.enc == "hex1":
            return binascii.hexlify(v).decode().upper()
        if self.enc == "b64":
            s = base64.b64encode(v).decode()
            return " ".join(s[i : i + 5] for i in range(0, len(s), 5))
        if self.enc == "b641":
            return base64.b64encode(v).decode()
        raise NoRefText

    def match(self, got, v):
        return got == bytes(v)


class Fixed(Blob):
    kind = "fixed"

    def __init__(self, attr, n, enc="hex1", nominal=None):
        super().__init__(attr, enc=enc, lo=n, hi=n, nominal=nominal or bytes(range(1, n + 1)))
        self.n = n

    def boundary(self, thorough):
        n = self.n
        out = [(b"\x00" * n, "zeros"), (b"\xff" * n, "ones"), (bytes(range(n)), "ramp")]
        for pos in (0, n - 1):
            for c in octets():
                b = bytearray(b"\x11" * n)
                b[pos] = c
                out.append((bytes(b), "octet-at-%d" % (0 if pos == 0 else -1)))
        return out

    def rand(self, rng):
        b = bytes(rng.randrange(256) for _ in range(self.n))
        return b, "random"


class IPv4(Field):
    kind = "ipv4"

    def nominal(self):
        return bytes([192, 0, 2, 1])

    def boundary(self, thorough):
        out = [(b"\x00" * 4, "zeros"), (b"\xff" * 4, "ones")]
        for pos in range(4):
            for c in (range(256) if MODE["FULL_INTS"] else REP_U8):
                b = bytearray([10, 20, 30, 40])
                b[pos] = c
                out.append((bytes(b), "octet-pos"))
        return out

    def rand(self, rng):
        return bytes(rng.randrange(256) for _ in range(4)), "random"

    def wire(self, v, vals, origin):
        return bytes(v)

    def text(self, v, vals):
        return ".".join(str(c) for c in bytes(v))

    def match(self, got, v):
        import ipaddress

        try:
            return ipaddress.IPv4Address(got).packed == bytes(v)
        except Exception:
            return False


def ipv6_layouts():
    """All 256 zero/non-zero layouts of the eight 16-bit groups, two fillings each."""
    out = []
    for mask in range(256):
        for fill in ((0x0001, 0xFFFF, 0x0A0B) if MODE["FULL_INTS"] else (0x0A0B,)):
            groups = [(fill if (mask >> (7 - i)) & 1 else 0) for i in range(8)]
            out.append(b"".join(struct.pack("!H", g) for g in groups))
    return out


class IPv6(Field):
    kind = "ipv6"

    def nominal(self):
        return bytes.fromhex("20010db8000000000000000000000001")

    def boundary(self, thorough):
        out = [(b, "zero-run-layout") for b in ipv6_layouts()]
        out += [
            (bytes.fromhex("00000000000000000000ffff01020304"), "v4-mapped"),
            (bytes.fromhex("00000000000000000000000001020304"), "v4-compat"),
            (bytes.fromhex("0000000000000000000000000000ffff"), "low-ffff"),
            (bytes.fromhex("00000000000000000000fffe01020304"), "near-mapped"),
            (bytes.fromhex("0064ff9b000000000000000001020304"), "nat64"),
        ]
        for pos in (0, 1, 14, 15):
            for c in range(0, 256, 5):
                b = bytearray(bytes.fromhex("20010db8000100020003000400050006"))
                b[pos] = c
                out.append((bytes(b), "octet-pos"))
        return out

    def rand(self, rng):
        b = bytearray(rng.randrange(256) for _ in range(16))
        for i in range(8):
            if rng.random() < 0.4:
                b[2 * i] = b[2 * i + 1] = 0
        return bytes(b), "random"

    def wire(self, v, vals, origin):
        return bytes(v)

    def text(self, v, vals):
        v = bytes(v)
        return ":".join("%x" % struct.unpack("!H", v[i : i + 2])[0] for i in range(0, 16, 2))

    def match(self, got, v):
        import ipaddress

        try:
            return ipaddress.IPv6Address(got).packed == bytes(v)
        except Exception:
            return False
