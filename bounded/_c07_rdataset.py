"""C07 Rdataset-specific clauses (refusal of foreign records, singleton types, TTL
minimisation, list constructors) and the seeded operation-sequence interpreter."""

from __future__ import annotations

import dns.name
import dns.rdata
import dns.rdataset
import dns.rrset
import dns.set

import bounded._c07_model as M
import bounded._c07_sets as S

REFUSE = "C07.foreign_record_refused"
REFUSE_FX = "C07.refused_record_no_effect"
SINGLE = "C07.singleton_keeps_newest"
TTL = S.TTL
CTOR = "C07.set_constructors"
SEQ = S.SEQ

IN, CH = 1, 3
# RFC 1034/1035 (CNAME, SOA), RFC 2535 (NXT), RFC 6672 (DNAME), RFC 4034 (NSEC): at most one
# record per owner; the list the library documents.
SINGLETONS = {5: "CNAME", 6: "SOA", 30: "NXT", 39: "DNAME", 47: "NSEC"}

_intr = {}


def intruder(name):
    if name not in _intr:
        if name == "class":
            o = M.build({"c": CH, "t": "MX", "f": [10, (b"mail", b"example", b"")]}, "ctor")
        elif name == "type":
            o = M.build({"c": IN, "t": "A", "f": [bytes([1, 2, 3, 4])]}, "ctor")
        elif name == "type_txt":
            o = M.build({"c": IN, "t": "TXT", "f": [(b"a",)]}, "ctor")
        elif name == "covers":
            o = M.build(S._rrsig(15, 2143, (b"example", b""), b"\x01\x02"), "ctor")
        elif name == "covers_sig":
            o = dns.rdata.from_text(IN, 24, "MX 1 3 3600 20200101000000 20030101000000 2143 foo.example. MxFcby9k", relativize=False)
        else:
            raise KeyError(name)
        _intr[name] = o
    return _intr[name]


def _sig_set(seq, ttl):
    """A SIG (type 24) rdataset whose records cover A."""
    s = dns.rdataset.Rdataset(IN, 24)
    s.ttl = ttl
    texts = ["A 1 3 3600 20200101000000 20030101000000 2143 foo.example. MxFcby9k", "A 1 3 3600 20200101000000 20030101000000 2144 foo.example. MxFcby9k"]
    for i in seq:
        s.add(dns.rdata.from_text(IN, 24, texts[i % 2], relativize=False))
    return s


def chk_refuse(impl, sseq, ttl, how, intr, ittl, explicit_covers=False):
    """A record (or a set of records) of another class / type / covered type is refused and
    refusing it changes nothing.  -> (violations, nontrivial)"""
    rd = intruder(intr)
    sigset = intr == "covers_sig"
    if sigset:
        base = _sig_set(sseq, ttl)
        a = None
    else:
        _objs, keys, idmap = S.universe(S.IMPLS[impl][0])
        a = M.m_dedupe([keys[i] for i in sseq])
        base = S.make(impl, sseq, ttl)
    if explicit_covers:
        base.covers = 1
    if intr.startswith("covers") and len(base) == 0 and not explicit_covers:
        return [], False  # the first signature initialises the covered type
    before = list(base)
    kind = {"class": "class", "type": "type", "type_txt": "type", "covers": "covered type", "covers_sig": "covered type"}[intr]
    exc = None
    try:
        if how == "add":
            base.add(rd, ittl)
        elif how == "add_nottl":
            base.add(rd)
        else:
            other = dns.rdataset.Rdataset(rd.rdclass, rd.rdtype)
            other.ttl = ittl
            dns.set.Set.add(other, rd)
            if rd.rdtype in (46, 24):
                other.covers = rd.covers()
            if how == "update":
                base.update(other)
            elif how == "union_update":
                base.union_update(other)
            elif how == "__ior__":
                base |= other
            elif how == "__iadd__":
                base += other
            elif how == "union":
                r = base.union(other)
                if any(x is rd for x in r):
                    return [(REFUSE, f"{impl}.union with a set of a different {kind} produced a mixed set", {"site": "dns.rdataset.Rdataset.add", "class": f"record of a different {kind} accepted", "how": how})], True
                exc = "n/a"
            else:
                raise KeyError(how)
    except KeyError:
        raise
    except Exception as e:
        exc = type(e).__name__
    out = []
    site = "dns.rdataset.Rdataset.add" if how.startswith("add") else "dns.rdataset.Rdataset.union_update/update"
    after = list(base)
    if exc is None:
        out.append((REFUSE, f"{impl}.{how}: a record of a different {kind} was not refused (members now {len(after)})", {"site": "dns.rdataset.Rdataset.add", "class": f"record of a different {kind} accepted", "how": "add" if how.startswith("add") else "merge"}))
        return out, True
    if len(after) != len(before) or any(x is not y for x, y in zip(after, before)):
        out.append((REFUSE_FX, f"{impl}.{how}: refused ({exc}) but members changed {len(before)} -> {len(after)}", {"site": site, "class": "members changed although the record was refused", "kind": kind}))
    if base.ttl != ttl:
        out.append(
            (
                REFUSE_FX,
                f"{impl}.{how}: record of a different {kind} refused ({exc}) but the set's ttl went {ttl} -> {base.ttl}; a refused record's TTL is not one of the TTLs merged into the set",
                {"site": site, "class": "TTL changed although the record was refused"},
            )
        )
    return out, True


def chk_singleton(rdtype, real=False):
    """Adding a second, different record: singleton types keep only the newest, every other
    type keeps both (exhaustive over type codes with generic records)."""
    out = []
    if real:
        tname = SINGLETONS.get(rdtype) or {15: "MX", 2: "NS", 16: "TXT", 12: "PTR"}[rdtype]
        _c, kinds, lists, _a = M.TYPES[tname]
        lists = [M.N_BASE if l is M.NAME else l for l in lists]
        f1 = [l[0] for l in lists]
        f2 = list(f1)
        f2[0] = lists[0][3]
        f1b = list(f1)
        if kinds[0] in ("name", "namek") and tname != "NSEC":
            f1b[0] = lists[0][1]  # case variant of the base name: an equal record
        g1, g2, g1b = (M.build({"c": IN, "t": tname, "f": f}, "ctor") for f in (f1, f2, f1b))
    else:
        g1 = dns.rdata.GenericRdata(IN, rdtype, b"\x01a\x00")
        g2 = dns.rdata.GenericRdata(IN, rdtype, b"\x01b\x00")
        g1b = dns.rdata.GenericRdata(IN, rdtype, b"\x01a\x00")
    single = rdtype in SINGLETONS
    for mk in ("Rdataset", "RRset", "from_rdata_list"):
        try:
            if mk == "from_rdata_list":
                s = dns.rdataset.from_rdata_list(100, [g1, g2])
            else:
                s = dns.rdataset.Rdataset(IN, rdtype) if mk == "Rdataset" else dns.rrset.RRset(S._OWNER, IN, rdtype)
                s.add(g1, 100)
                s.add(g2, 300)
            got = list(s)
            exp = [g2] if single else [g1, g2]
            if len(got) != len(exp) or any(x is not y for x, y in zip(got, exp)):
                out.append(
                    (
                        SINGLE,
                        f"type {rdtype} ({mk}): after adding two different records the set holds {len(got)} record(s), newest kept: {any(x is g2 for x in got)}; expected {'only the newest' if single else 'both'}",
                        {"site": "dns.rdatatype.is_singleton/Rdataset.add", "singleton": single, "rdtype": rdtype if (single or rdtype < 260) else "other"},
                    )
                )
                continue
            ok = {100, 300} if single else {100}
            if s.ttl not in ok:
                out.append((TTL, f"type {rdtype} ({mk}): ttl {s.ttl} after merging 100 then 300", {"impl": mk, "op": "add", "what": "ttl", "singleton": single}))
            s.add(g1b)
            got = list(s)
            if single:
                okk = len(got) == 1 and got[0] == g1 and got[0] != g2
            else:
                okk = len(got) == 2 and got[0] == g1 and got[1] is g2
            if not okk:
                out.append((SINGLE, f"type {rdtype} ({mk}): third add (equal to the first record) left {len(got)} record(s)", {"site": "dns.rdatatype.is_singleton/Rdataset.add", "singleton": single, "step": "third add", "rdtype": rdtype if (single or rdtype < 260) else "other"}))
        except Exception as e:
            out.append((SINGLE, f"type {rdtype} ({mk}): raised {type(e).__name__}: {e}", {"site": "dns.rdataset.Rdataset.add", "exc": type(e).__name__, "singleton": single}))
    return out


def chk_ttl_adds(impl, t0, steps):
    """steps: [elem index or -1 (update_ttl only), ttl or None].  The TTL after every step is
    the minimum of the TTLs merged since the set was last empty (an empty set takes the TTL
    given)."""
    objs, keys, idmap = S.universe(S.IMPLS[impl][0])
    s = S.make(impl, [], t0)
    mt = t0
    members = []
    out = []
    for n, (i, t) in enumerate(steps):
        try:
            if i < 0:
                s.update_ttl(t)
            elif t is None:
                s.add(objs[i])
            else:
                s.add(objs[i], t)
        except Exception as e:
            return [(TTL, f"{impl}: step {n} raised {type(e).__name__}: {e}", {"impl": impl, "op": "add", "what": "raised", "exc": type(e).__name__})]
        if t is not None:
            mt = t if not members else min(mt, t)
        if i >= 0 and keys[i] not in members:
            members.append(keys[i])
        if s.ttl != mt:
            out.append(
                (
                    TTL,
                    f"{impl}: after steps {steps[: n + 1]} from ttl {t0} the ttl is {s.ttl}, minimum of the merged TTLs is {mt}",
                    {"impl": impl, "op": "update_ttl" if i < 0 else "add", "what": "ttl", "was_empty": len(members) <= (1 if i >= 0 else 0)},
                )
            )
            return out
        out += S._cmp_view(S.UNARY, impl, "add", "self", S.view(s, idmap), members)
        if out:
            return out
    return out


def chk_from_list(kind, uname, seq, ttl):
    objs, keys, idmap = S.universe(uname)
    items = [objs[i] for i in seq]
    exp = M.m_dedupe([keys[i] for i in seq])
    try:
        if kind == "rdataset.from_rdata_list":
            s = dns.rdataset.from_rdata_list(ttl, items)
        elif kind == "rdataset.from_rdata":
            s = dns.rdataset.from_rdata(ttl, *items)
        elif kind == "rrset.from_rdata_list":
            s = dns.rrset.from_rdata_list(S._OWNER, ttl, items)
        elif kind == "rrset.from_rdata":
            s = dns.rrset.from_rdata(S._OWNER, ttl, *items)
        elif kind == "rrset.to_rdataset":
            s = dns.rrset.from_rdata_list(S._OWNER, ttl, items).to_rdataset()
        elif kind == "Set":
            s = dns.set.Set(items)
        else:
            raise KeyError(kind)
    except KeyError:
        raise
    except Exception as e:
        return [(CTOR, f"{kind} raised {type(e).__name__}: {e}", {"impl": kind, "op": "construct", "what": "raised"})]
    out = S._cmp_view(CTOR, kind, "construct", "set", S.view(s, idmap), exp)
    if kind != "Set" and s.ttl != ttl:
        out.append((TTL, f"{kind}: ttl {s.ttl} for a set built with ttl {ttl}", {"impl": kind, "op": "construct", "what": "ttl"}))
    return out


# --------------------------------------------------------------------------- sequences
class MS:
    __slots__ = ("m", "ttl")

    def __init__(self, m, ttl):
        self.m = list(m)
        self.ttl = ttl


_INPLACE = ["union_update", "update", "intersection_update", "difference_update", "symmetric_difference_update", "__ior__", "__iadd__", "__iand__", "__isub__", "__ixor__"]
_COPYING = ["union", "intersection", "difference", "symmetric_difference", "__or__", "__add__", "__and__", "__sub__", "__xor__"]
_PREDS = list(S.PRED_OPS)


def gen_ops(rng, impl, n):
    nu = len(S.universe(S.IMPLS[impl][0])[0])
    ttls = [0, 1, 5, 60, 300, 86400, 2**31 - 1]
    ops = []
    for _ in range(n):
        r = rng.random()
        i, j, k = rng.randrange(3), rng.randrange(3), rng.randrange(3)
        if r < 0.30:
            ops.append(["add", i, rng.randrange(nu), rng.choice(ttls + [None, None, None])])
        elif r < 0.36:
            ops.append(["remove", i, rng.randrange(nu)])
        elif r < 0.42:
            ops.append(["discard", i, rng.randrange(nu)])
        elif r < 0.45:
            ops.append(["pop", i])
        elif r < 0.47:
            ops.append(["clear", i])
        elif r < 0.51:
            ops.append(["delitem", i, rng.randrange(4)])
        elif r < 0.68:
            ops.append(["inplace", rng.choice(_INPLACE), i, j])
        elif r < 0.84:
            ops.append(["assign", rng.choice(_COPYING), k, i, j])
        elif r < 0.88:
            ops.append(["copy", k, i])
        elif r < 0.90:
            ops.append(["alias", k, i])
        elif r < 0.93:
            ops.append(["update_ttl", i, rng.choice(ttls)])
        elif r < 0.96:
            ops.append(["snapshot", i])
        else:
            ops.append(["pred", rng.choice(_PREDS), i, j])
    return ops


def run_seq(impl, ops):
    """-> (violations, number of operations executed).  Stops at the first violation."""
    objs, keys, idmap = S.universe(S.IMPLS[impl][0])
    has_ttl = S.IMPLS[impl][1]
    real = [S.make(impl, [], 100 + n) for n in range(3)]
    model = [MS([], 100 + n) for n in range(3)]
    snaps = []
    done = 0

    def sig(op, what, **kw):
        return S._sig(impl, op, what, seq=True, **kw)

    for step in ops:
        kind = step[0]
        out = []
        opname = kind
        try:
            if kind == "add":
                _, i, e, t = step
                if has_ttl:
                    if t is None:
                        real[i].add(objs[e])
                    else:
                        real[i].add(objs[e], t)
                        model[i].ttl = t if not model[i].m else min(model[i].ttl, t)
                else:
                    real[i].add(objs[e])
                if keys[e] not in model[i].m:
                    model[i].m.append(keys[e])
            elif kind in ("remove", "discard"):
                _, i, e = step
                present = keys[e] in model[i].m
                try:
                    getattr(real[i], kind)(objs[e])
                except Exception:
                    if present or kind == "discard":
                        raise
                if present:
                    model[i].m.remove(keys[e])
            elif kind == "pop":
                i = step[1]
                if model[i].m:
                    p = real[i].pop()
                    kp = idmap.get(id(p), -1)
                    if kp not in model[i].m:
                        out.append((SEQ, f"{impl}.pop returned a non-member", sig("pop", "returned non-member")))
                    else:
                        model[i].m.remove(kp)
            elif kind == "clear":
                real[step[1]].clear()
                model[step[1]].m[:] = []
            elif kind == "delitem":
                _, i, x = step
                if x < len(model[i].m):
                    del real[i][x]
                    del model[i].m[x]
            elif kind == "update_ttl":
                _, i, t = step
                if has_ttl:
                    real[i].update_ttl(t)
                    model[i].ttl = t if not model[i].m else min(model[i].ttl, t)
            elif kind == "inplace":
                _, opname, i, j = step
                mop, fn, _ip = S.BIN_OPS[opname]
                a, b = model[i], model[j]
                alias = real[i] is real[j]
                r = fn(real[i], real[j])
                newm = M.M_BIN[mop](a.m, b.m)
                if has_ttl:
                    ok = S._ttl_ok(mop, a.ttl, b.ttl, not a.m, not b.m, alias)
                    if r.ttl not in ok:
                        out.append((TTL, f"{impl}.{opname}: ttl {a.ttl} ({len(a.m)} rdatas) with {b.ttl} ({len(b.m)} rdatas) gives {r.ttl}, expected {sorted(ok)}", sig(opname, "ttl", self_empty=not a.m)))
                    a.ttl = r.ttl
                a.m[:] = newm
                if r is not real[i]:
                    real[i] = r
            elif kind == "assign":
                _, opname, k, i, j = step
                mop, fn, _ip = S.BIN_OPS[opname]
                a, b = model[i], model[j]
                alias = real[i] is real[j]
                r = fn(real[i], real[j])
                nm = MS(M.M_BIN[mop](a.m, b.m), a.ttl)
                if has_ttl:
                    ok = S._ttl_ok(mop, a.ttl, b.ttl, not a.m, not b.m, alias)
                    if r.ttl not in ok:
                        out.append((TTL, f"{impl}.{opname}: ttl {a.ttl} ({len(a.m)} rdatas) with {b.ttl} ({len(b.m)} rdatas) gives {r.ttl}, expected {sorted(ok)}", sig(opname, "ttl", self_empty=not a.m)))
                    nm.ttl = r.ttl
                if any(r is x for x in real):
                    out.append((S.ISO, f"{impl}.{opname} returned an operand", sig(opname, "result is operand")))
                real[k] = r
                model[k] = nm
            elif kind == "copy":
                _, k, i = step
                real[k] = real[i].copy()
                model[k] = MS(model[i].m, model[i].ttl)
            elif kind == "alias":
                _, k, i = step
                real[k] = real[i]
                model[k] = model[i]
            elif kind == "snapshot":
                i = step[1]
                if has_ttl:
                    snaps.append((dns.rdataset.ImmutableRdataset(real[i]), MS(model[i].m, model[i].ttl)))
            elif kind == "pred":
                _, opname, i, j = step
                fn, ref = S.PRED_OPS[opname]
                got = fn(real[i], real[j])
                exp = ref(model[i].m, model[j].m)
                if opname in ("__eq__", "__ne__") and getattr(real[i], "covers", 0) != getattr(real[j], "covers", 0):
                    pass  # an emptied signature set keeps its covered type; the text is silent
                elif bool(got) != exp:
                    out.append((SEQ, f"{impl}.{opname}: {got} for {model[i].m} vs {model[j].m}", sig(opname, "truth value")))
        except Exception as e:
            return [(SEQ, f"{impl}.{opname} raised {type(e).__name__}: {e} at step {done}", sig(opname, "raised", exc=type(e).__name__))], done
        done += 1
        for n in range(3):
            out += S._cmp_view(SEQ, impl, opname, f"set {n} after step {done}", S.view(real[n], idmap), model[n].m)
            if has_ttl and real[n].ttl != model[n].ttl:
                out.append((TTL, f"{impl}.{opname}: set {n} ttl {real[n].ttl}, model {model[n].ttl} after step {done}", sig(opname, "ttl of a set not merged into" if kind not in ("add", "update_ttl") else "ttl")))
                model[n].ttl = real[n].ttl
        for sn, ms in snaps:
            if S.view(sn, idmap) != ms.m or sn.ttl != ms.ttl:
                out.append((S.IMM, f"an ImmutableRdataset snapshot changed after {opname} on its source", sig(opname, "snapshot changed")))
        if out:
            # normalise the clause-role text so that one defect gives one sig
            fixed = []
            for c, w, s in out:
                s = dict(s)
                if isinstance(s.get("what"), str) and s["what"].startswith("set "):
                    s["what"] = "members" if s["what"].endswith("members") else "order"
                s["seq"] = True
                fixed.append((c, w, s))
            return fixed, done
    return [], done
