"""C07 immutability clauses: names and records cannot be rebound, hold no mutable container,
do not retain a caller's mutable container, and the construction context is scoped."""

from __future__ import annotations

import enum
import importlib
import pkgutil

import dns.edns
import dns.immutable
import dns.name
import dns.rdata
import dns.rdataclass
import dns.rdataset
import dns.rdatatype

REBIND = "C07.immutable_no_rebinding"
FIELDS = "C07.immutable_no_mutable_field"
CONST = "C07.immutable_constructor_copies"
CTX = "C07.immutable_init_context"
IMMSET = "C07.immutable_rdataset"

IN, CH, ANY = 1, 3, 255

# (package, module) -> two presentation-format samples (RFC examples / the usual test vectors)
SAMPLES = {
    ("ANY", "AFSDB"): ["0 hostname.example.", "65535 ."],
    ("ANY", "AMTRELAY"): ["10 0 1 203.0.113.15", "128 1 3 amtrelays.example.com."],
    ("ANY", "AVC"): ['"app-name:WOLFGANG|app-class:OAM|business=yes"', '"x"'],
    ("ANY", "BRID"): ["owAAAYIEUQEgAQA//gAKBRMIJGma", "owAAAYIEUQEgAQA//gAKBRMIJGmb"],
    ("ANY", "CAA"): ['0 issue "ca.example.net"', '128 tbs "Unknown"'],
    ("ANY", "CDNSKEY"): ["256 3 8 AwEAAbmiLgh411Pz3v3XCSBrvYf52A/Gv55ItN1NbOLH", "257 3 8 AwEAAbmiLgh411Pz3v3XCSBrvYf52A/Gv55ItN1NbOLH"],
    ("ANY", "CDS"): ["12345 3 1 123456789abcdef67890123456789abcdef67890", "12346 3 1 123456789abcdef67890123456789abcdef67890"],
    ("ANY", "CERT"): ["65534 65535 PRIVATEOID MxFcby9k/yvedMfQgKzhH5er0Mu/vILz45IkskceFGgi", "1 2 RSASHA256 MxFcby9k"],
    ("ANY", "CNAME"): ["cname-target.", "."],
    ("ANY", "CSYNC"): ["12345 0 A MX RRSIG NSEC TYPE1234", "1 3 A"],
    ("ANY", "DLV"): ["12345 3 1 123456789abcdef67890123456789abcdef67890", "12346 3 1 123456789abcdef67890123456789abcdef67890"],
    ("ANY", "DNAME"): ["dname-target.", "."],
    ("ANY", "DNSKEY"): ["512 255 1 AQMFD5raczCJHViKtLYhWGz8hMY9UGRuniJDBzC7w0aR", "257 3 RSAMD5 AQMFD5raczCJHViKtLYhWGz8hMY9UGRuniJDBzC7w0aR"],
    ("ANY", "DS"): ["12345 3 1 123456789abcdef67890123456789abcdef67890", "12346 3 1 123456789abcdef67890123456789abcdef67890"],
    ("ANY", "DSYNC"): ["CDS NOTIFY 5300 notify-endpoint.parent.net.", "CSYNC 128 443 notify-endpoint.parent.net."],
    ("ANY", "EUI48"): ["00-00-5e-00-53-2a", "00-00-5e-00-53-2b"],
    ("ANY", "EUI64"): ["00-00-5e-ef-10-00-00-2a", "00-00-5e-ef-10-00-00-2b"],
    ("ANY", "GPOS"): ['"-22.6882" "116.8652" "250.0"', '"1.0" "2.0" "3.0"'],
    ("ANY", "HHIT"): ["gwppM2ZmOCAwMDAwWQFGMIIBQjCB9aAD", "gwppM2ZmOCAwMDAwWQFGMIIBQjCB9aAE"],
    ("ANY", "HINFO"): ['"Generic PC clone" "NetBSD-1.4"', '"PC" "NetBSD"'],
    ("ANY", "HIP"): [
        "2 200100107B1A74DF365639CC39F1D578 AwEAAbdxyhNuSutc5EMzxTs9LBPCIkOFH8cIvM4p9+LrV4e19WzK rvs1.example.com. rvs2.example.com.",
        "2 200100107B1A74DF365639CC39F1D578 AwEAAbdxyhNuSutc5EMzxTs9LBPCIkOFH8cIvM4p9+LrV4e19WzK",
    ],
    ("ANY", "ISDN"): ['"isdn-address" "subaddress"', '"isdn-address"'],
    ("ANY", "KEY"): ["512 255 1 AQMFD5raczCJHViKtLYhWGz8hMY9UGRuniJDBzC7w0aR", "513 255 1 AQMFD5raczCJHViKtLYhWGz8hMY9UGRuniJDBzC7w0aR"],
    ("ANY", "L32"): ["10 10.1.2.0", "20 10.1.4.0"],
    ("ANY", "L64"): ["10 2001:0DB8:1140:1000", "20 2001:0DB8:2140:2000"],
    ("ANY", "LOC"): ["60 9 0.000 N 24 39 0.000 E 10.00m 20.00m 2000.00m 20.00m", "0 9 1 S 24 39 0.000 E 10.00m 90000000.00m 2000m 20m"],
    ("ANY", "LP"): ["10 l64-subnet1.example.com.", "20 l32-subnet1.example.com."],
    ("ANY", "MX"): ["10 mail.example.", "10 ."],
    ("ANY", "NID"): ["10 0014:4fff:ff20:ee64", "20 0015:5fff:ff21:ee65"],
    ("ANY", "NINFO"): ['"foo" "bar"', '"foo"'],
    ("ANY", "NS"): ["ns1.example.", "ns2.example."],
    ("ANY", "NSEC"): ["a.secure. A MX RRSIG NSEC TYPE1234", ". NSAP-PTR NSEC"],
    ("ANY", "NSEC3"): ["1 1 12 aabbccdd 2t7b4g4vsa5smi47k61mv5bv1a22bojr MX DNSKEY NS SOA NSEC3PARAM RRSIG", "1 1 1 abcd alkmaao A"],
    ("ANY", "NSEC3PARAM"): ["1 1 12 aabbccdd", "1 1 12 -"],
    ("ANY", "OPENPGPKEY"): ["mQENBEteQDsBCADYnatn9+5t43AdJlVk9dZC2RM0idPQcmrrKcjeAWDnISqoJzkv", "mQENBEteQDsBCADYnatn9+5t43AdJlVk9dZC2RM0idPQcmrrKcjeAWDnISqoJzkw"],
    ("ANY", "PTR"): ["example.", "foo.net."],
    ("ANY", "RESINFO"): ["qnamemin exterr=15,16,17 infourl=https://resolver.example.com/guide", "qnamemin"],
    ("ANY", "RP"): ["mbox-dname.example. txt-dname.example.", ". ."],
    ("ANY", "RRSIG"): [
        "NSEC 1 3 3600 20200101000000 20030101000000 2143 foo.example. MxFcby9k/yvedMfQgKzhH5er0Mu/vILz45IkskceFGgi",
        "A 1 3 3600 20200101000000 20030101000000 2143 foo.example. MxFcby9k/yvedMfQgKzhH5er0Mu/vILz45IkskceFGgi",
    ],
    ("ANY", "RT"): ["0 intermediate-host.example.", "65535 ."],
    ("ANY", "SIG"): [
        "NXT 1 3 3600 20200101000000 20030101000000 2143 foo.example. MxFcby9k/yvedMfQgKzhH5er0Mu/vILz45IkskceFGgi",
        "A 1 3 3600 20200101000000 20030101000000 2143 foo.example. MxFcby9k",
    ],
    ("ANY", "SMIMEA"): ["3 1 1 a9cdf989b504fe5dca90c0d2167b6550570734f7c763e09fdf88904e06157065", "1 0 1 efddf0d915c7bdc5782c0881e1b2a95ad099fbdd06d7b1f77982d9364338d955"],
    ("ANY", "SOA"): ["ns1.example. hostmaster.example. 1 2 3 4 5", "ns1.example. hostmaster.example. 2 2 3 4 5"],
    ("ANY", "SPF"): ['"v=spf1 mx -all"', '"v=spf1 -all"'],
    ("ANY", "SSHFP"): ["1 1 aa549bfe898489c02d1715d97d79c57ba2fa76ab", "2 1 aa549bfe898489c02d1715d97d79c57ba2fa76ab"],
    ("ANY", "TLSA"): ["3 1 1 a9cdf989b504fe5dca90c0d2167b6550570734f7c763e09fdf88904e06157065", "1 0 1 efddf0d915c7bdc5782c0881e1b2a95ad099fbdd06d7b1f77982d9364338d955"],
    ("ANY", "TXT"): ['"foo" "bar"', '"foo bar"'],
    ("ANY", "URI"): ['10 1 "ftp://ftp1.example.com/public"', '10 1 "http://www.example.com/path"'],
    ("ANY", "WALLET"): ["EXAMPLE 01234567890abcdef", "EXAMPLE 01234567890abcdee"],
    ("ANY", "X25"): ['"123456789"', '"123456780"'],
    ("ANY", "ZONEMD"): [
        "2018031900 1 1 62e6cf51b02e54b9b5f967d547ce43136792901f9f88e637493daaf401c92c279dd10f0edb1c56f8080211f8480ee306",
        "2018031900 1 240 e2d523f654b9422a96c5a8f44607bbee",
    ],
    ("IN", "A"): ["10.53.0.1", "255.255.255.255"],
    ("IN", "AAAA"): ["ffff:ffff:ffff:ffff:ffff:ffff:ffff:ffff", "::1"],
    ("IN", "APL"): ["1:192.168.32.0/21 !1:192.168.38.0/28", "1:224.0.0.0/4 2:FF00:0:0:0:0:0:0:0/8"],
    ("IN", "DHCID"): ["AAIBY2/AuCccgoJbsaxcQc9TUapptP69lOjxfNuVAA2kjEA=", "AAEBOSD+XR3Os/0LozeXVqcNc7FwCfQdWL3b/NaiUDlW2No="],
    ("IN", "HTTPS"): ['1 . port=8002 ech="abcd"', "0 svc.example."],
    ("IN", "IPSECKEY"): ["10 1 2 192.0.2.38 AQNRU3mG7TVTO2BkR47usntb102uFJtugbo6BSGvgqt4AQ==", "10 3 2 mygateway.example.com. AQNRU3mG7TVTO2BkR47usntb102uFJtugbo6BSGvgqt4AQ=="],
    ("IN", "KX"): ["10 kdc.example.", "10 ."],
    ("IN", "NAPTR"): ['65535 65535 "blurgh" "blorf" "blegh" foo.', '0 0 "" "" "" .'],
    ("IN", "NSAP"): ["0x47000580005a0000000001e133ffffff00016100", "0x47000580005a0000000001e133ffffff00016101"],
    ("IN", "NSAP_PTR"): ["foo.", "."],
    ("IN", "PX"): ["65535 foo. bar.", "65535 . ."],
    ("IN", "SRV"): ["65535 65535 65535 old-slow-box.example.com.", "0 0 0 ."],
    ("IN", "SVCB"): [
        '100 foo.com. mandatory="alpn,port" alpn="h2,h3" no-default-alpn port="12345" ech="abcd" ipv4hint=1.2.3.4,4.3.2.1 ipv6hint=1::2,3::4 key12345="foo"',
        "16 foo.example.org. dohpath=/dns-query{?dns}",
    ],
    ("IN", "WKS"): ["10.0.0.1 6 0 1 2 21 23", "10.0.0.2 6 65535"],
    ("CH", "A"): ["target.example. 42", "target.example. 43"],
}


def discover():
    """Every record class module under dns/rdtypes/{ANY,IN,CH}."""
    found = []
    for pkgname in ("ANY", "IN", "CH"):
        pkg = importlib.import_module("dns.rdtypes." + pkgname)
        for m in sorted(pkgutil.iter_modules(pkg.__path__), key=lambda m: m.name):
            if not m.name.startswith("_"):
                found.append((pkgname, m.name))
    return found


def instances(pkgname, modname):
    """Fresh instances of one record class (never shared with other checks)."""
    n = dns.name.from_text
    if (pkgname, modname) == ("ANY", "OPT"):
        import dns.rdtypes.ANY.OPT as m

        return [
            m.OPT(4096, 41, [dns.edns.GenericOption(3, b"abc"), dns.edns.ECSOption("1.2.3.0", 24)]),
            m.OPT(1232, 41, ()),
        ]
    if (pkgname, modname) == ("ANY", "TKEY"):
        import dns.rdtypes.ANY.TKEY as m

        return [m.TKEY(ANY, 249, n("gss-tsig."), 1, 2, 3, 0, b"key", b""), m.TKEY(ANY, 249, n("gss-tsig."), 1, 2, 3, 0, b"key", b"other")]
    if (pkgname, modname) == ("ANY", "TSIG"):
        import dns.rdtypes.ANY.TSIG as m

        return [m.TSIG(ANY, 250, n("hmac-sha256."), 1000, 300, b"mac", 1, 0, b""), m.TSIG(ANY, 250, n("hmac-sha256."), 1001, 300, b"mac", 1, 18, b"\x00\x00\x00\x00\x03\xe8")]
    texts = SAMPLES.get((pkgname, modname))
    if texts is None:
        return None
    rdclass = CH if pkgname == "CH" else IN
    rdtype = dns.rdatatype.from_text(modname.replace("_", "-"))
    out = [dns.rdata.from_text(rdclass, rdtype, t, relativize=False) for t in texts]
    w = out[0].to_wire()
    out.append(dns.rdata.from_wire(rdclass, rdtype, w, 0, len(w)))
    return out


def special_instances():
    """Names, generic records and records of unknown type."""
    N = dns.name.Name
    return [
        ("Name(ctor)", N((b"www", b"Example", b""))),
        ("Name(relative)", N((b"www",))),
        ("Name(empty)", N(())),
        ("Name(from_text)", dns.name.from_text("Mail.Example.")),
        ("Name(from_wire)", dns.name.from_wire(b"\x03www\x07example\x00", 0)[0]),
        ("Name(concatenate)", N((b"www",)) + N((b"example", b""))),
        ("Name(relativize)", dns.name.from_text("www.example.").relativize(dns.name.from_text("example."))),
        ("Name(parent)", dns.name.from_text("www.example.").parent()),
        ("Name(canonicalize)", dns.name.from_text("WWW.example.").canonicalize()),
        ("dns.name.root", dns.name.root),
        ("dns.name.empty", dns.name.empty),
        ("GenericRdata(ctor)", dns.rdata.GenericRdata(IN, 65280, b"\x01\x02\x03")),
        ("GenericRdata(from_text)", dns.rdata.from_text(IN, 65280, "\\# 3 010203")),
        ("GenericRdata(from_wire)", dns.rdata.from_wire(IN, 65281, b"\x01\x02", 0, 2)),
    ]


_LEAF = (int, str, bytes, float, bool, enum.Enum, type(None))
_PROBE = "_c07_probe"


def _attr_names(o):
    names = []
    for k in type(o).__mro__:
        sl = getattr(k, "__slots__", ())
        if isinstance(sl, str):
            sl = (sl,)
        for s in sl:
            if s not in names and s not in ("__dict__", "__weakref__"):
                names.append(s)
    d = getattr(o, "__dict__", None)
    if isinstance(d, dict):
        for s in d:
            if s not in names:
                names.append(s)
    return names


def _different(v):
    if isinstance(v, bool):
        return not v
    if isinstance(v, int):
        return int(v) + 1
    if isinstance(v, bytes):
        return v + b"\x01"
    if isinstance(v, str):
        return v + "x"
    if isinstance(v, tuple):
        return v + (b"\x01",)
    return 12345


def try_rebind(o, label):
    """setattr / delattr / new-attribute attempts on one object; every one must be refused and
    leave the attribute as it was.  A successful attempt is undone."""
    out = []
    cname = type(o).__module__ + "." + type(o).__qualname__
    for name in _attr_names(o):
        try:
            old = getattr(o, name)
        except AttributeError:
            continue
        try:
            setattr(o, name, _different(old))
            ok = False
        except Exception:
            ok = True
        now = getattr(o, name, None)
        if not ok or now is not old:
            object.__setattr__(o, name, old)
            out.append((REBIND, f"{label}: attribute {name!r} of a {cname} was rebound by plain assignment", {"how": "setattr", "class": cname}))
            break
    for name in _attr_names(o):
        if not hasattr(o, name):
            continue
        old = getattr(o, name)
        try:
            delattr(o, name)
            ok = False
        except Exception:
            ok = True
        if not ok or not hasattr(o, name):
            object.__setattr__(o, name, old)
            out.append((REBIND, f"{label}: attribute {name!r} of a {cname} was deleted", {"how": "delattr", "class": cname}))
            break
    try:
        setattr(o, _PROBE, 1)
        ok = False
    except Exception:
        ok = True
    if not ok:
        try:
            object.__delattr__(o, _PROBE)
        except Exception:
            pass
        out.append((REBIND, f"{label}: a new attribute could be bound on a {cname}", {"how": "new attribute", "class": cname}))
    return out


def walk(v, path, out, label, probe, depth=0):
    """No reachable field value is a mutable container; nested helper objects (APL items, SVCB
    parameters, EDNS options, ...) are themselves closed to rebinding."""
    if depth > 8 or isinstance(v, _LEAF):
        return
    if isinstance(v, dns.name.Name):
        if type(v.labels) is not tuple or any(type(l) is not bytes for l in v.labels):
            out.append((FIELDS, f"{label}: {path}.labels is not a tuple of bytes", {"class": "dns.name.Name", "field": "labels", "what": "mutable container"}))
        if probe and depth > 0:
            out.extend(try_rebind(v, label + ":" + path))
        return
    if isinstance(v, (tuple, frozenset)):
        for i, e in enumerate(v):
            walk(e, f"{path}[{i}]", out, label, probe, depth + 1)
        return
    if isinstance(v, dns.immutable.Dict):
        for k in v:
            walk(k, path + ".key", out, label, probe, depth + 1)
            walk(v[k], f"{path}[{k!r}]", out, label, probe, depth + 1)
        return
    root = label.split("(")[0]
    if isinstance(v, (list, dict, set, bytearray, memoryview)):
        out.append((FIELDS, f"{label}: field {path} is a {type(v).__name__}", {"class": root, "field": path.split("[")[0], "what": "mutable container " + type(v).__name__}))
        return
    cname = type(v).__module__ + "." + type(v).__qualname__
    if depth > 0 and probe:
        r = try_rebind(v, label + ":" + path)
        if r:
            out.append(
                (
                    FIELDS,
                    f"{label}: field {path} holds a {cname} whose attributes can be rebound, so the record's value can change after construction",
                    {"class": root, "field": path.split("[")[0], "what": "mutable nested object", "nested": type(v).__module__},
                )
            )
    for s in _attr_names(v):
        if hasattr(v, s):
            walk(getattr(v, s), path + "." + s, out, label, probe, depth + 1)


def chk_instance(label, o):
    out = []
    is_rd = isinstance(o, dns.rdata.Rdata)
    try:
        before = o.to_digestable(dns.name.root) if is_rd else o.labels
        hb = hash(o)
    except Exception:
        before, hb = None, None
    out += try_rebind(o, label)
    walk(o, type(o).__name__, out, label, True)
    try:
        after = o.to_digestable(dns.name.root) if is_rd else o.labels
        ha = hash(o)
    except Exception:
        after, ha = None, None
    if before != after or hb != ha:
        out.append((REBIND, f"{label}: value changed during refused rebinding attempts", {"how": "value changed", "class": type(o).__name__}))
    return out


# --------------------------------------------------------------------------- constructor copies
def _const_cases():
    import dns.rdtypes.ANY.CERT as CERT
    import dns.rdtypes.ANY.CSYNC as CSYNC
    import dns.rdtypes.ANY.DNSKEY as DNSKEY
    import dns.rdtypes.ANY.HIP as HIP
    import dns.rdtypes.ANY.NSEC as NSEC
    import dns.rdtypes.ANY.NSEC3 as NSEC3
    import dns.rdtypes.ANY.OPT as OPT
    import dns.rdtypes.ANY.TXT as TXT
    import dns.rdtypes.IN.APL as APL
    import dns.rdtypes.IN.SVCB as SVCB
    import dns.rdtypes.svcbbase as sb

    n = dns.name.from_text

    def txt():
        l = [b"a", bytearray(b"b")]
        return TXT.TXT(IN, 16, l), lambda: (l.append(b"c"), l[1].extend(b"zz"))

    def nsec():
        w = [(0, b"\x40")]
        return NSEC.NSEC(IN, 47, n("a."), w), lambda: w.append((1, b"\x80"))

    def nsec3():
        w = [(0, b"\x40")]
        salt = bytearray(b"\xaa\xbb")
        nxt = bytearray(b"\x01" * 20)
        return NSEC3.NSEC3(IN, 50, 1, 0, 1, salt, nxt, w), lambda: (w.append((1, b"\x80")), salt.extend(b"\x00"), nxt.extend(b"\x00"))

    def csync():
        w = [(0, b"\x40")]
        return CSYNC.CSYNC(IN, 62, 1, 0, w), lambda: w.append((1, b"\x80"))

    def hip():
        srv = [n("a."), n("b.")]
        key = bytearray(b"key")
        return HIP.HIP(IN, 55, b"\x01\x02", 2, key, srv), lambda: (srv.append(n("c.")), key.extend(b"x"))

    def apl():
        items = [APL.APLItem(1, False, "192.168.32.0", 21)]
        return APL.APL(IN, 42, items), lambda: items.append(APL.APLItem(1, True, "10.0.0.0", 8))

    def svcb():
        ids = [b"h2"]
        params = {1: sb.ALPNParam(ids), 3: sb.PortParam(80)}
        return SVCB.SVCB(IN, 64, 1, n("a."), params), lambda: (params.pop(3), ids.append(b"h3"))

    def opt():
        opts = [dns.edns.GenericOption(3, b"abc")]
        return OPT.OPT(4096, 41, opts), lambda: opts.append(dns.edns.GenericOption(4, b"z"))

    def cert():
        c = bytearray(b"cert")
        return CERT.CERT(IN, 37, 1, 2, 8, c), lambda: c.extend(b"x")

    def dnskey():
        k = bytearray(b"key")
        return DNSKEY.DNSKEY(IN, 48, 256, 3, 8, k), lambda: k.extend(b"x")

    def name():
        l = [b"www", b"example", b""]
        return dns.name.Name(l), lambda: l.insert(0, b"x")

    return {"TXT": txt, "NSEC": nsec, "NSEC3": nsec3, "CSYNC": csync, "HIP": hip, "APL": apl, "SVCB": svcb, "OPT": opt, "CERT": cert, "DNSKEY": dnskey, "Name": name}


CONST_CASES = ["TXT", "NSEC", "NSEC3", "CSYNC", "HIP", "APL", "SVCB", "OPT", "CERT", "DNSKEY", "Name"]


def chk_const(case):
    """Build from the caller's list / dict / bytearray (each a documented, type-conforming
    argument), then mutate the caller's container: the value must not move and no field may be
    a mutable container."""
    o, mutate = _const_cases()[case]()
    is_rd = isinstance(o, dns.rdata.Rdata)
    before = o.to_digestable() if is_rd else o.labels
    hb = hash(o)
    mutate()
    after = o.to_digestable() if is_rd else o.labels
    out = []
    if before != after or hash(o) != hb:
        out.append((CONST, f"{case}: the value changed when the caller's container was mutated after construction", {"class": case, "what": "caller's container retained"}))
    w = []
    walk(o, case, w, case + "(from mutable arguments)", False)
    out += [(CONST, what, dict(sig, via="constructor")) for (_c, what, sig) in w]
    return out


# --------------------------------------------------------------------------- init context
def chk_context(which):
    out = []
    if which == "failed_init":
        import dns.rdtypes.IN.A as A

        victim = A.A(IN, 1, "1.2.3.4")
        for bad in ("bad", 5, None):
            try:
                A.A(IN, 1, bad)
            except Exception:
                pass
        try:
            dns.name.Name((b"a" * 64, b""))
        except Exception:
            pass
        out += [(CTX, w, dict(s, after="failed constructor")) for (_c, w, s) in try_rebind(victim, "A after a failed constructor")]
        nm = dns.name.Name((b"x", b""))
        out += [(CTX, w, dict(s, after="failed constructor")) for (_c, w, s) in try_rebind(nm, "Name after a failed constructor")]
    elif which == "nested_init":
        seen = {}

        @dns.immutable.immutable
        class Outer:
            __slots__ = ("inner", "leak", "x")

            def __init__(self, other):
                self.inner = dns.name.Name((b"a", b""))
                leak = []
                for victim in (self.inner, other):
                    try:
                        victim.labels = (b"evil", b"")
                        leak.append(True)
                        object.__setattr__(victim, "labels", (b"a", b""))
                    except Exception:
                        leak.append(False)
                self.leak = tuple(leak)
                self.x = 1

        other = dns.name.Name((b"a", b""))
        try:
            o = Outer(other)
        except Exception as e:
            return [(CTX, f"an immutable class whose __init__ builds a Name could not finish its own construction: {type(e).__name__}: {e}", {"what": "outer context not restored after nested constructor"})]
        if o.leak[0]:
            out.append((CTX, "a finished Name could be rebound inside another object's constructor", {"what": "nested object mutable during outer constructor"}))
        if o.leak[1]:
            out.append((CTX, "an unrelated Name could be rebound while another immutable object was under construction", {"what": "foreign object mutable during a constructor"}))
        out += [(CTX, w, dict(s, after="nested constructor")) for (_c, w, s) in try_rebind(o, "object built with a nested constructor")]
        out += [(CTX, w, dict(s, after="nested constructor")) for (_c, w, s) in try_rebind(other, "Name after nested constructor")]
        del seen
    elif which == "str_name_ctor":
        # constructors that parse a str into a Name run a nested constructor
        import dns.rdtypes.ANY.MX as MX

        try:
            m = MX.MX(IN, 15, 10, "Mail.Example.")
        except Exception as e:
            return [(CTX, f"MX(…, 'Mail.Example.') failed: {type(e).__name__}: {e}", {"what": "outer context not restored after nested constructor"})]
        out += [(CTX, w, dict(s, after="nested constructor")) for (_c, w, s) in try_rebind(m, "MX built from a str name")]
        out += [(CTX, w, dict(s, after="nested constructor")) for (_c, w, s) in try_rebind(m.exchange, "MX.exchange built from a str name")]
    elif which == "replace":
        import dns.rdtypes.ANY.MX as MX

        m = MX.MX(IN, 15, 10, dns.name.from_text("mail.example."))
        d = m.to_digestable()
        m2 = m.replace(preference=20)
        if m.to_digestable() != d or m.preference != 10:
            out.append((REBIND, "Rdata.replace changed the original record", {"how": "replace", "class": "MX"}))
        if m2 is m or m2.preference != 20:
            out.append((REBIND, "Rdata.replace did not return a new record with the new field", {"how": "replace result", "class": "MX"}))
    elif which == "immutable_rdataset":
        src = dns.rdataset.from_text("IN", "MX", 300, "10 a.", "20 b.")
        im = dns.rdataset.ImmutableRdataset(src)
        snapshot = list(im)
        for (_c, w, s) in try_rebind(im, "ImmutableRdataset"):
            out.append((IMMSET, w, s))
        src.add(dns.rdata.from_text(IN, 15, "30 c."), 5)
        src.discard(snapshot[0])
        if list(im) != snapshot or im.ttl != 300:
            out.append((IMMSET, "an ImmutableRdataset changed when its source rdataset was modified", {"impl": "ImmutableRdataset", "op": "construct", "what": "shares state with source"}))
    return out


CONTEXT_CASES = ["failed_init", "nested_init", "str_name_ctor", "replace", "immutable_rdataset"]
