"""C07 record clauses: equality / hash / ordering of Rdata against the independent canonical
form of bounded._c07_model.  Every check returns a list of (clause, what, sig)."""

from __future__ import annotations

import bounded._c07_model as M

EQ = "C07.rdata_eq_canonical"
HASH = "C07.rdata_hash_consistent"
ORDER = "C07.rdata_order_canonical"
SORT = "C07.rdata_sorted_canonical"


class Entry:
    __slots__ = ("spec", "route", "obj", "key", "fold", "rel", "canon", "hash", "herr", "claim")

    def __init__(self, spec, route):
        self.spec = spec
        self.route = route
        self.obj = M.build(spec, route)
        self.key = M.spec_key(spec)
        self.fold = M.spec_casefold_key(spec)
        self.rel = self.key[2]
        self.canon = self.key[3]
        self.claim = True
        try:
            self.hash = hash(self.obj)
            self.herr = None
        except Exception as e:  # reported by the hash clause
            self.hash = None
            self.herr = repr(e)

    def desc(self):
        return {"spec": self.spec, "route": self.route}


def entry_from(desc):
    return Entry(desc["spec"], desc["route"])


def _cls(e):
    return f"{e.spec['t']}/class{e.spec['c']}"


def _pairclass(a, b):
    """Stable description of the kind of pair (used in sig)."""
    if a.spec["c"] != b.spec["c"]:
        return "different class"
    if a.spec["t"] != b.spec["t"]:
        return "different type"
    if a.key == b.key:
        if a.spec["f"] == b.spec["f"]:
            return "same fields"
        return "fields differ only in the case of a canonically lower-cased name"
    return "different canonical octets"


def chk_pair(a: Entry, b: Entry, full: bool = True):
    """Equality, inequality, hash and (for absolute records of one class and type) the four
    ordering operators of the ordered pair (a, b)."""
    out = []
    same_ct = a.spec["c"] == b.spec["c"] and a.spec["t"] == b.spec["t"]
    claim = True
    if same_ct and a.rel != b.rel:
        claim = False  # the text is silent on relative against absolute
    if same_ct and a.key != b.key and a.fold == b.fold:
        # differ only in the case of a name that the canonical form preserves (NSEC)
        claim = False
    if same_ct and a.key == b.key and a.spec["f"] != b.spec["f"] and a.spec["t"] not in M.CASE_CLAIM:
        claim = False
    expected = a.key == b.key
    try:
        eq = a.obj == b.obj
        ne = a.obj != b.obj
    except Exception as e:
        return [(EQ, f"== raised {type(e).__name__} for {_cls(a)} vs {_cls(b)}", {"site": "dns.rdata.Rdata.__eq__", "exc": type(e).__name__, "type": a.spec["t"]})], claim
    if claim and bool(eq) != expected:
        out.append(
            (
                EQ,
                f"{_cls(a)} == {_cls(b)} is {eq}, canonical-form oracle says {expected} ({_pairclass(a, b)})",
                {"site": "dns.rdata.Rdata.__eq__", "got": bool(eq), "pair": _pairclass(a, b), "relative": a.rel, "type": a.spec["t"] if same_ct else "cross"},
            )
        )
    if bool(ne) == bool(eq):
        out.append((EQ, f"!= is not the negation of == for {_cls(a)} vs {_cls(b)}", {"site": "dns.rdata.Rdata.__ne__", "pair": _pairclass(a, b)}))
    if a.herr or b.herr:
        out.append((HASH, f"hash raised {a.herr or b.herr}", {"site": "dns.rdata.Rdata.__hash__", "exc": (a.herr or b.herr).split("(")[0], "type": a.spec["t"]}))
    elif (eq or (claim and expected)) and a.hash != b.hash:
        out.append(
            (
                HASH,
                f"equal records of {_cls(a)} hash differently ({_pairclass(a, b)})",
                {"site": "dns.rdata.Rdata.__hash__", "pair": _pairclass(a, b), "relative": a.rel, "type": a.spec["t"]},
            )
        )
    if same_ct and not a.rel and not b.rel:
        ca, cb = a.canon, b.canon
        ops = (("<", ca < cb), ("<=", ca <= cb), (">", ca > cb), (">=", ca >= cb))
        if not full:
            ops = ops[:1] + ops[3:]
        for sym, exp in ops:
            try:
                if sym == "<":
                    got = a.obj < b.obj
                elif sym == "<=":
                    got = a.obj <= b.obj
                elif sym == ">":
                    got = a.obj > b.obj
                else:
                    got = a.obj >= b.obj
            except Exception as e:
                out.append((ORDER, f"{sym} raised {type(e).__name__} on absolute {_cls(a)}", {"site": "dns.rdata.Rdata._cmp", "exc": type(e).__name__, "type": a.spec["t"]}))
                break
            if claim_order(a, b) and bool(got) != exp:
                rel = "equal" if ca == cb else ("less" if ca < cb else "greater")
                out.append(
                    (
                        ORDER,
                        f"{_cls(a)}: a {sym} b is {got} but canonical RDATA octets of a are {rel} ({ca.hex()} vs {cb.hex()})",
                        {"site": "dns.rdata.Rdata._cmp", "op": sym, "octets": rel, "type": a.spec["t"]},
                    )
                )
    return out, claim


def claim_order(a, b):
    # the same exclusions as for equality: no claim on case variants of names whose canonical
    # treatment the property text does not settle
    if a.key != b.key and a.fold == b.fold:
        return False
    if a.key == b.key and a.spec["f"] != b.spec["f"] and a.spec["t"] not in M.CASE_CLAIM:
        return False
    return True


def chk_sorted(entries):
    """sorted() of absolute records of one class/type is the octet-lexicographic order of the
    model's canonical RDATA."""
    es = [e for e in entries if not e.rel]
    if a_no_claim_group(es):
        return []
    try:
        got = [e.canon for e in sorted((e for e in es), key=_K)]
    except Exception as e:
        return [(SORT, f"sorted raised {type(e).__name__}", {"site": "dns.rdata.Rdata._cmp", "exc": type(e).__name__})]
    exp = sorted(e.canon for e in es)
    if got != exp:
        return [(SORT, f"sorted() of {len(es)} {_cls(es[0])} records is not canonical octet order", {"site": "dns.rdata.Rdata._cmp", "type": es[0].spec["t"], "what": "sorted"})]
    return []


def a_no_claim_group(es):
    return len(es) < 2 or es[0].spec["t"] == "NSEC"


class _K:
    """sort key that uses the record's own __lt__ only"""

    __slots__ = ("e",)

    def __init__(self, e):
        self.e = e

    def __lt__(self, other):
        return self.e.obj < other.e.obj
