"""Bounded stand-in for C14 -- TSIG MACs follow RFC 8945; genuine messages verify,
altered ones never do.

The oracle (section "reference") is an independent implementation of RFC 8945
section 4.3 / 5.3.1 over ``hmac``/``hashlib`` and an independent DNS wire walker /
TSIG RR codec; it never calls into ``dns.tsig``.  The code under test is reached
through ``dns.tsig.sign`` / ``dns.tsig.validate``, ``Message.use_tsig`` +
``Message.to_wire``, ``dns.message.make_response``, ``Renderer.add_tsig`` /
``add_multi_tsig`` and ``dns.message.from_wire`` (all keyring forms).

The only shim is the clock: ``dns.message.time`` / ``dns.renderer.time`` are replaced by a
fake clock object while a case runs (both modules only call ``time.time()``).
"""

from __future__ import annotations

import contextlib
import hashlib
import hmac as _hmac
import struct

import dns.exception
import dns.flags
import dns.message
import dns.name
import dns.rdataclass
import dns.rdatatype
import dns.rdtypes.ANY.TSIG
import dns.renderer
import dns.rrset
import dns.tsig

BOUNDS = (
    "All 9 HMAC TSIG algorithms (md5, sha1, sha224, sha256, sha384, sha512 and the fixed "
    "truncations sha256-128, sha384-192, sha512-256) in every clause. Exhaustive parts: every "
    "single-bit flip of whole signed messages of ~110-260 octets (quick: 1 request + 1 response + 1 "
    "padded/compressed-key-name/other-data message per algorithm; thorough: 7 messages per algorithm), every unsigned subset of the intermediate envelopes of "
    "multi-message exchanges of 2..5 (quick) / 2..7 (thorough) envelopes, the time window at offsets "
    "{-(f+1),-f,-1,0,1,f,f+1} for fudge f in {0,1,2,300,65535} with 32- and 48-bit signing times, "
    "TSIG error codes 1..4095 (quick: 1..64 + specials), every MAC truncation length below max(10, half), "
    "every TSIG position other than last in ANSWER/AUTHORITY/ADDITIONAL for 0..3 additional records. "
    "Seeded parts: message bodies (library-rendered with compression, EDNS, padding; and independently "
    "encoded), key names with case mix and odd octets, secrets of 1..200 octets, other-data, original ids; "
    "quick 150 / thorough 1500 seeds per algorithm for direct sign, 20 / 120 for the message flows. "
    "GSS-TSIG is out of scope (no gssapi). HMAC itself is trusted (A-crypto). The TTL field of the "
    "TSIG RR is treated as not authenticated (the library digests the constant 0 and ignores the "
    "received TTL, as the DESIGN oracle does); the message ID is not authenticated (original id is)."
)

# --------------------------------------------------------------------------- reference

_ALGS = {
    # canonical (lower-case) label tuple -> (hashlib name, truncation in octets or None)
    (b"hmac-md5", b"sig-alg", b"reg", b"int"): ("md5", None),
    (b"hmac-sha1",): ("sha1", None),
    (b"hmac-sha224",): ("sha224", None),
    (b"hmac-sha256",): ("sha256", None),
    (b"hmac-sha256-128",): ("sha256", 16),
    (b"hmac-sha384",): ("sha384", None),
    (b"hmac-sha384-192",): ("sha384", 24),
    (b"hmac-sha512",): ("sha512", None),
    (b"hmac-sha512-256",): ("sha512", 32),
}
ALG_LIST = sorted(_ALGS)
_UPPER = bytes(range(0x41, 0x5B))
_LOWER = bytes(range(0x61, 0x7B))
_TR = bytes.maketrans(_UPPER, _LOWER)


def lower_labels(labels):
    return tuple(bytes(l).translate(_TR) for l in labels)


def wire_name(labels):
    out = bytearray()
    for l in labels:
        out.append(len(l))
        out += l
    out.append(0)
    return bytes(out)


def canon_name(labels):
    return wire_name(lower_labels(labels))


def u48(t):
    return struct.pack("!HI", (t >> 32) & 0xFFFF, t & 0xFFFFFFFF)


def ref_mac(alg, secret, data):
    hname, trunc = _ALGS[lower_labels(alg)]
    d = _hmac.new(secret, data, getattr(hashlib, hname)).digest()
    return d[:trunc] if trunc else d


def ref_mac_len(alg):
    hname, trunc = _ALGS[lower_labels(alg)]
    return trunc if trunc else hashlib.new(hname).digest_size


def digest_first(request_mac, orig_id, body, keyname, alg, t, fudge, error, other):
    d = b""
    if request_mac:
        d += struct.pack("!H", len(request_mac)) + request_mac
    d += struct.pack("!H", orig_id) + body[2:]
    d += canon_name(keyname) + struct.pack("!HI", 255, 0)
    d += canon_name(alg) + u48(t) + struct.pack("!H", fudge)
    d += struct.pack("!HH", error, len(other)) + other
    return d


def digest_later(prior_mac, unsigned, orig_id, body, t, fudge):
    d = struct.pack("!H", len(prior_mac)) + prior_mac
    for w in unsigned:
        d += w
    d += struct.pack("!H", orig_id) + body[2:]
    d += u48(t) + struct.pack("!H", fudge)
    return d


def tsig_rdata(alg, t, fudge, mac, orig_id, error, other):
    return (
        wire_name(alg)
        + u48(t)
        + struct.pack("!HH", fudge, len(mac))
        + mac
        + struct.pack("!HHH", orig_id, error, len(other))
        + other
    )


def tsig_rr(keyname, alg, t, fudge, mac, orig_id, error, other, rdclass=255, ttl=0):
    rd = tsig_rdata(alg, t, fudge, mac, orig_id, error, other)
    return wire_name(keyname) + struct.pack("!HHIH", 250, rdclass, ttl, len(rd)) + rd


def bump_ar(w, delta):
    (ar,) = struct.unpack("!H", w[10:12])
    return w[:10] + struct.pack("!H", ar + delta) + w[12:]


def ref_sign_first(body, key, t, fudge, orig_id=None, error=0, other=b"", request_mac=b""):
    """body: complete unsigned message. Returns (signed wire, mac)."""
    if orig_id is None:
        (orig_id,) = struct.unpack("!H", body[:2])
    mac = ref_mac(
        key["alg"],
        key["secret"],
        digest_first(request_mac, orig_id, body, key["name"], key["alg"], t, fudge, error, other),
    )
    rr = tsig_rr(key["name"], key["alg"], t, fudge, mac, orig_id, error, other)
    return bump_ar(body, 1) + rr, mac


def ref_sign_later(body, key, t, fudge, prior_mac, unsigned):
    (orig_id,) = struct.unpack("!H", body[:2])
    mac = ref_mac(key["alg"], key["secret"], digest_later(prior_mac, unsigned, orig_id, body, t, fudge))
    rr = tsig_rr(key["name"], key["alg"], t, fudge, mac, orig_id, 0, b"")
    return bump_ar(body, 1) + rr, mac


class WireError(Exception):
    pass


def _read_name(w, off):
    """Independent name decoder (follows pointers). Returns (labels, next offset)."""
    labels = []
    nxt = None
    hops = 0
    while True:
        if off >= len(w):
            raise WireError("name past end")
        l = w[off]
        if l == 0:
            off += 1
            break
        if l & 0xC0 == 0xC0:
            if off + 1 >= len(w):
                raise WireError("pointer past end")
            ptr = ((l & 0x3F) << 8) | w[off + 1]
            if nxt is None:
                nxt = off + 2
            hops += 1
            if hops > 64 or ptr >= off:
                raise WireError("bad pointer")
            off = ptr
            continue
        if l & 0xC0:
            raise WireError("bad label type")
        if off + 1 + l > len(w):
            raise WireError("label past end")
        labels.append(bytes(w[off + 1 : off + 1 + l]))
        off += 1 + l
    if sum(len(x) + 1 for x in labels) + 1 > 255:
        raise WireError("name too long")
    return tuple(labels), (nxt if nxt is not None else off)


def walk(w):
    """Independent message walker: returns (counts, [rr dicts]) or raises WireError."""
    if len(w) < 12:
        raise WireError("short")
    _id, _fl, qd, an, ns, ar = struct.unpack("!HHHHHH", w[:12])
    off = 12
    for _ in range(qd):
        _, off = _read_name(w, off)
        off += 4
        if off > len(w):
            raise WireError("question past end")
    rrs = []
    for sec, cnt in ((1, an), (2, ns), (3, ar)):
        for i in range(cnt):
            start = off
            owner, off = _read_name(w, off)
            if off + 10 > len(w):
                raise WireError("rr header past end")
            t, c, ttl, rdlen = struct.unpack("!HHIH", w[off : off + 10])
            off += 10
            if off + rdlen > len(w):
                raise WireError("rdata past end")
            rrs.append(
                {"sec": sec, "idx": i, "cnt": cnt, "start": start, "owner": owner, "type": t,
                 "class": c, "ttl": ttl, "rd": off, "rdlen": rdlen}
            )
            off += rdlen
    if off != len(w):
        raise WireError("trailing junk")
    return (qd, an, ns, ar), rrs


def parse_tsig(w, rr):
    off, end = rr["rd"], rr["rd"] + rr["rdlen"]
    alg, off = _read_name(w, off)
    if off + 10 > end:
        raise WireError("tsig short")
    hi, lo, fudge, maclen = struct.unpack("!HIHH", w[off : off + 10])
    off += 10
    if off + maclen + 6 > end:
        raise WireError("tsig short")
    mac = bytes(w[off : off + maclen])
    off += maclen
    oid, err, olen = struct.unpack("!HHH", w[off : off + 6])
    off += 6
    if off + olen != end:
        raise WireError("tsig other length")
    return {"alg": alg, "time": (hi << 32) | lo, "fudge": fudge, "mac": mac, "orig_id": oid,
            "error": err, "other": bytes(w[off:end])}


def split_signed(w):
    """Returns (body with TSIG removed and ARCOUNT decremented, owner labels, tsig fields, rr)
    for a message whose last record is a TSIG in ADDITIONAL; WireError otherwise."""
    counts, rrs = walk(w)
    if not rrs or rrs[-1]["type"] != 250 or rrs[-1]["sec"] != 3:
        raise WireError("last record is not a TSIG in ADDITIONAL")
    for r in rrs[:-1]:
        if r["type"] == 250:
            raise WireError("TSIG not last")
    rr = rrs[-1]
    f = parse_tsig(w, rr)
    body = bump_ar(w[: rr["start"]], -1)
    return body, rr["owner"], f, rr


def auth_view(w):
    """What RFC 8945 authenticates of a complete signed message, as a comparable value
    (None when the message is not a well-formed message ending in a class-ANY TSIG)."""
    try:
        body, owner, f, rr = split_signed(w)
    except (WireError, struct.error, IndexError):
        return None
    if rr["class"] != 255:
        return None
    return (body[2:], lower_labels(owner), lower_labels(f["alg"]), f["time"], f["fudge"], f["mac"],
            f["orig_id"], f["error"], f["other"])


# own, compression-free encoder for bodies whose layout must be fully controlled
def enc_rr(owner, rtype, rclass, ttl, rdata):
    return wire_name(owner) + struct.pack("!HHIH", rtype, rclass, ttl, len(rdata)) + rdata


def enc_msg(mid, flags, question, an, ns, ar):
    w = struct.pack("!HHHHHH", mid, flags, len(question), len(an), len(ns), len(ar))
    for qn, qt, qc in question:
        w += wire_name(qn) + struct.pack("!HH", qt, qc)
    for rr in list(an) + list(ns) + list(ar):
        w += rr
    return w


# --------------------------------------------------------------------------- library glue


class _Clock:
    def __init__(self, now):
        self.now = now

    def time(self):
        return self.now


@contextlib.contextmanager
def fake_clock(now):
    saved = (dns.message.time, dns.renderer.time)
    clk = _Clock(now)
    dns.message.time = clk
    dns.renderer.time = clk
    try:
        yield clk
    finally:
        dns.message.time, dns.renderer.time = saved


def lib_name(labels):
    return dns.name.Name(tuple(labels) + (b"",))


def lib_key(key):
    return dns.tsig.Key(lib_name(key["name"]), key["secret"], lib_name(key["alg"]))


def lib_keyring(key, form):
    k = lib_key(key)
    if form == "key":
        return k
    if form == "dict_key":
        return {k.name: k}
    if form == "dict_bytes":
        return {k.name: key["secret"]}
    if form == "callable":
        return lambda message, name: k if name == k.name else None
    raise ValueError(form)


def verify(wire, keyring, now, request_mac=b"", multi=False, ctx=None):
    """Returns (outcome, message or None, exception or None).  outcome: 'verified' (parsed, TSIG
    present and validated), 'unsigned' (parsed, no TSIG seen), or 'rejected'."""
    with fake_clock(now):
        try:
            m = dns.message.from_wire(wire, keyring=keyring, request_mac=request_mac, multi=multi, tsig_ctx=ctx)
        except Exception as e:  # any exception is a rejection; its class is recorded
            return "rejected", None, e
    return ("verified" if m.had_tsig else "unsigned"), m, None


def _exc(e):
    return type(e).__name__ if e is not None else None


class LibRaised(Exception):
    """The library raised on an input that is valid by construction (a verdict, not a harness error)."""

    def __init__(self, site, exc):
        super().__init__(f"{site} raises {type(exc).__name__}: {exc}")
        self.site = site
        self.exc = exc


def _lib(site, fn, *a, **k):
    try:
        return fn(*a, **k)
    except Exception as e:
        raise LibRaised(site, e)


# --------------------------------------------------------------------------- checks
# Every check takes one JSON-able case dict and returns a list of
# (clause, what, sig) failures; run() counts and reports, replay() re-runs it.


def chk_sign_direct(c):
    """dns.tsig.sign / validate against the reference for one (body, key, fields)."""
    out = []
    key = c["key"]
    k = lib_key(key)
    tmpl = dns.rdtypes.ANY.TSIG.TSIG(
        dns.rdataclass.ANY, dns.rdatatype.TSIG, k.algorithm, 0, c["fudge"], b"", c["orig_id"], c["error"], c["other"]
    )
    body = c["body"]
    rmac = c["request_mac"]
    tsig, ctx = _lib("dns.tsig.sign", dns.tsig.sign, body, k, tmpl, c["time"], rmac)
    want = ref_mac(key["alg"], key["secret"],
                   digest_first(rmac, c["orig_id"], body, key["name"], key["alg"], c["time"], c["fudge"],
                                c["error"], c["other"]))
    kind = "response" if rmac else "request"
    algt = b".".join(lower_labels(key["alg"])).decode()
    if tsig.mac != want:
        out.append(("C14.mac_rfc8945", f"dns.tsig.sign MAC differs from RFC 8945 HMAC ({algt}, {kind})",
                    {"site": "dns.tsig.sign", "what": "mac", "kind": kind,
                     "len_ok": len(tsig.mac) == len(want)}))
    if (tsig.time_signed, tsig.fudge, tsig.original_id, int(tsig.error), tsig.other) != (
        c["time"], c["fudge"], c["orig_id"], c["error"], c["other"]) or tsig.algorithm != k.algorithm:
        out.append(("C14.mac_rfc8945", "signed TSIG rdata fields differ from the signing parameters",
                    {"site": "dns.tsig.sign", "what": "fields"}))
    if ctx is not None:
        out.append(("C14.mac_rfc8945", "non-multi sign returned a running context",
                    {"site": "dns.tsig.sign", "what": "ctx"}))
    # the library's own validate must accept what it signed (same key), at time == time signed
    if c["error"] == 0:
        wire = bump_ar(body, 1) + tsig_rr(key["name"], key["alg"], c["time"], c["fudge"], tsig.mac, c["orig_id"],
                                          c["error"], c["other"])
        try:
            dns.tsig.validate(wire, k, k.name, tsig, c["time"], rmac, len(body))
        except Exception as e:
            out.append(("C14.genuine_validates", f"dns.tsig.validate rejects what dns.tsig.sign produced: {_exc(e)}",
                        {"site": "dns.tsig.validate", "what": "own signature", "exc": _exc(e), "kind": kind}))
    return out


def _build_message(c):
    m = dns.message.from_wire(c["body"])
    if c.get("edns"):
        m.use_edns(0, payload=1232, pad=c.get("pad", 0))
    return m


def chk_message_flow(c):
    """Message.use_tsig/to_wire (or Renderer.add_tsig): placement, fields, MAC, and the
    signed message validates under the same key at every offset inside the fudge window."""
    out = []
    key = c["key"]
    algt = b".".join(lower_labels(key["alg"])).decode()
    kr = lib_keyring(key, c["form"])
    now = c["now"]
    request_mac = b""
    site = "Message.to_wire"
    if c["via"] == "renderer":
        site = "Renderer.add_tsig"
        body = c["body"]
        (mid, flags) = struct.unpack("!HH", body[:4])
        src = dns.message.from_wire(body)
        r = dns.renderer.Renderer(mid, flags, 65535)
        for q in src.question:
            r.add_question(q.name, q.rdtype, q.rdclass)
        for sec, rrsets in ((1, src.answer), (2, src.authority), (3, src.additional)):
            for rrset in rrsets:
                r.add_rrset(sec, rrset)
        r.write_header()
        request_mac = c.get("request_mac", b"")
        with fake_clock(now):
            k = lib_key(key)
            _lib("Renderer.add_tsig", r.add_tsig, k.name, k, c["fudge"], c["orig_id"] if c["orig_id"] is not None else mid, 0,
                 c["other"], request_mac, k.algorithm)
        wire = r.get_wire()
        expect_id = c["orig_id"] if c["orig_id"] is not None else mid
    else:
        if c["via"] == "response":
            site = "make_response+to_wire"
            # a signed query, parsed by the "server", answered with make_response
            q = _build_message(c)
            q.flags &= ~dns.flags.QR
            q.use_tsig(kr if c["form"] != "callable" else lib_key(key),
                       None if c["form"] in ("key", "callable") else lib_name(key["name"]),
                       algorithm=lib_name(key["alg"]))
            with fake_clock(now):
                qw = _lib("Message.to_wire", q.to_wire)
            o, qm, e = verify(qw, kr, now)
            if o != "verified":
                out.append(("C14.genuine_validates", f"signed query does not validate under its own key: {_exc(e) or o}",
                            {"site": "Message.to_wire->from_wire", "what": "query", "exc": _exc(e)}))
                return out
            request_mac = qm.mac
            m = _lib("dns.message.make_response", dns.message.make_response, qm, fudge=c["fudge"])
            for rrset in _build_message(c).answer:
                m.answer.append(rrset)
        else:
            m = _build_message(c)
            kw = {}
            if c["orig_id"] is not None:
                kw["original_id"] = c["orig_id"]
            if c["form"] in ("key", "callable"):
                m.use_tsig(lib_key(key), fudge=c["fudge"], other_data=c["other"], **kw)
            else:
                m.use_tsig(kr, lib_name(key["name"]), fudge=c["fudge"], other_data=c["other"],
                           algorithm=lib_name(key["alg"]), **kw)
        with fake_clock(now):
            wire = _lib("Message.to_wire", m.to_wire)
        expect_id = m.id if (c["via"] == "response" or c["orig_id"] is None) else c["orig_id"]
    # ---- independent look at what was rendered
    try:
        body, owner, f, rr = split_signed(wire)
    except WireError as e:
        out.append(("C14.signed_wire", f"rendered signed message: {e}",
                    {"site": site, "what": "tsig not last / malformed", "detail": str(e)}))
        return out
    bad = []
    if rr["class"] != 255:
        bad.append("class")
    if lower_labels(owner) != lower_labels(key["name"]):
        bad.append("owner")
    if lower_labels(f["alg"]) != lower_labels(key["alg"]):
        bad.append("algorithm")
    if f["time"] != now:
        bad.append("time")
    if f["fudge"] != c["fudge"]:
        bad.append("fudge")
    if f["orig_id"] != expect_id:
        bad.append("orig_id")
    if f["error"] != 0:
        bad.append("error")
    want_other = b"" if c["via"] == "response" else c["other"]
    if f["other"] != want_other:
        bad.append("other")
    if bad:
        out.append(("C14.signed_wire", f"TSIG RR fields wrong in rendered message: {bad}",
                    {"site": site, "what": "fields", "fields": ",".join(bad)}))
    want = ref_mac(key["alg"], key["secret"],
                   digest_first(request_mac, f["orig_id"], body, key["name"], key["alg"], f["time"], f["fudge"],
                                f["error"], f["other"]))
    kind = "response" if request_mac else "request"
    if f["mac"] != want:
        out.append(("C14.mac_rfc8945", f"MAC in rendered message differs from RFC 8945 HMAC ({algt}, {kind})",
                    {"site": site, "what": "mac", "kind": kind, "len_ok": len(f["mac"]) == len(want)}))
    # ---- same key validates, inside the window only
    for d in c["offsets"]:
        o, m2, e = verify(wire, kr, now + d, request_mac)
        inside = abs(d) <= c["fudge"]
        if inside and o != "verified":
            out.append(("C14.genuine_validates",
                        f"message signed by the library does not validate under the same key ({kind}, "
                        f"offset {d}, fudge {c['fudge']}): {_exc(e) or o}",
                        {"site": site + "->from_wire", "what": "genuine rejected", "exc": _exc(e), "kind": kind,
                         "edge": abs(d) == c["fudge"]}))
        if not inside and o == "verified":
            out.append(("C14.reject_time", f"validates although |now - time signed| = {abs(d)} > fudge {c['fudge']}",
                        {"site": "dns.tsig.validate", "what": "time outside fudge accepted",
                         "edge": abs(d) == c["fudge"] + 1}))
        if inside and o == "verified" and m2.mac != f["mac"]:
            out.append(("C14.genuine_validates", "validated message reports a different MAC",
                        {"site": "dns.message.from_wire", "what": "mac attribute"}))
    return out


def chk_oracle_signed(c):
    """A message signed by the reference; one variant of validation with a stated expectation."""
    out = []
    key = c["key"]
    wire = c["wire"]
    vkey = c.get("vkey", key)
    kr = None if c["form"] == "none" else (False if c["form"] == "false" else lib_keyring(vkey, c["form"]))
    o, m, e = verify(wire, kr, c["now"], c.get("request_mac", b""))
    exp = c["expect"]
    variant = c["variant"]
    if exp == "verified" and o != "verified":
        out.append((c["clause"], f"RFC 8945-signed message ({variant}) is not accepted: {_exc(e) or o}",
                    {"site": "dns.message.from_wire", "variant": variant, "what": "genuine rejected", "exc": _exc(e)}))
    elif exp == "reject" and o == "verified":
        out.append((c["clause"], f"message validates although {variant}",
                    {"site": "dns.tsig.validate", "variant": variant, "what": "accepted"}))
    elif exp == "formerr":
        if o != "rejected" or not isinstance(e, dns.exception.FormError):
            out.append((c["clause"], f"TSIG record not last ({variant}): expected a FormError, got {_exc(e) or o}",
                        {"site": "dns.message.from_wire", "variant": variant.split(":")[0], "what": "not a FormError",
                         "got": _exc(e) or o}))
    return out


def chk_bitflip(c):
    """Flip one bit of a signed message."""
    out = []
    wire = c["wire"]
    bit = c["bit"]
    w2 = bytearray(wire)
    w2[bit >> 3] ^= 0x80 >> (bit & 7)
    w2 = bytes(w2)
    a0, a1 = auth_view(wire), auth_view(w2)
    if a0 is None:
        raise RuntimeError("harness: original not decodable")
    equivalent = a1 == a0  # only the message id, letter case of key/algorithm name, or the TSIG TTL changed
    kr = lib_keyring(c["key"], c["form"])
    o, m, e = verify(w2, kr, c["now"], c.get("request_mac", b""))
    if not equivalent and o == "verified":
        where = "tsig_rr" if (bit >> 3) >= c["tsig_start"] else ("header" if (bit >> 3) < 12 else "body")
        out.append(("C14.reject_bitflip", f"message with bit {bit} (octet {bit >> 3}, {where}) flipped still validates",
                    {"site": "dns.tsig.validate", "what": "altered message accepted", "where": where}))
    return out, equivalent


def _multi_sign_lib(c):
    """Drive the library as a sender of a multi-message exchange.  Returns [(wire, signed)]."""
    key = c["key"]
    k = lib_key(key)
    ctx = None
    wires = []
    for i, body in enumerate(c["bodies"]):
        m = dns.message.from_wire(body)
        if c["mask"][i]:
            if c["via"] == "renderer":
                (mid, flags) = struct.unpack("!HH", body[:4])
                r = dns.renderer.Renderer(mid, flags, 65535)
                for q in m.question:
                    r.add_question(q.name, q.rdtype, q.rdclass)
                for sec, rrsets in ((1, m.answer), (2, m.authority), (3, m.additional)):
                    for rrset in rrsets:
                        r.add_rrset(sec, rrset)
                r.write_header()
                with fake_clock(c["times"][i]):
                    ctx = _lib("Renderer.add_multi_tsig", r.add_multi_tsig, ctx, k.name, k, c["fudge"], mid, 0, b"",
                               c["request_mac"] if i == 0 else b"", k.algorithm)
                w = r.get_wire()
            else:
                m.use_tsig(k, fudge=c["fudge"])
                if i == 0:
                    m.request_mac = c["request_mac"]
                with fake_clock(c["times"][i]):
                    w = _lib("Message.to_wire(multi)", m.to_wire, multi=True, tsig_ctx=ctx)
                ctx = m.tsig_ctx
            if ctx is None:
                raise LibRaised("multi sign", RuntimeError("no running TSIG context after signing an envelope with multi=True"))
        else:
            w = m.to_wire(multi=True, tsig_ctx=ctx)
            # an unsigned envelope is digested whole into the running context (RFC 8945 5.3.1)
            ctx.update(w)
        wires.append(w)
    return wires


def _multi_sign_ref(c):
    key = c["key"]
    wires, macs = [], []
    prior = None
    pending = []
    for i, body in enumerate(c["bodies"]):
        if c["mask"][i]:
            if prior is None:
                w, mac = ref_sign_first(body, key, c["times"][i], c["fudge"], request_mac=c["request_mac"])
            else:
                w, mac = ref_sign_later(body, key, c["times"][i], c["fudge"], prior, pending)
            prior, pending = mac, []
            macs.append(mac)
        else:
            w = body
            pending.append(w)
            macs.append(None)
        wires.append(w)
    return wires, macs


def _multi_validate(wires, c, kr):
    """Feeds the envelopes to from_wire(multi=True) in order; returns list of outcomes."""
    ctx = None
    res = []
    for i, w in enumerate(wires):
        o, m, e = verify(w, kr, c["times"][i] + c.get("skew", 0), c["request_mac"] if i == 0 else b"", True, ctx)
        res.append((o, e))
        if o == "rejected":
            break
        ctx = m.tsig_ctx
    return res


def chk_multi(c):
    out = []
    key = c["key"]
    kr = lib_keyring(key, c["form"])
    n = len(c["bodies"])
    shape = f"n={n},unsigned={[i for i in range(n) if not c['mask'][i]]}"
    # (a) the library as sender: every MAC equals the reference chain
    lw = _multi_sign_lib(c)
    prior, pending = None, []
    for i, w in enumerate(lw):
        if not c["mask"][i]:
            pending.append(w)
            continue
        try:
            body, owner, f, rr = split_signed(w)
        except WireError as e:
            out.append(("C14.multi_sequence", f"envelope {i}: {e}", {"site": "multi sign", "what": "malformed"}))
            return out
        if prior is None:
            d = digest_first(c["request_mac"], f["orig_id"], body, key["name"], key["alg"], f["time"], f["fudge"],
                             f["error"], f["other"])
        else:
            d = digest_later(prior, pending, f["orig_id"], body, f["time"], f["fudge"])
        want = ref_mac(key["alg"], key["secret"], d)
        if f["mac"] != want or f["time"] != c["times"][i]:
            out.append(("C14.multi_sequence",
                        f"library MAC of envelope {i} differs from the RFC 8945 5.3.1 chain ({shape}, via {c['via']})",
                        {"site": "dns.tsig.sign(multi)", "what": "mac", "first": prior is None,
                         "after_unsigned": bool(pending), "via": c["via"]}))
            return out
        prior, pending = f["mac"], []
    # (b) the library as receiver of its own and of the reference's sequence
    rw, _ = _multi_sign_ref(c)
    for who, wires in (("library", lw), ("reference", rw)):
        res = _multi_validate(wires, c, kr)
        for i, (o, e) in enumerate(res):
            okay = o == ("verified" if c["mask"][i] else "unsigned")
            if not okay:
                out.append(("C14.multi_sequence",
                            f"genuine envelope {i} of a {who}-signed sequence not accepted ({shape}): {_exc(e) or o}",
                            {"site": "from_wire(multi)", "what": "genuine rejected", "signer": who,
                             "first": i == 0, "exc": _exc(e)}))
                return out
    # (c) tampering inside the sequence is caught at the next signed envelope at the latest
    for t in c.get("tampers", []):
        wires = list(rw)
        kind = t["kind"]
        if kind == "flip":
            b = bytearray(wires[t["i"]])
            b[t["bit"] >> 3] ^= 0x80 >> (t["bit"] & 7)
            wires[t["i"]] = bytes(b)
        elif kind == "drop":
            del wires[t["i"]]
        elif kind == "swap":
            wires[t["i"]], wires[t["j"]] = wires[t["j"]], wires[t["i"]]
        elif kind == "dup":
            wires.insert(t["i"], wires[t["i"]])
        c2 = dict(c)
        if kind in ("drop", "dup"):
            times = list(c["times"])
            if kind == "drop":
                del times[t["i"]]
            else:
                times.insert(t["i"], times[t["i"]])
            c2["times"] = times
        res = _multi_validate(wires, c2, kr)
        if len(res) == len(wires) and all(o != "rejected" for o, _ in res):
            out.append(("C14.reject_multi_tamper",
                        f"multi-message sequence accepted although {kind} applied to envelope {t['i']} ({shape})",
                        {"site": "from_wire(multi)", "what": "tampered sequence accepted", "tamper": kind,
                         "target_signed": bool(c["mask"][t["i"]]) if kind != "swap" else False}))
    return out


CHECKS = {
    "sign_direct": chk_sign_direct,
    "message_flow": chk_message_flow,
    "oracle_signed": chk_oracle_signed,
    "bitflip": lambda c: chk_bitflip(c)[0],
    "multi": chk_multi,
}


def replay(data):
    kind = data["kind"]
    try:
        fails = CHECKS[kind](data["case"])
    except LibRaised as e:
        return True, str(e)
    if fails:
        return True, "; ".join(f"{cl}: {what}" for cl, what, _ in fails)
    return False, f"{kind} case passes"


# --------------------------------------------------------------------------- generators

_LABEL_CHARS = b"abcdefghijklmnopqrstuvwxyzABCDEFGHIJKLMNOPQRSTUVWXYZ0123456789-_"


def gen_label(rng, odd=False):
    n = rng.choice((1, 2, 3, 5, 8, 12, 20)) if not odd else rng.choice((1, 4, 63))
    if odd:
        return bytes(rng.choice((0, 0x2E, 0x40, 0x5B, 0x60, 0x7B, 0xC0, 0xFF, 0x41, 0x5A)) for _ in range(n))
    return bytes(rng.choice(_LABEL_CHARS) for _ in range(n))


def gen_name(rng, odd_ok=True, maxlabels=4):
    k = rng.randint(1, maxlabels)
    out = []
    for _ in range(k):
        l = gen_label(rng, odd_ok and rng.random() < 0.08)
        if sum(len(x) + 1 for x in out) + len(l) + 1 > 180:
            break
        out.append(l)
    return out or [b"k"]


def mixcase(rng, labels):
    out = []
    for l in labels:
        out.append(bytes((b ^ 0x20) if (0x41 <= (b & ~0x20) <= 0x5A and rng.random() < 0.5) else b for b in l))
    return out


def gen_key(rng, alg):
    alg = list(alg)
    if rng.random() < 0.4:
        alg = mixcase(rng, alg)
    return {
        "name": gen_name(rng),
        "secret": bytes(rng.getrandbits(8) for _ in range(rng.choice((1, 8, 16, 20, 32, 48, 64, 65, 128, 129, 200)))),
        "alg": alg,
    }


def gen_time(rng):
    return rng.choice((
        rng.randint(70000, 0x7FFFFFFF),
        rng.randint(0x80000000, 0xFFFFFFFF),
        0xFFFFFFFF, 0x100000000, 0x100000001,
        rng.randint(0x100000000, 0xFFFFFFFFFFFF - 70000),
        1_800_000_000,
    ))


def gen_body_own(rng, n_ar=None, response=False):
    """Independently encoded body (no compression)."""
    qn = gen_name(rng)
    flags = (0x8000 if response else 0) | rng.choice((0, 0x0100, 0x0400, 0x0180)) | (rng.choice((0, 3)) if response else 0)
    an = [enc_rr(qn, 1, 1, rng.randint(0, 86400), bytes(rng.getrandbits(8) for _ in range(4)))
          for _ in range(rng.randint(0, 2))] if response else []
    ns = [enc_rr(gen_name(rng), 16, 1, 300, bytes([3]) + b"abc")] if rng.random() < 0.3 else []
    k = rng.randint(0, 2) if n_ar is None else n_ar
    ar = [enc_rr(gen_name(rng), 28, 1, 60, bytes(rng.getrandbits(8) for _ in range(16))) for _ in range(k)]
    return enc_msg(rng.getrandbits(16), flags, [(qn, rng.choice((1, 28, 15, 252)), 1)], an, ns, ar)


def gen_body_lib(rng, key=None, response=False):
    """Library-rendered body (compression; optionally mentions the key name so that the TSIG
    owner can be compressed)."""
    base = lib_name(gen_name(rng, odd_ok=False))
    if key is not None and rng.random() < 0.5:
        base = lib_name(lower_labels(key["name"]))
    q = dns.message.make_query(base, rng.choice(("A", "MX", "SOA", "AXFR", "TXT")), id=rng.getrandbits(16))
    if response:
        q.flags |= dns.flags.QR
        for _ in range(rng.randint(1, 3)):
            o = dns.name.Name((gen_label(rng),) + base.labels)
            q.answer.append(dns.rrset.from_text(o, rng.randint(0, 3600), "IN", "MX", f"{rng.randint(0, 99)} mail.{base}"))
        if rng.random() < 0.5:
            q.additional.append(dns.rrset.from_text(dns.name.Name((b"mail",) + base.labels), 60, "IN", "A",
                                                    f"10.{rng.randint(0, 255)}.0.1"))
    return q.to_wire()


def gen_body(rng, key=None, response=False):
    return gen_body_own(rng, None, response) if rng.random() < 0.4 else gen_body_lib(rng, key, response)


def gen_other(rng):
    return rng.choice((b"", b"", b"", u48(1_700_000_000), bytes(rng.getrandbits(8) for _ in range(rng.randint(1, 40)))))


# --------------------------------------------------------------------------- run


def _do(R, kind, case, clause_for_count, key, nontrivial=True, sample=None):
    """Runs a check; harness errors are notes."""
    try:
        fails = CHECKS[kind](case)
    except LibRaised as e:
        R.case(clause_for_count, key=key, nontrivial=nontrivial)
        R.violation(clause_for_count, str(e)[:200], {"site": e.site, "what": "raises on valid input", "exc": _exc(e.exc)},
                    {"kind": kind, "case": case})
        return None
    except Exception as e:  # harness trouble, not a verdict
        import traceback

        R.note(f"harness error in {kind}: {type(e).__name__}: {e} :: {traceback.format_exc(limit=4)}")
        return None
    R.case(clause_for_count, key=key, nontrivial=nontrivial)
    if sample is not None:
        R.sample(clause_for_count, sample)
    for clause, what, sig in fails:
        R.violation(clause, what, sig, {"kind": kind, "case": case})
    return fails


def _algname(alg):
    return b".".join(lower_labels(alg)).decode()


def run(R):
    rng = R.rng
    quick = R.quick

    # ---------------------------------------------------------------- 1. dns.tsig.sign direct
    per_alg = 150 if quick else 1500
    for alg in ALG_LIST:
        if R.deadline():
            break
        for s in range(per_alg):
            key = gen_key(rng, alg)
            response = s % 2 == 1
            body = gen_body(rng, key, response)
            if s % 10 == 9:  # sign() digests any octets; also exercise odd sizes
                body = body[:12] + bytes(rng.getrandbits(8) for _ in range(rng.choice((0, 1, 2, 300))))
            rmac = b""
            if response:
                rmac = bytes(rng.getrandbits(8) for _ in range(rng.choice((ref_mac_len(alg), 16, 64, 1, 10))))
            err = rng.choice((0, 0, 0, 16, 17, 18, 22, 1, 23, 4095))
            c = {"key": key, "body": body, "orig_id": rng.choice((struct.unpack("!H", body[:2])[0], rng.getrandbits(16), 0, 65535)),
                 "time": gen_time(rng), "fudge": rng.choice((0, 1, 300, 65535, rng.getrandbits(16))),
                 "error": err, "other": gen_other(rng), "request_mac": rmac}
            _do(R, "sign_direct", c, "C14.mac_rfc8945", (_algname(alg), s),
                sample={"alg": _algname(alg), "kind": "response" if rmac else "request", "len": len(body)})

    # ---------------------------------------------------------------- 2. message flows
    forms = ("key", "dict_key", "dict_bytes", "callable")
    per_alg = 20 if quick else 120
    for alg in ALG_LIST:
        if R.deadline():
            break
        for s in range(per_alg):
            key = gen_key(rng, alg)
            via = ("message", "response", "renderer", "message")[s % 4]
            fudge = rng.choice((0, 1, 2, 300, 300, 65535))
            edns = via != "renderer" and rng.random() < 0.5
            c = {"key": key, "body": gen_body_lib(rng, key, response=(via != "response" and rng.random() < 0.5)),
                 "via": via, "form": forms[(s // 2) % 4] if via != "renderer" else "key",
                 "now": gen_time(rng), "fudge": fudge,
                 "orig_id": None if (via == "response" or rng.random() < 0.6) else rng.getrandbits(16),
                 "other": b"" if via == "response" else gen_other(rng),
                 "edns": edns, "pad": rng.choice((0, 0, 128, 468)) if edns else 0,
                 "offsets": sorted({0, 1, -1, fudge, -fudge, fudge + 1, -(fudge + 1), fudge + 2, -(fudge + 1000)})}
            if via == "renderer" and rng.random() < 0.5:
                c["request_mac"] = bytes(rng.getrandbits(8) for _ in range(ref_mac_len(alg)))
            fails = _do(R, "message_flow", c, "C14.signed_wire", (_algname(alg), s),
                        sample={"alg": _algname(alg), "via": via, "form": c["form"], "fudge": fudge})
            if fails is not None:
                for d in c["offsets"]:
                    R.case("C14.genuine_validates" if abs(d) <= fudge else "C14.reject_time",
                           key=(_algname(alg), s, d))

    # ---------------------------------------------------------------- 3. time window (reference-signed, exhaustive grid)
    for alg in ALG_LIST:
        if R.deadline():
            break
        for fudge in (0, 1, 2, 300, 65535):
            for t in (1_700_000_000, 0xFFFFFFFF, 0x100000000 + 5, 0x7FFF_0000_0000):
                key = gen_key(rng, alg)
                body = gen_body(rng, key)
                wire, mac = ref_sign_first(body, key, t, fudge)
                for d in sorted({-(fudge + 1), -fudge, -1, 0, 1, fudge, fudge + 1}):
                    inside = abs(d) <= fudge
                    c = {"key": key, "wire": wire, "form": "key", "now": t + d,
                         "expect": "verified" if inside else "reject",
                         "variant": "inside fudge window" if inside else "signing time outside the fudge window",
                         "clause": "C14.genuine_validates" if inside else "C14.reject_time"}
                    _do(R, "oracle_signed", c, c["clause"], (_algname(alg), fudge, t, d),
                        sample={"alg": _algname(alg), "fudge": fudge, "offset": d})

    # ---------------------------------------------------------------- 4. wrong key / name / algorithm / request MAC / error / truncation
    reps = 4 if quick else 30
    for alg in ALG_LIST:
        if R.deadline():
            break
        for s in range(reps):
            key = gen_key(rng, alg)
            t = gen_time(rng)
            fudge = 300
            response = s % 2 == 1
            body = gen_body(rng, key, response)
            rmac = bytes(rng.getrandbits(8) for _ in range(ref_mac_len(alg))) if response else b""
            wire, mac = ref_sign_first(body, key, t, fudge, request_mac=rmac)
            base = {"key": key, "now": t + rng.randint(-fudge, fudge), "request_mac": rmac}
            variants = []
            for form in forms:
                variants.append((dict(base, wire=wire, form=form, expect="verified", variant=f"genuine/{form}",
                                      clause="C14.genuine_validates")))
            # -- different secret (every single-bit change of a short secret; a few for long ones)
            sec = key["secret"]
            bits = range(len(sec) * 8) if len(sec) <= 8 else sorted(rng.sample(range(len(sec) * 8), 6))
            for b in bits:
                s2 = bytearray(sec)
                s2[b >> 3] ^= 0x80 >> (b & 7)
                variants.append(dict(base, wire=wire, form="key", vkey=dict(key, secret=bytes(s2)), expect="reject",
                                     variant="signed with a different key (secret)", clause="C14.reject_wrong_key"))
            variants.append(dict(base, wire=wire, form="dict_bytes", vkey=dict(key, secret=sec + b"\x01"), expect="reject",
                                 variant="signed with a different key (secret)", clause="C14.reject_wrong_key"))
            # -- different key name: validator knows another name / forged owner
            last = key["name"][-1]
            other_name = key["name"][:-1] + [last + b"x" if len(last) < 63 else last[:-1] + bytes([last[-1] ^ 1])]
            for form in ("key", "dict_key", "dict_bytes", "callable"):
                variants.append(dict(base, wire=wire, form=form, vkey=dict(key, name=other_name), expect="reject",
                                     variant="signed with a different key name", clause="C14.reject_wrong_key"))
            # owner rewritten to the validator's key name, MAC still over the signer's name
            forged = bump_ar(body, 1) + tsig_rr(other_name, key["alg"], t, fudge, mac, struct.unpack("!H", body[:2])[0], 0, b"")
            variants.append(dict(base, wire=forged, form="key", vkey=dict(key, name=other_name), expect="reject",
                                 variant="signed with a different key name (owner rewritten)", clause="C14.reject_wrong_key"))
            # -- different algorithm
            for alg2 in ALG_LIST:
                if alg2 == alg:
                    continue
                variants.append(dict(base, wire=wire, form="key", vkey=dict(key, alg=list(alg2)), expect="reject",
                                     variant="signed with a different algorithm", clause="C14.reject_wrong_key"))
                # algorithm field rewritten to the validator's algorithm; MAC computed with the validator's
                # hash but over the signer's algorithm name => the name must be part of the digest
                d = digest_first(rmac, struct.unpack("!H", body[:2])[0], body, key["name"], key["alg"], t, fudge, 0, b"")
                mac2 = ref_mac(alg2, sec, d)
                forged = bump_ar(body, 1) + tsig_rr(key["name"], alg2, t, fudge, mac2, struct.unpack("!H", body[:2])[0], 0, b"")
                for form in ("key", "dict_bytes"):
                    variants.append(dict(base, wire=forged, form=form, vkey=dict(key, alg=list(alg2)), expect="reject",
                                         variant="signed with a different algorithm (field rewritten)",
                                         clause="C14.reject_wrong_key"))
            # -- bound to a different request MAC
            rm_variants = []
            if rmac:
                for b in (0, 7, len(rmac) * 8 - 1, rng.randrange(len(rmac) * 8)):
                    r2 = bytearray(rmac)
                    r2[b >> 3] ^= 0x80 >> (b & 7)
                    rm_variants.append(bytes(r2))
                rm_variants += [b"", rmac[:-1], rmac + b"\x00", rmac[1:] + rmac[:1]]
            else:
                rm_variants += [b"\x00", bytes(ref_mac_len(alg)), bytes(rng.getrandbits(8) for _ in range(ref_mac_len(alg)))]
            for r2 in rm_variants:
                variants.append(dict(base, wire=wire, form="key", request_mac=r2, expect="reject",
                                     variant="bound to a different request MAC", clause="C14.reject_request_mac"))
            # -- digest components that are not in the message body: original id, time, fudge, other
            oid = struct.unpack("!H", body[:2])[0]
            for (t2, f2, oid2, oth2, what) in ((t + 1, fudge, oid, b"", "time signed"), (t, fudge + 1, oid, b"", "fudge"),
                                               (t, fudge, oid ^ 1, b"", "original id"), (t, fudge, oid, b"\x00", "other data"),
                                               (t ^ (1 << 32), 0xFFFF, oid, b"", "time signed (upper 16 bits)")):
                forged = bump_ar(body, 1) + tsig_rr(key["name"], key["alg"], t2, f2, mac, oid2, 0, oth2)
                variants.append(dict(base, wire=forged, form="key", now=t2, expect="reject",
                                     variant=f"TSIG {what} altered", clause="C14.reject_bitflip"))
            # -- MAC truncated below the RFC 8945 5.2.2.1 minimum, or extended
            n = len(mac)
            for l in list(range(0, max(10, (ref_mac_len(alg) if not _ALGS[tuple(lower_labels(alg))][1] else n) // 2))):
                if l >= n:
                    break
                forged = bump_ar(body, 1) + tsig_rr(key["name"], key["alg"], t, fudge, mac[:l], oid, 0, b"")
                variants.append(dict(base, wire=forged, form="key", expect="reject",
                                     variant="MAC truncated below max(10, half)", clause="C14.reject_bitflip"))
            forged = bump_ar(body, 1) + tsig_rr(key["name"], key["alg"], t, fudge, mac + b"\x00", oid, 0, b"")
            variants.append(dict(base, wire=forged, form="key", expect="reject", variant="MAC extended by one octet",
                                 clause="C14.reject_bitflip"))
            for i, c in enumerate(variants):
                if R.deadline():
                    break
                _do(R, "oracle_signed", c, c["clause"], (_algname(alg), s, i),
                    sample={"alg": _algname(alg), "variant": c["variant"]})

    # ---------------------------------------------------------------- 5. TSIG error reported (correctly MACed)
    errs = list(range(1, 65)) + [255, 256, 1023, 2048, 4094, 4095] if quick else list(range(1, 4096))
    for i, err in enumerate(errs):
        if R.deadline():
            break
        alg = ALG_LIST[i % len(ALG_LIST)]
        key = gen_key(rng, alg)
        t = 1_700_000_000 + i
        response = i % 2 == 0
        rmac = bytes(rng.getrandbits(8) for _ in range(ref_mac_len(alg))) if response else b""
        body = gen_body(rng, key, response)
        other = u48(t + 5) if err == 18 else b""
        wire, mac = ref_sign_first(body, key, t, 300, error=err, other=other, request_mac=rmac)
        c = {"key": key, "wire": wire, "form": forms[i % 4], "now": t, "request_mac": rmac, "expect": "reject",
             "variant": "the TSIG reports an error", "clause": "C14.reject_error"}
        _do(R, "oracle_signed", c, "C14.reject_error", err, sample={"error": err, "alg": _algname(alg)})
    # the library's own signer with tsig_error set
    for i, err in enumerate((16, 17, 18, 22, 1, 5, 23)):
        alg = ALG_LIST[i % len(ALG_LIST)]
        key = gen_key(rng, alg)
        m = dns.message.from_wire(gen_body_lib(rng, key, True))
        m.use_tsig(lib_key(key), tsig_error=err)
        with fake_clock(1_700_000_000):
            w = m.to_wire()
        c = {"key": key, "wire": w, "form": "key", "now": 1_700_000_000, "expect": "reject",
             "variant": "the TSIG reports an error", "clause": "C14.reject_error"}
        _do(R, "oracle_signed", c, "C14.reject_error", ("lib", err))

    # ---------------------------------------------------------------- 6. TSIG not last => FormError
    reps = 2 if quick else 10
    for rep in range(reps):
        if R.deadline():
            break
        for n_extra in (0, 1, 2, 3):
            alg = ALG_LIST[(rep * 4 + n_extra) % len(ALG_LIST)]
            key = gen_key(rng, alg)
            t = gen_time(rng)
            qn = gen_name(rng)
            mid = rng.getrandbits(16)
            an = [enc_rr(qn, 1, 1, 30, b"\x0a\x00\x00\x01")]
            ns = [enc_rr(qn, 2, 1, 30, wire_name(gen_name(rng)))]
            ar = [enc_rr(gen_name(rng), 1, 1, 30, bytes([10, 0, 1, j])) for j in range(n_extra)]
            clean = enc_msg(mid, 0x8400, [(qn, 1, 1)], an, ns, ar)
            d = digest_first(b"", mid, clean, key["name"], key["alg"], t, 300, 0, b"")
            mac = ref_mac(key["alg"], key["secret"], d)
            trr = tsig_rr(key["name"], key["alg"], t, 300, mac, mid, 0, b"")
            layouts = []
            layouts.append(("answer:last", [an[0], trr], ns, ar))
            layouts.append(("answer:first", [trr, an[0]], ns, ar))
            layouts.append(("authority:last", an, [ns[0], trr], ar))
            for p in range(n_extra):  # every position in ADDITIONAL except last
                layouts.append((f"additional:{p}/{n_extra + 1}", an, ns, ar[:p] + [trr] + ar[p:]))
            layouts.append((f"additional:two-tsigs/{n_extra + 2}", an, ns, ar + [trr, trr]))
            if n_extra == 0:
                layouts.append(("authority:only", an, [trr], []))
            for name, a, n_, r_ in layouts:
                w = enc_msg(mid, 0x8400, [(qn, 1, 1)], a, n_, r_)
                for form in ("key", "dict_bytes", "none", "false"):
                    c = {"key": key, "wire": w, "form": form, "now": t, "expect": "formerr",
                         "variant": f"{name}:keyring={form}", "clause": "C14.tsig_not_last"}
                    _do(R, "oracle_signed", c, "C14.tsig_not_last", (rep, n_extra, name, form),
                        sample={"layout": name, "keyring": form})
            # control: the same records with the TSIG last validate
            w = enc_msg(mid, 0x8400, [(qn, 1, 1)], an, ns, ar + [trr])
            c = {"key": key, "wire": w, "form": "key", "now": t, "expect": "verified", "variant": "control: TSIG last",
                 "clause": "C14.genuine_validates"}
            _do(R, "oracle_signed", c, "C14.genuine_validates", ("ctl", rep, n_extra))

    # ---------------------------------------------------------------- 7. multi-message sequences
    maxn = 5 if quick else 7
    seeds = 2 if quick else 4
    for ai, alg in enumerate(ALG_LIST):
        if R.deadline():
            break
        for n in range(2, maxn + 1):
            inter = n - 2
            for sub in range(1 << inter):
                if R.deadline():
                    break
                for s in range(seeds):
                    key = gen_key(rng, alg)
                    mask = [True] + [not (sub >> i) & 1 for i in range(inter)] + [True]
                    t0 = gen_time(rng)
                    bodies = [gen_body_lib(rng, key, True) if rng.random() < 0.7 else gen_body_own(rng, None, True)
                              for _ in range(n)]
                    rmac = bytes(rng.getrandbits(8) for _ in range(ref_mac_len(alg))) if (sub + s) % 2 == 0 else b""
                    c = {"key": key, "bodies": bodies, "mask": mask, "times": [t0 + i * rng.randint(0, 3) for i in range(n)],
                         "fudge": 300, "request_mac": rmac, "form": forms[(sub + s) % 4],
                         "via": "renderer" if (sub + s + n) % 3 == 0 else "message", "tampers": []}
                    # tampering: every unsigned envelope gets a flipped bit (first, last, random), is dropped,
                    # duplicated; signed ones get a body bit flipped
                    for i in range(n):
                        nb = len(bodies[i]) * 8
                        if not mask[i]:
                            for bit in sorted({16, nb - 1, rng.randrange(16, nb), 0}):
                                c["tampers"].append({"kind": "flip", "i": i, "bit": bit})
                            c["tampers"].append({"kind": "drop", "i": i})
                            c["tampers"].append({"kind": "dup", "i": i})
                        else:
                            c["tampers"].append({"kind": "flip", "i": i, "bit": rng.randrange(16, nb)})
                    uns = [i for i in range(n) if not mask[i]]
                    if len(uns) >= 2 and bodies[uns[0]] != bodies[uns[1]]:
                        c["tampers"].append({"kind": "swap", "i": uns[0], "j": uns[1]})
                    if n >= 3 and mask[1]:
                        c["tampers"].append({"kind": "drop", "i": 1})  # a signed intermediate removed
                    fails = _do(R, "multi", c, "C14.multi_sequence", (_algname(alg), n, sub, s),
                                sample={"alg": _algname(alg), "n": n, "unsigned": uns, "via": c["via"]})
                    if fails is not None:
                        for j, _t in enumerate(c["tampers"]):
                            R.case("C14.reject_multi_tamper", key=(_algname(alg), n, sub, s, j))

    # ---------------------------------------------------------------- 8. every single-bit flip of signed messages
    plans = []
    for ai, alg in enumerate(ALG_LIST):
        kinds = ["req_own", "resp_lib"]
        if quick:
            kinds += [("req_lib_compress", "req_lib_pad", "resp_own_other")[ai % 3]]
        else:
            kinds += ["req_lib_pad", "req_lib_compress", "resp_own_other", "req_own", "resp_lib"]
        for kd in kinds:
            plans.append((alg, kd))
    for pi, (alg, kd) in enumerate(plans):
        if R.deadline():
            break
        key = gen_key(rng, alg)
        key["name"] = [b"Key-" + gen_label(rng), b"Example"]
        t = gen_time(rng)
        rmac = b""
        if kd == "req_own":
            body = gen_body_own(rng, 1, False)
            wire, _ = ref_sign_first(body, key, t, 300)
        elif kd == "resp_own_other":
            body = gen_body_own(rng, 0, True)
            rmac = bytes(rng.getrandbits(8) for _ in range(ref_mac_len(alg)))
            wire, _ = ref_sign_first(body, key, t, 300, other=b"\x01\x02\x03", request_mac=rmac)
        else:
            m = dns.message.make_query(lib_name([b"www"] + list(lower_labels(key["name"])) if kd == "req_lib_compress"
                                                else [b"www", b"test"]), "A", id=rng.getrandbits(16))
            if kd == "resp_lib":
                m.flags |= dns.flags.QR
                m.answer.append(dns.rrset.from_text(m.question[0].name, 60, "IN", "A", "10.1.2.3"))
                rmac = bytes(rng.getrandbits(8) for _ in range(ref_mac_len(alg)))
                m.request_mac = rmac
            if kd == "req_lib_pad":
                m.use_edns(0, pad=128)
            m.use_tsig(lib_key(key))
            with fake_clock(t):
                wire = m.to_wire()
        try:
            tsig_start = split_signed(wire)[3]["start"]
        except WireError as e:
            R.note(f"harness: bitflip base message undecodable: {e}")
            continue
        form = ("key", "dict_key", "dict_bytes", "callable")[len(wire) % 4]
        base = {"key": key, "wire": wire, "form": form, "now": t + 7, "request_mac": rmac, "tsig_start": tsig_start}
        o, _, e = verify(wire, lib_keyring(key, form), t + 7, rmac)
        R.case("C14.genuine_validates", key=("bitflip-base", pi, _algname(alg), kd))
        if o != "verified":
            R.violation("C14.genuine_validates", f"unaltered signed message ({kd}) not accepted: {_exc(e) or o}",
                        {"site": "dns.message.from_wire", "what": "genuine rejected", "variant": kd, "exc": _exc(e)},
                        {"kind": "oracle_signed", "case": dict(base, expect="verified", variant=kd,
                                                              clause="C14.genuine_validates")})
            continue
        for bit in range(len(wire) * 8):
            c = dict(base, bit=bit)
            try:
                fails, equivalent = chk_bitflip(c)
            except Exception as e:
                R.note(f"harness error in bitflip: {type(e).__name__}: {e}")
                break
            R.case("C14.reject_bitflip", key=(pi, _algname(alg), kd, bit), nontrivial=not equivalent)
            if bit == 100:
                R.sample("C14.reject_bitflip", {"alg": _algname(alg), "message": kd, "octets": len(wire), "bit": bit})
            for clause, what, sig in fails:
                R.violation(clause, what, sig, {"kind": "bitflip", "case": c})
        if R.deadline():
            break
    R.note("TSIG RR TTL is ignored on receipt and digested as 0 by the library (flips of the TTL field are "
           "accepted); counted as trivial, not reported: the property's digest components fix TTL to 0.")
