"""C07 record-set clauses: dns.set.Set / Rdataset / RRset / ImmutableRdataset against an
ordered-set reference (Python lists of equivalence-class keys).  Every check returns a list of
(clause, what, sig)."""

from __future__ import annotations

import copy
import operator

import dns.name
import dns.rdataset
import dns.rrset
import dns.set

import bounded._c07_model as M

ALG = "C07.set_algebra"
INPLACE = "C07.set_algebra_inplace"
PRED = "C07.set_predicates"
ORDER = "C07.set_insertion_order"
UNARY = "C07.set_element_ops"
TTL = "C07.ttl_minimum"
ISO = "C07.set_copy_independent"
IMM = "C07.immutable_rdataset"
SEQ = "C07.set_op_sequences"

IN = 1
_OWNER = dns.name.Name((b"owner", b"example", b""))


def _mx(pref, *labels):
    return {"c": IN, "t": "MX", "f": [pref, tuple(labels)]}


def _rrsig(covered, tag, signer, sig):
    return {"c": IN, "t": "RRSIG", "f": [covered, 8, 2, 3600, 1577836800, 1041379200, tag, signer, sig]}


_UNIV_SPECS = {
    # (spec, route) -- equal elements are *different objects* with different spelling
    "mx": [
        (_mx(10, b"mail", b"example", b""), "ctor"),
        (_mx(10, b"MAIL", b"Example", b""), "wire"),
        (_mx(10, b"mx", b"example", b""), "ctor"),
        (_mx(20, b"mail", b"example", b""), "text"),
        (_mx(10, b"mail"), "ctor"),
        (_mx(10, b"MAIL"), "ctor"),
    ],
    "a": [
        ({"c": IN, "t": "A", "f": [bytes([1, 2, 3, 4])]}, "ctor"),
        ({"c": IN, "t": "A", "f": [bytes([1, 2, 3, 4])]}, "wire"),
        ({"c": IN, "t": "A", "f": [bytes([1, 2, 3, 5])]}, "ctor"),
        ({"c": IN, "t": "A", "f": [bytes([200, 0, 0, 1])]}, "text"),
        ({"c": IN, "t": "A", "f": [bytes([0, 0, 0, 0])]}, "ctor"),
        ({"c": IN, "t": "A", "f": [bytes([200, 0, 0, 1])]}, "ctor"),
    ],
    "rrsig": [
        (_rrsig(1, 2143, (b"example", b""), b"\x01\x02"), "ctor"),
        (_rrsig(1, 2143, (b"EXAMPLE", b""), b"\x01\x02"), "wire"),
        (_rrsig(1, 2144, (b"example", b""), b"\x01\x02"), "ctor"),
        (_rrsig(1, 2143, (b"example", b""), b"\x01\x03"), "text"),
        (_rrsig(1, 0, (b"a", b""), b"\xff"), "ctor"),
        (_rrsig(1, 0, (b"A", b""), b"\xff"), "ctor"),
    ],
    "txt": [
        ({"c": IN, "t": "TXT", "f": [(b"a",)]}, "ctor"),
        ({"c": IN, "t": "TXT", "f": [(b"a",)]}, "wire"),
        ({"c": IN, "t": "TXT", "f": [(b"A",)]}, "ctor"),
        ({"c": IN, "t": "TXT", "f": [(b"a", b"b")]}, "text"),
        ({"c": IN, "t": "TXT", "f": [(b"ab",)]}, "ctor"),
        ({"c": IN, "t": "TXT", "f": [(b"A",)]}, "text"),
    ],
}

_cache = {}


def universe(name):
    """-> (objects, class-key per object).  Keys are small ints naming the model's
    equivalence classes (from the independent canonical form, or from label case folding for
    names)."""
    if name in _cache:
        return _cache[name]
    if name == "gen":
        mx = _UNIV_SPECS["mx"]
        objs = [
            dns.name.Name((b"a", b"")),
            dns.name.Name((b"A", b"")),
            7,
            M.build(*mx[0]),
            M.build(*mx[1]),
            dns.name.Name((b"b", b"")),
            dns.name.Name((b"a",)),
            b"x",
        ]
        keys = [0, 0, 1, 2, 2, 3, 4, 5]
    else:
        objs, keys, seen = [], [], {}
        for spec, route in _UNIV_SPECS[name]:
            objs.append(M.build(spec, route))
            k = M.spec_key(spec)
            keys.append(seen.setdefault(k, len(seen)))
    _cache[name] = (objs, keys, {id(o): k for o, k in zip(objs, keys)})
    return _cache[name]


IMPLS = {
    # name -> (universe, has ttl)
    "Set": ("gen", False),
    "Rdataset": ("mx", True),
    "RRset": ("a", True),
    "RdatasetRRSIG": ("rrsig", True),
    "RdatasetTXT": ("txt", True),
    "ImmutableRdataset": ("mx", True),
}

_RDTYPE = {"mx": 15, "a": 1, "rrsig": 46, "txt": 16}


def make(impl, seq, ttl=0):
    """Build a set of implementation *impl* by inserting the universe elements seq in order."""
    uname = IMPLS[impl][0]
    objs = universe(uname)[0]
    if impl == "Set":
        return dns.set.Set([objs[i] for i in seq])
    if impl == "RRset":
        s = dns.rrset.RRset(_OWNER, IN, _RDTYPE[uname])
    else:
        s = dns.rdataset.Rdataset(IN, _RDTYPE[uname])
    s.ttl = ttl
    for i in seq:
        s.add(objs[i])
    if impl == "ImmutableRdataset":
        s = dns.rdataset.ImmutableRdataset(s)
    return s


def view(s, idmap):
    """Ordered key view of a real set; an element that is not a universe object gets key -1."""
    return [idmap.get(id(x), -1) for x in s]


def _ttl_merge(ta, tb, a_empty):
    return tb if a_empty else min(ta, tb)


def _ttl_ok(op, ta, tb, a_empty, b_empty, alias):
    """Acceptable TTLs of the result.  Strict for union-like merges of a non-empty other (the
    property: minimum of the TTLs merged; empty-set rule of update_ttl's documentation);
    lenient ({unchanged, merged}) where the text does not say whether a TTL counts as merged."""
    if alias:
        return {ta}
    merged = _ttl_merge(ta, tb, a_empty)
    if op == "union" and not b_empty:
        return {merged}
    return {ta, merged}


# name -> (model op, callable(S, T) -> result, in-place?)
BIN_OPS = {
    "union": ("union", lambda s, t: s.union(t), False),
    "intersection": ("inter", lambda s, t: s.intersection(t), False),
    "difference": ("diff", lambda s, t: s.difference(t), False),
    "symmetric_difference": ("sym", lambda s, t: s.symmetric_difference(t), False),
    "__or__": ("union", operator.or_, False),
    "__add__": ("union", operator.add, False),
    "__and__": ("inter", operator.and_, False),
    "__sub__": ("diff", operator.sub, False),
    "__xor__": ("sym", operator.xor, False),
    "union_update": ("union", lambda s, t: (s.union_update(t), s)[1], True),
    "update": ("union", lambda s, t: (s.update(t), s)[1], True),
    "intersection_update": ("inter", lambda s, t: (s.intersection_update(t), s)[1], True),
    "difference_update": ("diff", lambda s, t: (s.difference_update(t), s)[1], True),
    "symmetric_difference_update": ("sym", lambda s, t: (s.symmetric_difference_update(t), s)[1], True),
    "__ior__": ("union", operator.ior, True),
    "__iadd__": ("union", operator.iadd, True),
    "__iand__": ("inter", operator.iand, True),
    "__isub__": ("diff", operator.isub, True),
    "__ixor__": ("sym", operator.ixor, True),
}
PRED_OPS = {
    "issubset": (lambda s, t: s.issubset(t), lambda a, b: set(a) <= set(b)),
    "issuperset": (lambda s, t: s.issuperset(t), lambda a, b: set(a) >= set(b)),
    "isdisjoint": (lambda s, t: s.isdisjoint(t), lambda a, b: not (set(a) & set(b))),
    "__eq__": (operator.eq, lambda a, b: set(a) == set(b)),
    "__ne__": (operator.ne, lambda a, b: set(a) != set(b)),
}


def _sig(impl, op, what, **kw):
    d = {"impl": impl, "op": op, "what": what}
    d.update(kw)
    return d


def _cmp_view(clause, impl, op, role, got, exp):
    """Membership first; order only if membership agrees."""
    if set(got) != set(exp) or len(got) != len(exp):
        return [(clause, f"{impl}.{op}: {role} has classes {got}, set theory says {sorted(exp)}", _sig(impl, op, role + " members"))]
    if got != exp:
        return [(ORDER, f"{impl}.{op}: {role} iterates as {got}, first-insertion order is {exp}", _sig(impl, op, role + " order"))]
    return []


def chk_binary(impl, timpl, sseq, tseq, ttl_s, ttl_t, op, alias=False):
    """One binary operation S op T (or S op S when alias) on freshly built sets."""
    _objs, keys, idmap = universe(IMPLS[impl][0])
    has_ttl = IMPLS[impl][1]
    a = M.m_dedupe([keys[i] for i in sseq])
    b = a if alias else M.m_dedupe([keys[i] for i in tseq])
    if op in ("__eq__", "__ne__"):
        ttl_t = ttl_s  # the text does not say whether set equality looks at the TTL
    S = make(impl, sseq, ttl_s)
    T = S if alias else make(timpl, tseq, ttl_t)
    if alias:
        ttl_t = ttl_s
    out = []
    if op in PRED_OPS:
        fn, ref = PRED_OPS[op]
        try:
            got = fn(S, T)
        except Exception as e:
            return [(PRED, f"{impl}.{op} raised {type(e).__name__}: {e}", _sig(impl, op, "raised", exc=type(e).__name__))]
        exp = ref(a, b)
        if bool(got) != exp:
            out.append((PRED, f"{impl}.{op}: {got} for classes {a} vs {b}, set theory says {exp}", _sig(impl, op, "truth value")))
        out += _cmp_view(PRED, impl, op, "self afterwards", view(S, idmap), a)
        out += _cmp_view(PRED, impl, op, "other afterwards", view(T, idmap), b)
        return out
    mop, fn, inplace = BIN_OPS[op]
    exp = M.M_BIN[mop](a, b)
    clause = INPLACE if inplace else ALG
    immutable = impl == "ImmutableRdataset"
    try:
        r = fn(S, T)
    except Exception as e:
        if immutable and inplace:
            # the in-place forms of an immutable set must refuse and change nothing
            out += _cmp_view(IMM, impl, op, "immutable set after refused mutator", view(S, idmap), a)
            if has_ttl and S.ttl != ttl_s:
                out.append((IMM, f"{impl}.{op}: refused but ttl {ttl_s} -> {S.ttl}", _sig(impl, op, "ttl changed")))
            return out
        return [(clause, f"{impl}.{op} raised {type(e).__name__}: {e}", _sig(impl, op, "raised", exc=type(e).__name__))]
    if immutable and inplace:
        # not refusing is only acceptable when there was nothing to change
        out += _cmp_view(IMM, impl, op, "immutable set after mutator", view(S, idmap), a)
        if set(exp) != set(a):
            out.append((IMM, f"{impl}.{op} did not refuse (returned {type(r).__name__})", _sig(impl, op, "mutator accepted")))
        if S.ttl != ttl_s:
            out.append((IMM, f"{impl}.{op}: ttl {ttl_s} -> {S.ttl}", _sig(impl, op, "ttl changed")))
        return out
    out += _cmp_view(clause, impl, op, "result", view(r, idmap), exp)
    if inplace:
        if r is not S:
            out += _cmp_view(clause, impl, op, "self after in-place form", view(S, idmap), exp)
    else:
        out += _cmp_view(clause, impl, op, "self afterwards", view(S, idmap), a)
        if has_ttl and S.ttl != ttl_s:
            out.append((TTL, f"{impl}.{op}: copying form changed self.ttl {ttl_s} -> {S.ttl}", _sig(impl, op, "self ttl changed")))
    if not alias:
        out += _cmp_view(clause, impl, op, "other afterwards", view(T, idmap), b)
        if IMPLS[timpl][1] and T.ttl != ttl_t:
            out.append((TTL, f"{impl}.{op}: other.ttl {ttl_t} -> {T.ttl}", _sig(impl, op, "other ttl changed")))
    if has_ttl and IMPLS[timpl][1]:
        ok = _ttl_ok(mop, ttl_s, ttl_t, not a, not b, alias)
        if r.ttl not in ok:
            out.append(
                (
                    TTL,
                    f"{impl}.{op}: ttl {ttl_s} (self, {len(a)} rdatas) with {ttl_t} (other, {len(b)} rdatas) gives {r.ttl}, expected {sorted(ok)}",
                    _sig(impl, op, "ttl", self_empty=not a),
                )
            )
    if not inplace:
        # a copying form returns a set that shares no state with its operands
        if r is S or (r is T and not alias):
            out.append((ISO, f"{impl}.{op} returned an operand", _sig(impl, op, "result is operand")))
        elif not immutable:
            try:
                before_s, before_t = view(S, idmap), view(T, idmap)
                r.clear()
                for o in _objs[:3]:
                    dns.set.Set.add(r, o)
                if view(S, idmap) != before_s or view(T, idmap) != before_t:
                    out.append((ISO, f"{impl}.{op}: mutating the result changed an operand", _sig(impl, op, "result aliases operand")))
            except Exception:
                pass
        if has_ttl and not out:
            if r.rdclass != S.rdclass or r.rdtype != S.rdtype:
                out.append((ALG, f"{impl}.{op}: result has class/type {r.rdclass}/{r.rdtype}", _sig(impl, op, "result class/type")))
    return out


# --------------------------------------------------------------------------- unary
UNARY_OPS = ["read", "add", "remove", "discard", "pop", "clear", "copy", "delitem", "delslice"]


def chk_unary(impl, sseq, ttl, op, arg=0):
    _objs, keys, idmap = universe(IMPLS[impl][0])
    has_ttl = IMPLS[impl][1]
    a = M.m_dedupe([keys[i] for i in sseq])
    S = make(impl, sseq, ttl)
    immutable = impl == "ImmutableRdataset"
    out = []

    def same(role, got, exp, clause=UNARY):
        return _cmp_view(clause, impl, op, role, got, exp)

    if op == "read":
        if len(S) != len(a):
            out.append((UNARY, f"{impl}: len {len(S)} after inserting classes {[keys[i] for i in sseq]} (distinct {len(a)})", _sig(impl, "__len__", "duplicates collapse")))
        out += same("iteration", view(S, idmap), a)
        for i in range(len(a)):
            try:
                g = idmap.get(id(S[i]), -1)
            except Exception as e:
                out.append((UNARY, f"{impl}[{i}] raised {type(e).__name__}", _sig(impl, "__getitem__", "raised")))
                continue
            if g != a[i]:
                out.append((ORDER, f"{impl}[{i}] is class {g}, insertion order says {a[i]}", _sig(impl, "__getitem__", "index")))
        for sl in (slice(0, 2), slice(1, None), slice(None, None, 2)):
            try:
                g = [idmap.get(id(x), -1) for x in S[sl]]
            except Exception as e:
                out.append((UNARY, f"{impl}[{sl}] raised {type(e).__name__}", _sig(impl, "__getitem__", "slice raised")))
                continue
            if g != a[sl]:
                out.append((ORDER, f"{impl}[{sl}] gives {g}, expected {a[sl]}", _sig(impl, "__getitem__", "slice")))
        for j, o in enumerate(_objs):
            if (o in S) != (keys[j] in a):
                out.append((UNARY, f"{impl}: 'in' is {o in S} for class {keys[j]} with members {a}", _sig(impl, "__contains__", "membership")))
        return out

    x = _objs[arg % len(_objs)]
    kx = keys[arg % len(_objs)]
    exp = a
    raised = None
    try:
        if op == "add":
            exp = a if kx in a else a + [kx]
            S.add(x)
        elif op == "remove":
            exp = [k for k in a if k != kx]
            S.remove(x)
        elif op == "discard":
            exp = [k for k in a if k != kx]
            S.discard(x)
        elif op == "pop":
            if not a:
                return []
            p = S.pop()
            kp = idmap.get(id(p), -1)
            if kp not in a:
                out.append((UNARY, f"{impl}.pop returned class {kp} not in {a}", _sig(impl, op, "returned non-member")))
            exp = [k for k in a if k != kp]
        elif op == "clear":
            exp = []
            S.clear()
        elif op == "delitem":
            if not a:
                return []
            i = arg % len(a)
            exp = a[:i] + a[i + 1 :]
            del S[i]
        elif op == "delslice":
            i = arg % (len(a) + 1)
            exp = a[:i] + a[i + 2 :]
            del S[i : i + 2]
        elif op == "copy":
            C = S.copy() if arg % 2 == 0 else copy.copy(S)
            out += same("copy", view(C, idmap), a, ISO)
            if C is S:
                out.append((ISO, f"{impl}.copy returned self", _sig(impl, op, "copy is self")))
            if has_ttl and C.ttl != ttl:
                out.append((ISO, f"{impl}.copy: ttl {ttl} -> {C.ttl}", _sig(impl, op, "copy ttl")))
            if not immutable and C is not S:
                C.clear()
                out += same("original after clearing the copy", view(S, idmap), a, ISO)
                C2 = S.copy()
                S.clear()
                out += same("copy after clearing the original", view(C2, idmap), a, ISO)
            return out
    except Exception as e:
        raised = e
    if immutable and op != "copy":
        if raised is None and exp != a:
            out.append((IMM, f"ImmutableRdataset.{op} did not refuse", _sig(impl, op, "mutator accepted")))
        out += _cmp_view(IMM, impl, op, "immutable set after mutator", view(S, idmap), a)
        if S.ttl != ttl:
            out.append((IMM, f"ImmutableRdataset.{op}: ttl {ttl} -> {S.ttl}", _sig(impl, op, "ttl changed")))
        return out
    if raised is not None:
        if op == "remove" and kx not in a:
            out += same("self after remove of an absent element", view(S, idmap), a)
            return out
        return [(UNARY, f"{impl}.{op} raised {type(raised).__name__}: {raised}", _sig(impl, op, "raised", exc=type(raised).__name__))]
    out += same("self afterwards", view(S, idmap), exp)
    if has_ttl and S.ttl != ttl:
        out.append((TTL, f"{impl}.{op}: ttl {ttl} -> {S.ttl} although no TTL was merged", _sig(impl, op, "ttl changed without merge")))
    return out
