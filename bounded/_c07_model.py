"""Reference model for the C07 bounded stand-in: record specs with an independent canonical
encoder (RFC 1035 section 3.3 wire layouts, RFC 4034 section 6.2 canonical RDATA form as
amended by RFC 6840 section 5.1), element universes for the set-algebra checks, and the
ordered-set reference.

Nothing here calls the library's encoders: type codes, field layouts, name lower-casing and
octet ordering are written down from the RFCs.  The library is only used to *build* the object
under test from a spec (constructor, from_wire of the model's own wire form, or from_text of
the object's text).
"""

from __future__ import annotations

import dns.name
import dns.rdata

IN, CH = 1, 3

_LOWER = bytes((c + 32 if 65 <= c <= 90 else c) for c in range(256))


# --------------------------------------------------------------------------- names
def n_abs(labels) -> bool:
    return len(labels) > 0 and labels[-1] == b""


def n_wire(labels, lower: bool) -> bytes:
    """Uncompressed wire form; a relative name is completed with the root (the only origin
    that is available to == / hash)."""
    ls = tuple(labels)
    if not n_abs(ls):
        ls = ls + (b"",)
    return b"".join(bytes([len(x)]) + (x.translate(_LOWER) if lower else x) for x in ls)


# --------------------------------------------------------------------------- fields
def f_wire(kind: str, v, canon: bool) -> bytes:
    if kind == "u8":
        return bytes([v])
    if kind == "u16":
        return v.to_bytes(2, "big")
    if kind == "u32":
        return v.to_bytes(4, "big")
    if kind == "name":  # lower-cased in canonical form (RFC 4034 6.2 item 3)
        return n_wire(v, canon)
    if kind == "namek":  # case preserved in canonical form (NSEC next name, RFC 6840 5.1)
        return n_wire(v, False)
    if kind == "cstr":
        return bytes([len(v)]) + v
    if kind == "cstrs":
        return b"".join(bytes([len(s)]) + s for s in v)
    if kind in ("rest", "ipv4", "ipv6"):
        return v
    if kind == "windows":
        return b"".join(bytes([w, len(b)]) + b for (w, b) in v)
    raise ValueError(kind)


def f_arg(kind: str, v):
    """The constructor argument for a field value."""
    if kind in ("name", "namek"):
        return dns.name.Name(tuple(v))
    if kind == "ipv4":
        return ".".join(str(b) for b in v)
    if kind == "ipv6":
        return ":".join("%x" % int.from_bytes(v[i : i + 2], "big") for i in range(0, 16, 2))
    if kind == "cstrs":
        return tuple(v)
    if kind == "windows":
        return tuple((w, b) for (w, b) in v)
    return v


def f_norm(kind: str, v):
    """Restore a field value that went through JSON."""
    if kind in ("name", "namek", "cstrs"):
        return tuple(v)
    if kind == "windows":
        return tuple((w, b) for (w, b) in v)
    return v


# --------------------------------------------------------------------------- value lists
N_BASE = [
    (b"example", b""),
    (b"EXAMPLE", b""),
    (b"eXample", b""),
    (b"mail", b"example", b""),
    (b"MAIL", b"Example", b""),
    (b"mx", b"example", b""),
    (b"",),
    (b"a", b""),
    (b"b", b""),
    (b"ab", b""),
    (b"a", b"b", b""),
    (b"@", b""),
    (b"`", b""),
    (b"[", b""),
    (b"{", b""),
    (b"Z", b""),
    (b"z", b""),
    (b"a",),
    (b"A",),
    (b"mail",),
    (),
]
N_MORE = [
    (b"\xc0", b""),
    (b"\xe0", b""),
    (b"A", b"B", b""),
    (b"a", b"b"),
    (b"mail", b"example"),
    (b"Mail", b"EXAMPLE"),
    (b"*", b"example", b""),
    (b"a" * 63, b""),
    (b"A" * 63, b""),
    (b"a" * 62 + b"b", b""),
    (b"az", b""),
    (b"AZ", b""),
    (b"a\x00", b""),
    (b"example",),
]
U16 = [10, 0, 9, 256, 65535]
U8 = [8, 0, 255]
U32 = [3600, 0, 1, 2**31, 2**32 - 1]
CS = [b"a", b"", b"A", b"ab", b"b", b"a b"]
CSS = [(b"a",), (b"A",), (b"a", b"b"), (b"ab",), (b"",), (b"a", b""), (b"b", b"a"), (b"x" * 255,)]
BL = [b"\x01\x02", b"\x01", b"\x01\x02\x00", b"\xff", b"\x00", b"\x01\x03"]
D20 = [bytes(range(20)), bytes(range(1, 21)), bytes([0xFF] * 20), bytes([0] * 19 + [1])]
V4 = [bytes(x) for x in ([1, 2, 3, 4], [1, 2, 3, 5], [200, 0, 0, 1], [0, 0, 0, 0], [255, 255, 255, 255], [1, 2, 4, 3], [127, 255, 0, 128])]
V6 = [
    bytes(15) + b"\x01",
    bytes(16),
    b"\xff" * 16,
    bytes.fromhex("20010db8000000000000000000000001"),
    bytes.fromhex("20010db8000000000000000000000100"),
    bytes.fromhex("80000000000000000000000000000000"),
]
WIN = [((0, b"\x40"),), ((0, b"\x40\x01"),), ((0, b"\x40"), (1, b"\x80")), ((0, b"\x62\x01\x80\x08\x00\x03"),)]
NAME = "NAME"  # placeholder replaced by the tier's name list

# type name -> (IANA type code, field kinds, value list per field, lives in dns/rdtypes/ANY)
TYPES = {
    "A": (1, ["ipv4"], [V4], False),
    "NS": (2, ["name"], [NAME], True),
    "CNAME": (5, ["name"], [NAME], True),
    "SOA": (6, ["name", "name", "u32", "u32", "u32", "u32", "u32"], [NAME, NAME, U32, U32, U32, U32, U32], True),
    "PTR": (12, ["name"], [NAME], True),
    "HINFO": (13, ["cstr", "cstr"], [CS, CS], True),
    "MX": (15, ["u16", "name"], [U16, NAME], True),
    "TXT": (16, ["cstrs"], [CSS], True),
    "RP": (17, ["name", "name"], [NAME, NAME], True),
    "AFSDB": (18, ["u16", "name"], [U16, NAME], True),
    "RT": (21, ["u16", "name"], [U16, NAME], True),
    "PX": (26, ["u16", "name", "name"], [U16, NAME, NAME], False),
    "AAAA": (28, ["ipv6"], [V6], False),
    "SRV": (33, ["u16", "u16", "u16", "name"], [U16, U16, U16, NAME], False),
    "NAPTR": (
        35,
        ["u16", "u16", "cstr", "cstr", "cstr", "name"],
        [U16, U16, [b"s", b"", b"S"], [b"SIP+D2U", b"", b"sip+d2u"], [b"", b"!^.*$!sip:a@b!"], NAME],
        False,
    ),
    "KX": (36, ["u16", "name"], [U16, NAME], False),
    "DNAME": (39, ["name"], [NAME], True),
    "DS": (43, ["u16", "u8", "u8", "rest"], [[12345, 0, 65535], U8, [1], D20], True),
    "RRSIG": (
        46,
        ["u16", "u8", "u8", "u32", "u32", "u32", "u16", "name", "rest"],
        [[1, 15, 47], [8, 13], [2, 0], [3600, 0, 2**32 - 1], [1577836800, 0, 2**32 - 1], [1041379200, 1], [2143, 0, 65535], NAME, BL],
        True,
    ),
    "NSEC": (47, ["namek", "windows"], [NAME, WIN], True),
    "DNSKEY": (48, ["u16", "u8", "u8", "rest"], [[256, 257, 0], [3], [8, 13], BL], True),
    "SPF": (99, ["cstrs"], [CSS], True),
    "CAA": (257, ["u8", "cstr", "rest"], [[0, 128], [b"issue", b"iodef", b"Issue"], [b"ca.example.net", b"CA.example.net", b""]], True),
    "TYPE65280": (65280, ["rest"], [BL + [b"", b"\x01\x02\x03"]], True),
}

# Types for which the property's parenthesis "embedded names compare case-insensitively" is
# asserted by the oracle: those of RFC 4034 6.2.  For NSEC (RFC 6840 5.1 removed it from that
# list) case variants are generated but the oracle makes no claim about them.
CASE_CLAIM = {"NS", "CNAME", "SOA", "PTR", "MX", "RP", "AFSDB", "RT", "PX", "SRV", "NAPTR", "KX", "DNAME", "RRSIG"}

FAMILIES = [["NS", "CNAME", "PTR", "DNAME"], ["MX", "AFSDB", "RT", "KX"], ["TXT", "SPF"]]


def spec_fields(spec):
    kinds = TYPES[spec["t"]][1]
    return [(k, f_norm(k, v)) for k, v in zip(kinds, spec["f"])]


def spec_relative(spec) -> bool:
    return any(k in ("name", "namek") and not n_abs(v) for k, v in spec_fields(spec))


def spec_has_name(spec) -> bool:
    return any(k in ("name", "namek") for k in TYPES[spec["t"]][1])


def spec_wire(spec, canon: bool) -> bytes:
    return b"".join(f_wire(k, v, canon) for k, v in spec_fields(spec))


def spec_key(spec):
    """Equality key of the model: class, type, relativity, canonical octets."""
    return (spec["c"], TYPES[spec["t"]][0], spec_relative(spec), spec_wire(spec, True))


def spec_casefold_key(spec):
    """Key with *every* name lower-cased irrespective of the type's canonical rule; two specs
    with equal casefold keys but different keys differ only in the case of a name that the
    canonical form preserves (no oracle claim is made about such a pair)."""
    out = []
    for k, v in spec_fields(spec):
        out.append(f_wire("name" if k == "namek" else k, v, True))
    return (spec["c"], TYPES[spec["t"]][0], spec_relative(spec), b"".join(out))


def build(spec, route: str):
    """Build the object under test.  Routes: 'ctor' (class constructor), 'wire' (from_wire of
    the model's case-preserving wire form), 'text' (from_text of the text of the ctor object)."""
    code = TYPES[spec["t"]][0]
    rdclass = spec["c"]
    if route == "wire":
        w = spec_wire(spec, False)
        return dns.rdata.from_wire(rdclass, code, w, 0, len(w))
    cls = dns.rdata.get_rdata_class(rdclass, code)
    args = [f_arg(k, v) for k, v in spec_fields(spec)]
    obj = cls(rdclass, code, *args)
    if route == "text":
        return dns.rdata.from_text(rdclass, code, obj.to_text(), relativize=False)
    return obj


def gen_specs(rng, thorough: bool):
    """One-factor variation around a base tuple for every type (every listed value of every
    field once), seeded random combinations, and a small class-CH group for the types that are
    class independent."""
    names = N_BASE + (N_MORE if thorough else [])
    nrand = 30 if thorough else 6
    out = []
    for t, (_code, kinds, lists, any_class) in TYPES.items():
        lists = [names if l is NAME else l for l in lists]
        base = [l[0] for l in lists]
        seen = set()

        def emit(c, fields):
            k = (c, repr(fields))
            if k not in seen:
                seen.add(k)
                out.append({"c": c, "t": t, "f": list(fields)})

        emit(IN, base)
        for i, l in enumerate(lists):
            for v in l[1:]:
                f = list(base)
                f[i] = v
                emit(IN, f)
        # two-name types: the second name varied against a non-base first name as well
        for _ in range(nrand):
            emit(IN, [rng.choice(l) for l in lists])
        if any_class:
            emit(CH, base)
            for i, l in enumerate(lists):
                if len(l) > 1:
                    f = list(base)
                    f[i] = l[1]
                    emit(CH, f)
    return out


# --------------------------------------------------------------------------- ordered-set model
def m_dedupe(keys):
    out = []
    for k in keys:
        if k not in out:
            out.append(k)
    return out


def m_union(a, b):
    return a + [k for k in b if k not in a]


def m_inter(a, b):
    return [k for k in a if k in b]


def m_diff(a, b):
    return [k for k in a if k not in b]


def m_sym(a, b):
    return [k for k in a if k not in b] + [k for k in b if k not in a]


M_BIN = {"union": m_union, "inter": m_inter, "diff": m_diff, "sym": m_sym}
