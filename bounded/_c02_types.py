"""Per-type specifications (fields, reference wire encoders, reference text) for C02/C05.

Written from the RFCs that define each type (1035, 1183, 1706, 1712, 1876, 2163, 2230, 2782,
2915/3403, 2930, 3123, 3596, 3597, 4025, 4034, 4255, 4398, 4408, 4701, 5155, 5205/8005, 6672,
6698, 6742, 6844/8659, 6891, 7043, 7477, 7553, 7871, 7873, 7929, 8162, 8777, 8914, 8945, 8976,
9460, 9567, 9606, 9859 …), not from the library's encoders.
"""

from __future__ import annotations

import base64
import binascii
import struct

import dns.name
import dns.rdata
import dns.rdataclass
import dns.rdatatype

import bounded._c02_model as M
from bounded._c02_model import (
    ANY,
    CH,
    IN,
    Blob,
    Bool,
    CharStr,
    Field,
    Fixed,
    IPv4,
    IPv6,
    NameF,
    NoRefText,
    RdType,
    U,
    _rand_bytes,
    bytes_class,
    esc_ddd,
    is_abs,
    mkname,
    name_text,
    name_wire,
    octet_class,
    relativize_labels,
)

# --------------------------------------------------------------------------- composite kinds


class QStr(Blob):
    """Opaque remainder whose presentation form is one quoted string (CAA value, URI target)."""

    kind = "qstr"

    def boundary(self, thorough):
        out = [(bytes([c]), octet_class(c)) for c in M.octets()]
        out += [
            (b'a"b', "octet-dquote"),
            (b"a\\b", "octet-backslash"),
            (b"a b;c", "octet-space"),
            (b"\xc3\xa9", "octet-80-ff"),
            (b"\xff\xfe", "octet-80-ff"),
            (b"https://example.com/a?b=c", "plain"),
            (b"x" * 255, "len>=255"),
            (b"x" * 256, "len>=255"),
            (b"x" * 1000, "len>=255"),
            (b"", "empty"),
        ]
        return [(b, l) for (b, l) in out if self._fit(b)]

    def rand(self, rng):
        n = max(self.lo, rng.choice([1, 2, 3, 10, 40, 300]))
        b = _rand_bytes(rng, n)
        return b, self.classify(b)

    def classify(self, v):
        return bytes_class(v)

    def text(self, v, vals):
        return '"' + esc_ddd(v) + '"'


class FloatStr(CharStr):
    """GPOS: a character-string holding a decimal number in a range."""

    kind = "floatstr"

    def __init__(self, attr, limit):
        super().__init__(attr, lo=1, nominal=b"12.5")
        self.limit = limit

    def boundary(self, thorough):
        L = self.limit
        out = [b"0", b"-0", b"+0", b"1", b"12.5", b"-12.5", b"+12.5", b".5", b"5.", b"-.5", b"0.000001"]
        if L is not None:
            out += [str(L).encode(), ("-%d" % L).encode(), ("%d.0" % L).encode(), ("%d.000" % (L - 1)).encode()]
        else:
            out += [b"99999999.99", b"-9999.5"]
        out += [b"0" * 254 + b"1", b"1." + b"0" * 253]
        return [(b, "floatstr") for b in out]

    def rand(self, rng):
        L = self.limit or 100000
        s = "%s%d.%d" % (rng.choice(["", "-", "+"]), rng.randrange(L), rng.randrange(1000))
        return s.encode(), "floatstr"

    def text(self, v, vals):
        return bytes(v).decode()


class TxtStrings(Field):
    kind = "txtstrings"

    def nominal(self):
        return [b"hello world"]

    def boundary(self, thorough):
        cs = CharStr("x")
        out = [([b], l) for (b, l) in cs.boundary(thorough)]
        out += [
            ([b"", b""], "empty"),
            ([b"a", b"", b"b"], "empty"),
            ([b"a"] * 40, "many"),
            ([b"\xff" * 255] * 3, "octet-80-ff"),
            ([b'"', b"\\", b" "], "octet-dquote"),
            ([b"v=spf1 -all"], "plain"),
        ]
        if thorough:
            out.append(([b"x" * 255] * 255, "many"))
        return out

    def rand(self, rng):
        cs = CharStr("x")
        v = [cs.rand(rng)[0] for _ in range(rng.choice([1, 1, 2, 3, 6]))]
        return v, self.classify(v)

    def classify(self, v):
        if any(len(s) == 0 for s in v):
            return "empty"
        return bytes_class(b"".join(bytes(s) for s in v))

    def ctor(self, v):
        return [bytes(s) for s in v]

    def wire(self, v, vals, origin):
        return b"".join(bytes([len(s)]) + bytes(s) for s in v)

    def text(self, v, vals):
        return " ".join('"' + esc_ddd(s) + '"' for s in v)

    def match(self, got, v):
        return tuple(got) == tuple(bytes(s) for s in v)


def bitmap_types(windows):
    out = []
    for w, bm in windows:
        for i, byte in enumerate(bytes(bm)):
            for j in range(8):
                if byte & (0x80 >> j):
                    out.append(w * 256 + i * 8 + j)
    return out


def bitmap_canonical(windows):
    for w, bm in windows:
        bm = bytes(bm)
        if len(bm) == 0 or bm[-1] == 0:
            return False
    return 0 not in bitmap_types(windows)


def types_to_windows(types):
    wins = {}
    for t in sorted(set(types)):
        w, o = divmod(t, 256)
        b = wins.setdefault(w, bytearray(32))
        b[o // 8] |= 0x80 >> (o % 8)
    return [[w, bytes(b).rstrip(b"\x00")] for w, b in sorted(wins.items())]


class TypeBitmap(Field):
    """RFC 4034 4.1.2 type bit maps: (window, length, bitmap)*, windows ascending."""

    kind = "bitmap"

    def nominal(self):
        return types_to_windows([1, 2, 46, 47])

    def boundary(self, thorough):
        out = [([], "empty-bitmap")]
        for t in (list(range(1, 256)) if M.MODE["FULL_INTS"] else [t for t in M.REP_U8 if t]) + [256, 257, 511, 512, 32768, 32769, 65280, 65534, 65535]:
            out.append((types_to_windows([t]), "one-type"))
        out.append((types_to_windows(range(1, 256)), "full-window0"))
        out.append((types_to_windows([255 * 256 + i for i in range(256)]), "full-window255"))
        out.append((types_to_windows([w * 256 + 1 for w in range(256)]), "all-windows"))
        out.append((types_to_windows([1, 256, 65535]), "three-windows"))
        out.append(([[0, b"\x40\x00"]], "noncanonical-trailing-zero"))
        out.append(([[0, b"\x00"]], "noncanonical-zero-window"))
        out.append(([[0, b"\xc0"]], "noncanonical-bit0"))
        out.append(([[0, b"\x40" + b"\x00" * 31]], "noncanonical-trailing-zero"))
        return out

    def rand(self, rng):
        ts = [rng.choice([rng.randrange(1, 300), rng.randrange(1, 65536)]) for _ in range(rng.choice([1, 2, 5, 20]))]
        return types_to_windows(ts), "random"

    def classify(self, v):
        return "bitmap" if bitmap_canonical(v) else "noncanonical-bitmap"

    def ctor(self, v):
        return [(int(w), bytes(b)) for w, b in v]

    def wire(self, v, vals, origin):
        return b"".join(bytes([w, len(b)]) + bytes(b) for w, b in v)

    def text(self, v, vals):
        ts = bitmap_types(v)
        if not ts:
            return ""
        return " ".join("TYPE%d" % t for t in ts)

    def match(self, got, v):
        return [(w, bytes(b)) for w, b in got] == [(int(w), bytes(b)) for w, b in v]


class NameList(Field):
    kind = "namelist"

    def nominal(self):
        return [[b"rvs", b"example", b""]]

    def boundary(self, thorough):
        nf = NameF("x")
        out = [([], "no-names")]
        out += [([n], l) for (n, l) in nf.boundary(thorough)]
        out += [([[b"a", b""], [b"b", b"example", b""], [b""]], "three-names")]
        return out

    def rand(self, rng):
        nf = NameF("x")
        v = [nf.rand(rng)[0] for _ in range(rng.choice([0, 1, 2, 4]))]
        return v, self.classify(v)

    def classify(self, v):
        if not v:
            return "no-names"
        nf = NameF("x")
        cl = [nf.classify(n) for n in v]
        for c in cl:
            if c not in ("name-plain",):
                return c
        return "name-plain"

    def ctor(self, v):
        return [mkname(n) for n in v]

    def wire(self, v, vals, origin):
        return b"".join(name_wire(n, origin) for n in v)

    def text(self, v, vals):
        if not v:
            return ""
        return " ".join(name_text(n) for n in v)

    def match(self, got, v):
        return [list(n.labels) for n in got] == [[bytes(x) for x in n] for n in v]

    def has_name(self):
        return True

    def relativized(self, v, origin):
        out = []
        for n in v:
            r = relativize_labels(n, origin)
            out.append(n if r is None else r)
        return out


class GatewayF(Field):
    """IPSECKEY gateway / AMTRELAY relay: value [type, payload]."""

    kind = "gateway"

    def __init__(self, attr, type_param, gw_param):
        super().__init__(attr)
        self.type_param = type_param
        self.gw_param = gw_param

    def nominal(self):
        return [1, bytes([192, 0, 2, 7])]

    def boundary(self, thorough):
        out = [([0, None], "gw-none")]
        out += [([1, b], "gw-ipv4") for (b, _) in IPv4("x").boundary(thorough)[:40]]
        out += [([2, b], "gw-ipv6") for (b, _) in IPv6("x").boundary(thorough)[:200]]
        out += [([3, n], "gw-" + l) for (n, l) in NameF("x").boundary(thorough)]
        return out

    def rand(self, rng):
        t = rng.randrange(4)
        if t == 0:
            return [0, None], "gw-none"
        if t == 1:
            return [1, IPv4("x").rand(rng)[0]], "gw-ipv4"
        if t == 2:
            return [2, IPv6("x").rand(rng)[0]], "gw-ipv6"
        n, l = NameF("x").rand(rng)
        return [3, n], "gw-" + l

    def classify(self, v):
        return "gw-type%d" % v[0]

    def ctor_items(self, v):
        t, p = v
        if t == 0:
            g = None
        elif t == 1:
            g = IPv4("x").text(p, None)
        elif t == 2:
            g = IPv6("x").text(p, None)
        else:
            g = mkname(p)
        return {self.type_param: t, self.gw_param: g}

    def payload_wire(self, v, origin):
        t, p = v
        if t == 0:
            return b""
        if t in (1, 2):
            return bytes(p)
        return name_wire(p, origin)

    def text(self, v, vals):
        t, p = v
        if t == 0:
            return "."
        if t == 1:
            return IPv4("x").text(p, None)
        if t == 2:
            return IPv6("x").text(p, None)
        return name_text(p)

    def match_rd(self, rd, v):
        t, p = v
        if getattr(rd, self.type_param) != t:
            return False
        g = getattr(rd, self.gw_param)
        if t == 0:
            return g is None
        if t == 1:
            return IPv4("x").match(g, p)
        if t == 2:
            return IPv6("x").match(g, p)
        return NameF("x").match(g, p)

    def has_name(self):
        return True

    def relativized(self, v, origin):
        t, p = v
        if t != 3:
            return v
        r = relativize_labels(p, origin)
        return v if r is None else [3, r]


def _mask_prefix(addr, bits):
    addr = bytearray(addr)
    n = (bits + 7) // 8
    addr = addr[:n]
    if bits % 8 and n:
        addr[-1] &= (0xFF << (8 - bits % 8)) & 0xFF
    return bytes(addr)


class APLItems(Field):
    """RFC 3123: list of [family, negation, address, prefix]."""

    kind = "apl"

    def nominal(self):
        return [[1, False, bytes([192, 168, 32, 0]), 21]]

    def boundary(self, thorough):
        out = [([], "apl-empty")]
        for neg in (False, True):
            for pfx in (0, 1, 8, 24, 31, 32):
                for a in (bytes(4), bytes([10, 0, 0, 0]), bytes([10, 0, 0, 1]), bytes([0, 0, 0, 1]), b"\xff" * 4):
                    out.append(([[1, neg, a, pfx]], "apl-ipv4"))
            for pfx in (0, 1, 64, 127, 128):
                for a in (bytes(16), bytes.fromhex("ff" + "00" * 15), bytes.fromhex("00" * 15 + "01"), b"\xff" * 16, bytes.fromhex("20010db8" + "00" * 12)):
                    out.append(([[2, neg, a, pfx]], "apl-ipv6"))
            for fam in (0, 3, 255, 65535):
                for a in (b"", b"\x01", b"\xab" * 63):
                    for pfx in (0, 255):
                        out.append(([[fam, neg, a, pfx]], "apl-other-family"))
        out.append(([[1, False, bytes([1, 2, 3, 4]), 32], [2, True, bytes(16), 0], [1, True, bytes(4), 0]], "apl-multi"))
        return out

    def rand(self, rng):
        items = []
        for _ in range(rng.choice([1, 1, 2, 4])):
            fam = rng.choice([1, 1, 2, 2, 3])
            neg = rng.random() < 0.5
            if fam == 1:
                a, pfx = IPv4("x").rand(rng)[0], rng.randint(0, 32)
                if rng.random() < 0.5:
                    a = a[: rng.randrange(4)].ljust(4, b"\0")
            elif fam == 2:
                a, pfx = IPv6("x").rand(rng)[0], rng.randint(0, 128)
            else:
                a = bytes(rng.randrange(1, 256) for _ in range(rng.randrange(0, 20)))
                pfx = rng.randint(0, 255)
            items.append([fam, neg, a, pfx])
        return items, "apl-random"

    def classify(self, v):
        return "apl-empty" if not v else "apl-family%d" % (v[0][0] if v[0][0] in (1, 2) else 0)

    def ctor(self, v):
        import dns.rdtypes.IN.APL as M

        out = []
        for fam, neg, a, pfx in v:
            if fam in (1, 2):
                arg = bytes(a)
            else:
                arg = binascii.hexlify(bytes(a))
            out.append(M.APLItem(fam, bool(neg), arg, pfx))
        return out

    def wire(self, v, vals, origin):
        out = b""
        for fam, neg, a, pfx in v:
            a = bytes(a)
            if fam in (1, 2):
                a = a.rstrip(b"\x00")
            assert len(a) < 128
            out += struct.pack("!HBB", fam, pfx, len(a) | (0x80 if neg else 0)) + a
        return out

    def text(self, v, vals):
        if not v:
            return ""
        parts = []
        for fam, neg, a, pfx in v:
            if fam == 1:
                t = IPv4("x").text(a, None)
            elif fam == 2:
                t = IPv6("x").text(a, None)
            else:
                raise NoRefText
            parts.append("%s%d:%s/%d" % ("!" if neg else "", fam, t, pfx))
        return " ".join(parts)

    def match(self, got, v):
        if len(got) != len(v):
            return False
        for it, (fam, neg, a, pfx) in zip(got, v):
            if it.family != fam or it.negation != bool(neg) or it.prefix != pfx:
                return False
            if fam == 1 and not IPv4("x").match(it.address, a):
                return False
            if fam == 2 and not IPv6("x").match(it.address, a):
                return False
            if fam not in (1, 2) and binascii.unhexlify(it.address) != bytes(a):
                return False
        return True


# SVCB parameter model: list of [key, [kind, data]]; kinds: keys, strs, none, port, v4, v6, raw
_SVCB_KIND = {0: "keys", 1: "strs", 2: "none", 3: "port", 4: "v4", 5: "raw", 6: "v6", 8: "none", 10: "strs"}


def svcb_value_wire(kind, data):
    if kind == "keys":
        return b"".join(struct.pack("!H", k) for k in data)
    if kind == "strs":
        return b"".join(bytes([len(s)]) + bytes(s) for s in data)
    if kind == "none":
        return b""
    if kind == "port":
        return struct.pack("!H", data)
    if kind in ("v4", "v6"):
        return b"".join(bytes(a) for a in data)
    if kind == "raw":
        return bytes(data)
    raise ValueError(kind)


class SvcParams(Field):
    kind = "svcparams"

    def nominal(self):
        return [[1, ["strs", [b"h2", b"h3"]]], [3, ["port", 8443]]]

    def _p(self, key, data):
        return [key, [_SVCB_KIND.get(key, "raw"), data]]

    def boundary(self, thorough):
        p = self._p
        out = [([], "svc-noparams")]
        for port in (0, 1, 65535):
            out.append(([p(3, port)], "svc-port"))
        for cs, l in CharStr("x", lo=1).boundary(thorough):
            out.append(([p(1, [cs])], "svc-alpn-" + l))
            out.append(([p(10, [cs])], "svc-docpath-" + l))
        out.append(([p(1, [b"a,b", b"c\\d", b'e"f'])], "svc-alpn-octet-,"))
        out.append(([p(1, [b"h2"] * 50)], "svc-alpn-many"))
        out.append(([p(1, [b"h2"]), p(2, None)], "svc-no-default-alpn"))
        out.append(([p(0, [1, 3]), p(1, [b"h2"]), p(3, 53)], "svc-mandatory"))
        out.append(([p(0, [1, 4, 6, 65535]), p(1, [b"h2"]), p(4, [bytes([1, 2, 3, 4])]), p(6, [bytes(16)]), p(65535, b"x")], "svc-mandatory"))
        for a, _ in IPv4("x").boundary(thorough)[:30]:
            out.append(([p(4, [a])], "svc-ipv4hint"))
        out.append(([p(4, [bytes([1, 2, 3, 4])] * 20)], "svc-ipv4hint"))
        for a, _ in IPv6("x").boundary(thorough)[:100]:
            out.append(([p(6, [a])], "svc-ipv6hint"))
        out.append(([p(6, [bytes(16), b"\xff" * 16])], "svc-ipv6hint"))
        for b, l in Blob("x").boundary(thorough):
            if len(b) <= 300:
                out.append(([p(5, b)], "svc-ech-" + l))
        out.append(([p(8, None)], "svc-ohttp"))
        for b, l in QStr("x").boundary(thorough):
            if len(b) and len(b) <= 300:
                out.append(([p(7, b)], "svc-dohpath-" + l))
                out.append(([p(65280, b)], "svc-generic-" + l))
        for k in (9, 11, 255, 256, 65279, 65280, 65534, 65535):
            out.append(([p(k, b"v")], "svc-generic-key"))
            out.append(([p(k, None)], "svc-generic-empty"))
        out.append(([p(7, None)], "svc-generic-empty"))
        out.append(([p(1, [b"h2"]), p(2, None), p(3, 443), p(4, [bytes([1, 2, 3, 4])]), p(5, b"ech"), p(6, [bytes(16)]), p(7, b"/dns-query{?dns}"), p(8, None), p(10, [b"a"]), p(99, b"z")], "svc-all"))
        return out

    def rand(self, rng):
        keys = sorted(set(rng.choice([1, 3, 4, 5, 6, 7, 8, 10, 11, 200, 65535]) for _ in range(rng.choice([1, 2, 3, 5]))))
        out = []
        for k in keys:
            kind = _SVCB_KIND.get(k, "raw")
            if kind == "strs":
                d = [CharStr("x", lo=1).rand(rng)[0] for _ in range(rng.choice([1, 2, 3]))]
            elif kind == "port":
                d = rng.randrange(65536)
            elif kind == "v4":
                d = [IPv4("x").rand(rng)[0] for _ in range(rng.choice([1, 2]))]
            elif kind == "v6":
                d = [IPv6("x").rand(rng)[0] for _ in range(rng.choice([1, 2]))]
            elif kind == "none":
                d = None
            else:
                d = _rand_bytes(rng, rng.choice([1, 2, 10, 50]))
            out.append([k, [kind, d]])
        return out, "svc-random"

    def classify(self, v):
        return "svc-noparams" if not v else "svc-params"

    def ctor(self, v):
        import dns.rdtypes.svcbbase as S

        params = {}
        for key, (kind, data) in v:
            k = S.ParamKey.make(key)
            if kind == "keys":
                params[k] = S.MandatoryParam(list(data))
            elif kind == "strs":
                cls = S.ALPNParam if key == 1 else S.DoCPathParam
                params[k] = cls([bytes(s) for s in data])
            elif kind == "none":
                params[k] = None
            elif kind == "port":
                params[k] = S.PortParam(data)
            elif kind == "v4":
                params[k] = S.IPv4HintParam([IPv4("x").text(a, None) for a in data])
            elif kind == "v6":
                params[k] = S.IPv6HintParam([IPv6("x").text(a, None) for a in data])
            elif kind == "raw":
                if key == 5 and data is not None:
                    params[k] = S.ECHParam(bytes(data))
                elif data is None or len(data) == 0:
                    params[k] = None
                else:
                    params[k] = S.GenericParam(bytes(data))
        return params

    def wire(self, v, vals, origin):
        out = b""
        for key, (kind, data) in v:
            if kind == "raw" and data is None:
                val = b""
            else:
                val = svcb_value_wire(kind, data)
            out += struct.pack("!HH", key, len(val)) + val
        return out

    def match(self, got, v):
        if sorted(int(k) for k in got.keys()) != [k for k, _ in v]:
            return False
        for key, (kind, data) in v:
            pv = got[key]
            if kind == "none" or (kind == "raw" and (data is None or (len(data) == 0 and key != 5))):
                if pv is not None:
                    return False
            elif kind == "port":
                if pv.port != data:
                    return False
            elif kind == "strs":
                if tuple(pv.ids) != tuple(bytes(s) for s in data):
                    return False
            elif kind == "keys":
                if [int(k) for k in pv.keys] != list(data):
                    return False
            elif kind == "raw":
                if (pv.ech if key == 5 else pv.value) != bytes(data):
                    return False
        return True


# EDNS option model: [otype, kind, data]
class Options(Field):
    kind = "options"

    def nominal(self):
        return [[3, "raw", b"ns1"]]

    def boundary(self, thorough):
        out = [([], "opt-empty")]
        for b, l in Blob("x").boundary(thorough)[::6]:
            if len(b) < 2000:
                out.append(([[3, "raw", b]], "opt-nsid"))
                out.append(([[12, "raw", b]], "opt-generic-padding"))
                out.append(([[65001, "raw", b]], "opt-generic"))
        for ot in (0, 1, 2, 4, 5, 6, 7, 9, 11, 13, 14, 16, 17, 19, 20, 21, 26, 65534, 65535):
            out.append(([[ot, "raw", b"\x00\x01"]], "opt-generic"))
        for fam, ab in ((1, 32), (2, 128)):
            for src in sorted({0, 1, 7, 8, 9, 24, 25, ab - 1, ab, 56}):
                if src > ab:
                    continue
                for scope in (0, 1, ab):
                    for a in (b"\xff" * (ab // 8), bytes(range(1, ab // 8 + 1)), bytes(ab // 8)):
                        out.append(([[8, "ecs", [fam, src, scope, a]]], "opt-ecs"))
        for code in (0, 1, 24, 32, 33, 49151, 65535):
            for txt in (None, "", "x", "blocked by policy", "café ☃", "a" * 300):
                out.append(([[15, "ede", [code, txt]]], "opt-ede"))
        for srv in (b"", b"\x01" * 8, b"\xff" * 32, b"\x02" * 9):
            out.append(([[10, "cookie", [bytes(range(8)), srv]]], "opt-cookie"))
        for n, l in NameF("x").boundary(thorough)[:18]:
            out.append(([[18, "name", n]], "opt-reportchannel"))
        for ot in (22, 23, 24, 25):
            for txt in ("", "en", "mailto:abuse@example.net", "é中", "x" * 300):
                out.append(([[ot, "str", txt]], "opt-str"))
        out.append(([[10, "cookie", [bytes(8), b""]], [3, "raw", b""], [8, "ecs", [1, 24, 0, bytes([1, 2, 3, 0])]], [15, "ede", [3, "stale"]], [3, "raw", b"dup"]], "opt-multi"))
        return out

    def rand(self, rng):
        out = []
        for _ in range(rng.choice([1, 1, 2, 4])):
            k = rng.randrange(6)
            if k == 0:
                out.append([rng.choice([3, 12, 5, 65001, 11]), "raw", _rand_bytes(rng, rng.choice([0, 1, 8, 40]))])
            elif k == 1:
                fam = rng.choice([1, 2])
                ab = 32 if fam == 1 else 128
                out.append([8, "ecs", [fam, rng.randint(0, ab), rng.randint(0, ab), bytes(rng.randrange(256) for _ in range(ab // 8))]])
            elif k == 2:
                out.append([15, "ede", [rng.randrange(65536), rng.choice([None, "x", "some text", "ü"])]])
            elif k == 3:
                out.append([10, "cookie", [bytes(rng.randrange(256) for _ in range(8)), bytes(rng.randrange(256) for _ in range(rng.choice([0, 8, 16, 32])))]])
            elif k == 4:
                out.append([18, "name", NameF("x").rand(rng)[0]])
            else:
                out.append([rng.choice([22, 23, 24, 25]), "str", rng.choice(["", "en", "a b c", "é"])])
        return out, "opt-random"

    def classify(self, v):
        return "opt-empty" if not v else "opt-" + v[0][1]

    def ctor(self, v):
        import dns.edns as E

        out = []
        for ot, kind, d in v:
            if kind == "raw":
                out.append(E.NSIDOption(bytes(d)) if ot == 3 else E.GenericOption(ot, bytes(d)))
            elif kind == "ecs":
                fam, src, scope, a = d
                txt = IPv4("x").text(a, None) if fam == 1 else IPv6("x").text(a, None)
                out.append(E.ECSOption(txt, src, scope))
            elif kind == "ede":
                out.append(E.EDEOption(d[0], d[1]))
            elif kind == "cookie":
                out.append(E.CookieOption(bytes(d[0]), bytes(d[1])))
            elif kind == "name":
                out.append(E.ReportChannelOption(mkname(d)))
            elif kind == "str":
                cls = {22: E.EDEExtraTextLanguageOption, 23: E.FilteringContactOption, 24: E.FilteringOrganizationOption, 25: E.FilteringDBOption}[ot]
                out.append(cls(d))
        return out

    @staticmethod
    def option_wire(ot, kind, d):
        if kind == "raw":
            return bytes(d)
        if kind == "ecs":
            fam, src, scope, a = d
            return struct.pack("!HBB", fam, src, scope) + _mask_prefix(a, src)
        if kind == "ede":
            return struct.pack("!H", d[0]) + (d[1].encode("utf-8") if d[1] is not None else b"")
        if kind == "cookie":
            return bytes(d[0]) + bytes(d[1])
        if kind == "name":
            return name_wire(d)
        if kind == "str":
            return d.encode("utf-8")
        raise ValueError(kind)

    def wire(self, v, vals, origin):
        out = b""
        for ot, kind, d in v:
            w = self.option_wire(ot, kind, d)
            out += struct.pack("!HH", ot, len(w)) + w
        return out

    def match(self, got, v):
        if len(got) != len(v):
            return False
        for o, (ot, kind, d) in zip(got, v):
            if int(o.otype) != ot:
                return False
            if kind == "ede" and (int(o.code) != d[0] or (o.text or None) != (d[1] or None)):
                return False
            if kind == "cookie" and (o.client != bytes(d[0]) or o.server != bytes(d[1])):
                return False
            if kind == "str":
                a = getattr(o, {22: "language", 23: "contact", 24: "organization", 25: "db"}[ot])
                if a != d:
                    return False
            if kind == "ecs" and (o.family != d[0] or o.srclen != d[1] or o.scopelen != d[2]):
                return False
        return True


# --------------------------------------------------------------------------- LOC helpers


class LocCoord(Field):
    """LOC latitude/longitude as the 32-bit wire value (2^31 = equator / prime meridian)."""

    kind = "loccoord"

    def __init__(self, attr, maxdeg):
        super().__init__(attr)
        self.maxdeg = maxdeg
        self.span = maxdeg * 3600000

    def nominal(self):
        return 0x80000000 + 42 * 3600000 + 21 * 60000 + 54 * 1000 + 5

    def boundary(self, thorough):
        c = 0x80000000
        vs = {c, c + 1, c - 1, c + 999, c + 1000, c + 59999, c + 60000, c + 3599999, c + 3600000, c - 3600000, c - 3599999}
        vs |= {c + self.span, c - self.span, c + self.span - 1, c - self.span + 1, self.nominal(), c - (self.nominal() - c)}
        return [(v, "loc-coord") for v in sorted(vs)]

    def rand(self, rng):
        return 0x80000000 + rng.randint(-self.span, self.span), "loc-coord"

    @staticmethod
    def parts(v):
        ms = v - 0x80000000
        sign = 1 if ms >= 0 else -1
        ms = abs(ms)
        d, ms = divmod(ms, 3600000)
        m, ms = divmod(ms, 60000)
        s, ms = divmod(ms, 1000)
        return (d, m, s, ms, sign)

    def ctor(self, v):
        return self.parts(v)

    def wire(self, v, vals, origin):
        return struct.pack("!I", v)

    def text(self, v, vals):
        d, m, s, ms, sign = self.parts(v)
        hemi = ("N" if sign > 0 else "S") if self.maxdeg == 90 else ("E" if sign > 0 else "W")
        return "%d %d %d.%03d %s" % (d, m, s, ms, hemi)

    def match(self, got, v):
        return tuple(got) == self.parts(v)


class LocAlt(Field):
    kind = "localt"

    def nominal(self):
        return 10000000 + 2400

    def boundary(self, thorough):
        b = 10000000
        vs = {0, 1, b - 1, b, b + 1, b + 29, b + 57, b + 58, b + 99, b + 100, b + 101, b - 29, b - 100, 0x7FFFFFFF, 0x80000000, 0xFFFFFFFE, 0xFFFFFFFF}
        vs |= set(range(b, b + 200))
        if thorough:
            vs |= set(range(b - 2000, b + 20000))
        return [(v, "loc-altitude") for v in sorted(vs)]

    def rand(self, rng):
        return rng.choice([rng.randrange(1 << 32), 10000000 + rng.randint(-100000, 900000)]), "loc-altitude"

    def classify(self, v):
        return "loc-altitude"

    def ctor(self, v):
        return float(v - 10000000)

    def wire(self, v, vals, origin):
        return struct.pack("!I", v)

    def text(self, v, vals):
        cm = v - 10000000
        sign = "-" if cm < 0 else ""
        cm = abs(cm)
        return "%s%d.%02dm" % (sign, cm // 100, cm % 100)

    def match(self, got, v):
        return got == float(v - 10000000)


class LocSize(Field):
    """RFC 1876 size/precision octet: base (high nibble) * 10^exponent (low nibble), cm."""

    kind = "locsize"

    def __init__(self, attr, param, nominal):
        super().__init__(attr)
        self.param = param
        self._nom = nominal

    def nominal(self):
        return self._nom

    def boundary(self, thorough):
        vs = [0x00] + [(b << 4) | e for b in range(1, 10) for e in range(0, 10)]
        return [(v, "loc-size") for v in vs]

    def rand(self, rng):
        return (rng.randint(1, 9) << 4) | rng.randint(0, 9), "loc-size"

    @staticmethod
    def cm(v):
        return (v >> 4) * 10 ** (v & 0xF)

    def ctor_items(self, v):
        return {self.param: float(self.cm(v))}

    def wire(self, v, vals, origin):
        return bytes([v])

    def text(self, v, vals):
        cm = self.cm(v)
        return "%d.%02dm" % (cm // 100, cm % 100)

    def match(self, got, v):
        return got == float(self.cm(v))


class ColonHex(Fixed):
    """NID / L64: 64 bits written as four 16-bit hex groups."""

    kind = "colonhex"

    def __init__(self, attr):
        super().__init__(attr, 8)

    def text(self, v, vals):
        h = binascii.hexlify(bytes(v)).decode().upper()
        return ":".join(h[i : i + 4] for i in range(0, 16, 4))

    def match(self, got, v):
        try:
            return binascii.unhexlify(got.replace(":", "")) == bytes(v) and len(got) == 19
        except Exception:
            return False


class DashHex(Fixed):
    kind = "dashhex"

    def text(self, v, vals):
        h = binascii.hexlify(bytes(v)).decode().upper()
        return "-".join(h[i : i + 2] for i in range(0, len(h), 2))


class NsapHex(Blob):
    kind = "nsaphex"

    def text(self, v, vals):
        h = binascii.hexlify(bytes(v)).decode().upper()
        # RFC 1706: 0x then hex digits, "." allowed anywhere after 0x for readability
        return "0x" + ".".join(h[i : i + 6] for i in range(0, len(h), 6))


class Base32Hex(CharStr):
    """NSEC3 next hashed owner: length-prefixed octets, base32hex without padding in text."""

    kind = "b32hex"

    def boundary(self, thorough):
        out = [(bytes([c]), "one-octet") for c in (range(256) if M.MODE["FULL_OCTETS"] else range(0, 256, 9))]
        for n in (1, 2, 3, 4, 5, 6, 19, 20, 21, 32, 255):
            out.append((bytes((i * 29 + 7) & 0xFF for i in range(n)), "len%d" % n))
        return out

    def rand(self, rng):
        n = rng.choice([1, 5, 20, 20, 32])
        return bytes(rng.randrange(256) for _ in range(n)), "random"

    def classify(self, v):
        return "hash"

    def text(self, v, vals):
        std = base64.b32encode(bytes(v)).decode().rstrip("=")
        tr = str.maketrans("ABCDEFGHIJKLMNOPQRSTUVWXYZ234567", "0123456789ABCDEFGHIJKLMNOPQRSTUV")
        return std.translate(tr)


class SaltHex(CharStr):
    kind = "salthex"

    def boundary(self, thorough):
        out = [(b"", "empty")] + [(bytes([c]), "one-octet") for c in M.octets()]
        for n in (2, 8, 254, 255):
            out.append((bytes((i * 31 + 3) & 0xFF for i in range(n)), "len%d" % n))
        return out

    def rand(self, rng):
        return bytes(rng.randrange(256) for _ in range(rng.choice([0, 1, 4, 8, 16]))), "random"

    def classify(self, v):
        return "empty" if len(v) == 0 else "salt"

    def text(self, v, vals):
        return "-" if len(v) == 0 else binascii.hexlify(bytes(v)).decode().upper()


# --------------------------------------------------------------------------- TypeSpec


class TypeSpec:
    def __init__(
        self,
        rdclass,
        tname,
        fields,
        wire_fn=None,
        text_fn=None,
        fixup=None,
        text_ok=None,
        parses_text=True,
        rdclasses=None,
    ):
        self.rdclass = rdclass
        self.tname = tname
        self.rdtype = int(dns.rdatatype.from_text(tname.replace("_", "-")))
        self.fields = fields
        self.by_attr = {f.attr: f for f in fields}
        self.wire_fn = wire_fn
        self.text_fn = text_fn
        self.fixup = fixup
        self.text_ok = text_ok
        self.parses_text = parses_text
        # classes under which the type is exercised (first one is the primary)
        self.rdclasses = rdclasses or ([IN, CH, 4660] if rdclass == ANY else [rdclass])

    @property
    def key(self):
        return "%s/%s" % ({IN: "IN", CH: "CH", ANY: "ANY"}[self.rdclass], self.tname)

    def impl_class(self, rdclass=None):
        return dns.rdata.get_rdata_class(
            dns.rdataclass.RdataClass.make(self.rdclasses[0] if rdclass is None else rdclass), dns.rdatatype.RdataType.make(self.rdtype)
        )

    # -- values ---------------------------------------------------------------
    def nominal(self):
        vals = {f.attr: f.nominal() for f in self.fields}
        if self.fixup:
            self.fixup(vals, set())
        return vals

    def _mk(self, changes):
        vals = {f.attr: f.nominal() for f in self.fields}
        vals.update(changes)
        if self.fixup:
            self.fixup(vals, set(changes))
        return vals

    def pair_values(self, f, thorough):
        ck = (f.attr, thorough, M.MODE["FULL_OCTETS"], M.MODE["FULL_INTS"])
        cache = self.__dict__.setdefault("_pv_cache", {})
        if ck in cache:
            return cache[ck]
        cache[ck] = self._pair_values(f, thorough)
        return cache[ck]

    def _pair_values(self, f, thorough):
        b = f.boundary(thorough)
        if not b:
            return []
        if len(b) <= 4:
            return b
        picks = [b[0], b[-1], b[len(b) // 2], b[len(b) // 3]]
        return picks

    def essential(self, thorough):
        """nominal record, then every field's boundary values one factor at a time"""
        yield self._mk({}), {}
        for f in self.fields:
            for v, l in f.boundary(thorough):
                yield self._mk({f.attr: v}), {f.attr: l}

    def extended(self, thorough, rng, n_random):
        """all field pairs over 4 extreme values each, then seeded random records"""
        fs = self.fields
        for i in range(len(fs)):
            for j in range(i + 1, len(fs)):
                for v1, l1 in self.pair_values(fs[i], thorough):
                    for v2, l2 in self.pair_values(fs[j], thorough):
                        yield self._mk({fs[i].attr: v1, fs[j].attr: v2}), {fs[i].attr: l1, fs[j].attr: l2}
        for _ in range(n_random):
            ch, lab = {}, {}
            for f in fs:
                v, l = f.rand(rng)
                ch[f.attr] = v
                lab[f.attr] = l
            yield self._mk(ch), lab

    def cases(self, thorough, rng, n_random):
        """yield (vals, labels) — labels: attr -> value-class of each non-nominal field"""
        yield from self.essential(thorough)
        yield from self.extended(thorough, rng, n_random)

    def minimize(self, vals, fails):
        """Reset fields to nominal while ``fails(vals)`` stays true; returns (vals, kept attrs)."""
        cur = dict(vals)
        kept = []
        for f in self.fields:
            nomv = f.nominal()
            if cur[f.attr] == nomv:
                continue
            trial = dict(cur)
            trial[f.attr] = nomv
            if self.fixup:
                self.fixup(trial, set(trial) - {f.attr})
            try:
                still = fails(trial)
            except Exception:
                still = False
            if still:
                cur = trial
            else:
                kept.append(f.attr)
        return cur, kept

    def vclass(self, vals, kept):
        return "+".join("%s" % self.by_attr[a].classify(vals[a]) for a in kept) or "nominal"

    # -- conversions ------------------------------------------------------------
    def relativized(self, vals, origin):
        return {f.attr: f.relativized(vals[f.attr], origin) for f in self.fields}

    def has_name(self):
        return any(f.has_name() for f in self.fields)

    def build(self, vals, rdclass=None):
        kw = {}
        for f in self.fields:
            if hasattr(f, "ctor_items"):
                kw.update(f.ctor_items(vals[f.attr]))
            else:
                kw[f.kw.get("param", getattr(f, "param", None)) or f.attr] = f.ctor(vals[f.attr])
        if rdclass is None:
            rdclass = self.rdclasses[0]
        cls = self.impl_class(rdclass)
        return cls(
            dns.rdataclass.RdataClass.make(rdclass),
            dns.rdatatype.RdataType.make(self.rdtype),
            **kw,
        )

    def ref_wire(self, vals, origin=None):
        if self.wire_fn:
            return self.wire_fn(self, vals, origin)
        return b"".join(f.wire(vals[f.attr], vals, origin) for f in self.fields)

    def ref_text(self, vals):
        if self.text_fn:
            return self.text_fn(self, vals)
        parts = [f.text(vals[f.attr], vals) for f in self.fields]
        return " ".join(p for p in parts if p != "")

    def fields_match(self, rd, vals):
        bad = []
        for f in self.fields:
            try:
                if hasattr(f, "match_rd"):
                    ok = f.match_rd(rd, vals[f.attr])
                else:
                    ok = f.match(getattr(rd, f.attr), vals[f.attr])
            except Exception:
                ok = False
            if not ok:
                bad.append(f.attr)
        return bad

    def well_formed_for_text(self, vals):
        """False for values that the RFC of the type does not regard as well-formed content
        (an opaque key / digest / signature / certificate of length 0, a non-canonical bitmap):
        such records must still print, but the text round trip is not demanded of them."""
        for f in self.fields:
            if isinstance(f, Blob) and not isinstance(f, (QStr, NsapHex, WksBitmap)) and f.prefix == 0 and len(vals[f.attr]) == 0:
                return False
        return True if self.text_ok is None else self.text_ok(vals)


# --------------------------------------------------------------------------- fixups


def _fix_ds(lengths):
    def fix(vals, varied):
        dt, dg = vals["digest_type"], bytes(vals["digest"])
        if "digest_type" in varied and "digest" not in varied:
            if dt in lengths:
                vals["digest"] = bytes((i * 7 + 1) & 0xFF for i in range(lengths[dt]))
        else:
            inv = {}
            for k, n in lengths.items():
                inv.setdefault(n, k)
            if "digest_type" in varied and dt in lengths:
                n = lengths[dt]
                vals["digest"] = (dg * (n // max(1, len(dg)) + 1))[:n] if dg else bytes(n)
            elif dt in lengths and len(dg) != lengths[dt]:
                vals["digest_type"] = inv.get(len(dg), 200)

    return fix


_DS_LEN = {1: 20, 2: 32, 3: 32, 4: 48}
_CDS_LEN = {0: 1, 1: 20, 2: 32, 3: 32, 4: 48}


def _fix_zonemd(vals, varied):
    need = {1: 48, 2: 64}
    ha, dg = vals["hash_algorithm"], bytes(vals["digest"])
    if "digest" in varied:
        if ha in need and len(dg) != need[ha]:
            vals["hash_algorithm"] = {48: 1, 64: 2}.get(len(dg), 240)
    elif ha in need:
        vals["digest"] = bytes((i * 5 + 2) & 0xFF for i in range(need[ha]))


def _fix_key(vals, varied):
    if (vals["flags"] & 0xC000) == 0xC000:
        if "key" in varied and "flags" not in varied:
            vals["flags"] &= 0x3FFF
        else:
            vals["key"] = b""


def _fix_svcb(vals, varied):
    if vals["priority"] == 0 and vals["params"]:
        if "priority" in varied and "params" not in varied:
            vals["params"] = []
        else:
            vals["priority"] = 1


# --------------------------------------------------------------------------- custom wire / text


def _wire_ipseckey(spec, vals, origin):
    gw = spec.by_attr["gw"]
    return (
        bytes([vals["precedence"], vals["gw"][0], vals["algorithm"]])
        + gw.payload_wire(vals["gw"], origin)
        + bytes(vals["key"])
    )


def _text_ipseckey(spec, vals):
    gw = spec.by_attr["gw"]
    return "%d %d %d %s %s" % (
        vals["precedence"],
        vals["gw"][0],
        vals["algorithm"],
        gw.text(vals["gw"], vals),
        spec.by_attr["key"].text(vals["key"], vals),
    )


def _wire_amtrelay(spec, vals, origin):
    gw = spec.by_attr["gw"]
    return bytes([vals["precedence"], (0x80 if vals["discovery_optional"] else 0) | vals["gw"][0]]) + gw.payload_wire(
        vals["gw"], origin
    )


def _text_amtrelay(spec, vals):
    gw = spec.by_attr["gw"]
    return "%d %d %d %s" % (vals["precedence"], 1 if vals["discovery_optional"] else 0, vals["gw"][0], gw.text(vals["gw"], vals))


def _wire_isdn(spec, vals, origin):
    a, s = bytes(vals["address"]), bytes(vals["subaddress"])
    out = bytes([len(a)]) + a
    if len(s):
        out += bytes([len(s)]) + s
    return out


def _text_isdn(spec, vals):
    a, s = bytes(vals["address"]), bytes(vals["subaddress"])
    t = '"' + esc_ddd(a) + '"'
    if len(s):
        t += ' "' + esc_ddd(s) + '"'
    return t


def _wire_hip(spec, vals, origin):
    hit, key = bytes(vals["hit"]), bytes(vals["key"])
    return (
        struct.pack("!BBH", len(hit), vals["algorithm"], len(key))
        + hit
        + key
        + spec.by_attr["servers"].wire(vals["servers"], vals, origin)
    )


def _text_hip(spec, vals):
    hit, key = bytes(vals["hit"]), bytes(vals["key"])
    if not hit or not key:
        raise NoRefText
    t = "%d %s %s" % (vals["algorithm"], binascii.hexlify(hit).decode().upper(), base64.b64encode(key).decode())
    s = spec.by_attr["servers"].text(vals["servers"], vals)
    return t + (" " + s if s else "")


def _wire_tsig(spec, vals, origin):
    mac, other = bytes(vals["mac"]), bytes(vals["other"])
    return (
        name_wire(vals["algorithm"], origin)
        + vals["time_signed"].to_bytes(6, "big")
        + struct.pack("!HH", vals["fudge"], len(mac))
        + mac
        + struct.pack("!HHH", vals["original_id"], vals["error"], len(other))
        + other
    )


def _wire_loc(spec, vals, origin):
    return (
        bytes([0, vals["size"], vals["horizontal_precision"], vals["vertical_precision"]])
        + struct.pack("!III", vals["latitude"], vals["longitude"], vals["altitude"])
    )


def _text_loc(spec, vals):
    b = spec.by_attr
    return " ".join(
        b[a].text(vals[a], vals)
        for a in ("latitude", "longitude", "altitude", "size", "horizontal_precision", "vertical_precision")
    )


def _text_wks(spec, vals):
    bits = []
    for i, byte in enumerate(bytes(vals["bitmap"])):
        for j in range(8):
            if byte & (0x80 >> j):
                bits.append(str(i * 8 + j))
    return " ".join([IPv4("x").text(vals["address"], vals), str(vals["protocol"])] + bits)


def _text_rrsig(spec, vals):
    b = spec.by_attr
    order = ["type_covered", "algorithm", "labels", "original_ttl", "expiration", "inception", "key_tag", "signer", "signature"]
    return " ".join(b[a].text(vals[a], vals) for a in order)


def _text_none(spec, vals):
    raise NoRefText


def _wks_text_ok(vals):
    bm = bytes(vals["bitmap"])
    return len(bm) == 0 or bm[-1] != 0


def _bitmap_text_ok(vals):
    return bitmap_canonical(vals["windows"])


class WksBitmap(Blob):
    def boundary(self, thorough):
        out = [(b"", "empty"), (b"\x00\x00\x00\x40", "smtp"), (b"\x80", "port0"), (b"\x01", "port7")]
        out += [(bytes([c]), "one-octet") for c in range(1, 256, 7)]
        out += [(b"\x00" * 8191 + b"\x01", "port65535"), (b"\xff" * 32, "dense")]
        out += [(b"\x40\x00", "noncanonical-trailing-zero"), (b"\x00", "noncanonical-trailing-zero")]
        return out

    def rand(self, rng):
        n = rng.choice([1, 2, 4, 16])
        b = bytearray(rng.randrange(256) for _ in range(n))
        b[-1] |= 1
        return bytes(b), "random"

    def classify(self, v):
        return "empty" if not v else ("noncanonical-trailing-zero" if bytes(v)[-1] == 0 else "bitmap")


# --------------------------------------------------------------------------- the table


def _mx(t):
    return TypeSpec(ANY if t in ("MX", "RT", "AFSDB") else IN, t, [U("preference", 16, nominal=10), NameF("exchange")])


def _ns(t):
    return TypeSpec(ANY if t != "NSAP_PTR" else IN, t, [NameF("target")])


def _ds(t):
    lens = _CDS_LEN if t == "CDS" else _DS_LEN
    skip = () if t == "CDS" else (0,)
    return TypeSpec(
        ANY,
        t,
        [U("key_tag", 16, nominal=12345), U("algorithm", 8, nominal=8), U("digest_type", 8, nominal=2, skip=skip), Blob("digest", "hex", lo=0, nominal=bytes(range(32)))],
        fixup=_fix_ds(lens),
    )


def _dnskey(t):
    return TypeSpec(
        ANY,
        t,
        [U("flags", 16, nominal=257), U("protocol", 8, nominal=3), U("algorithm", 8, nominal=13), Blob("key", "b64", nominal=bytes(range(64)))],
        fixup=_fix_key if t == "KEY" else None,
    )


def _tlsa(t):
    return TypeSpec(ANY, t, [U("usage", 8, nominal=3), U("selector", 8), U("mtype", 8), Blob("cert", "hex", nominal=bytes(range(32)))])


def _txt(t):
    return TypeSpec(ANY, t, [TxtStrings("strings")])


def _rrsig(t):
    return TypeSpec(
        ANY,
        t,
        [
            RdType("type_covered"),
            U("algorithm", 8, nominal=13),
            U("labels", 8, nominal=2),
            U("original_ttl", 32, nominal=3600),
            U("expiration", 32, nominal=1700000000),
            U("inception", 32, nominal=1690000000),
            U("key_tag", 16, nominal=4242),
            NameF("signer", nominal=[b"example", b""]),
            Blob("signature", "b64", nominal=bytes(range(64))),
        ],
        text_fn=_text_rrsig,
    )


def _svcb(t):
    return TypeSpec(IN, t, [U("priority", 16, nominal=1), NameF("target", nominal=[b"svc", b"example", b""]), SvcParams("params")], fixup=_fix_svcb, text_fn=_text_none)


def build_specs():
    S = []
    S.append(TypeSpec(IN, "A", [IPv4("address")]))
    S.append(TypeSpec(IN, "AAAA", [IPv6("address")]))
    S.append(TypeSpec(CH, "A", [NameF("domain"), U("address", 16, fmt="o", nominal=0o1234)]))
    for t in ("MX", "RT", "AFSDB", "KX"):
        S.append(_mx(t))
    for t in ("NS", "CNAME", "PTR", "DNAME", "NSAP_PTR"):
        S.append(_ns(t))
    S.append(
        TypeSpec(
            ANY,
            "SOA",
            [NameF("mname"), NameF("rname", nominal=[b"hostmaster", b"example", b""]), U("serial", 32, nominal=2024010101)]
            + [U(a, 32, nominal=n) for a, n in (("refresh", 7200), ("retry", 900), ("expire", 1209600), ("minimum", 300))],
        )
    )
    S.append(TypeSpec(IN, "SRV", [U("priority", 16), U("weight", 16, nominal=5), U("port", 16, nominal=443), NameF("target")]))
    S.append(TypeSpec(IN, "PX", [U("preference", 16, nominal=10), NameF("map822"), NameF("mapx400", nominal=[b"x400", b"example", b""])]))
    S.append(TypeSpec(ANY, "RP", [NameF("mbox"), NameF("txt", nominal=[b"txt", b"example", b""])]))
    S.append(TypeSpec(ANY, "LP", [U("preference", 16, nominal=10), NameF("fqdn")]))
    for t in ("DS", "CDS", "DLV"):
        S.append(_ds(t))
    for t in ("DNSKEY", "CDNSKEY", "KEY"):
        S.append(_dnskey(t))
    for t in ("TLSA", "SMIMEA"):
        S.append(_tlsa(t))
    S.append(TypeSpec(ANY, "SSHFP", [U("algorithm", 8, nominal=4), U("fp_type", 8, nominal=2), Blob("fingerprint", "hex", nominal=bytes(range(32)))]))
    S.append(
        TypeSpec(
            ANY,
            "CAA",
            [U("flags", 8, nominal=0), CharStr("tag", lo=1, nominal=b"issue", alphabet=b"abcdefghijklmnopqrstuvwxyzABCDEFGHIJKLMNOPQRSTUVWXYZ0123456789"), QStr("value", nominal=b"ca.example.net")],
        )
    )
    S.append(TypeSpec(ANY, "URI", [U("priority", 16, nominal=10), U("weight", 16), QStr("target", lo=1, nominal=b"https://example.com/")]))
    S.append(TypeSpec(ANY, "CERT", [U("certificate_type", 16, exhaustive=False, nominal=1, extra=list(range(0, 12)) + [252, 253, 254, 255]), U("key_tag", 16, nominal=4321), U("algorithm", 8, nominal=8), Blob("certificate", "b64", nominal=bytes(range(40)))]))
    S.append(TypeSpec(ANY, "HINFO", [CharStr("cpu", nominal=b"PDP-11"), CharStr("os", nominal=b"UNIX")]))
    S.append(TypeSpec(ANY, "ISDN", [CharStr("address", nominal=b"150862028003217"), CharStr("subaddress", nominal=b"004")], wire_fn=_wire_isdn, text_fn=_text_isdn))
    S.append(TypeSpec(ANY, "X25", [CharStr("address", nominal=b"311061700956")]))
    S.append(TypeSpec(ANY, "GPOS", [FloatStr("latitude", 90), FloatStr("longitude", 180), FloatStr("altitude", None)]))
    S.append(
        TypeSpec(
            ANY,
            "LOC",
            [LocCoord("latitude", 90), LocCoord("longitude", 180), LocAlt("altitude"), LocSize("size", "size", 0x12), LocSize("horizontal_precision", "hprec", 0x16), LocSize("vertical_precision", "vprec", 0x13)],
            wire_fn=_wire_loc,
            text_fn=_text_loc,
        )
    )
    S.append(TypeSpec(ANY, "L32", [U("preference", 16, nominal=10), IPv4("locator32")]))
    S.append(TypeSpec(ANY, "L64", [U("preference", 16, nominal=10), ColonHex("locator64")]))
    S.append(TypeSpec(ANY, "NID", [U("preference", 16, nominal=10), ColonHex("nodeid")]))
    S.append(TypeSpec(ANY, "EUI48", [DashHex("eui", 6)]))
    S.append(TypeSpec(ANY, "EUI64", [DashHex("eui", 8)]))
    S.append(TypeSpec(IN, "DHCID", [Blob("data", "b64", nominal=bytes(range(35)))]))
    S.append(TypeSpec(ANY, "OPENPGPKEY", [Blob("key", "b64", nominal=bytes(range(50)))]))
    S.append(TypeSpec(ANY, "BRID", [Blob("value", "b64", nominal=bytes(range(30)))]))
    S.append(TypeSpec(ANY, "HHIT", [Blob("value", "b64", nominal=bytes(range(30)))]))
    S.append(TypeSpec(ANY, "NSEC3PARAM", [U("algorithm", 8), U("flags", 8, nominal=0), U("iterations", 16, nominal=10), SaltHex("salt", nominal=b"\xaa\xbb\xcc\xdd")]))
    S.append(TypeSpec(ANY, "ZONEMD", [U("serial", 32, nominal=2024010101), U("scheme", 8, lo=1), U("hash_algorithm", 8, lo=1), Blob("digest", "hex", nominal=bytes(range(48)))], fixup=_fix_zonemd))
    S.append(
        TypeSpec(
            ANY,
            "TKEY",
            [NameF("algorithm", nominal=[b"gss-tsig", b""]), U("inception", 32, nominal=1700000000), U("expiration", 32, nominal=1700086400), U("mode", 16, nominal=3), U("error", 16, nominal=0, extra=range(0, 26)), Blob("key", "b641", prefix=2, hi=65535, big=3000), Blob("other", "b641", prefix=2, hi=65535, nominal=b"", big=3000)],
            text_fn=_text_none,
        )
    )
    S.append(
        TypeSpec(
            ANY,
            "TSIG",
            [NameF("algorithm", nominal=[b"hmac-sha256", b""]), U("time_signed", 48, nominal=1700000000), U("fudge", 16, nominal=300), Blob("mac", "b641", prefix=2, hi=65535, nominal=bytes(range(32)), big=3000), U("original_id", 16, nominal=4660), U("error", 16, hi=4095, nominal=0, extra=range(0, 26)), Blob("other", "b641", prefix=2, hi=65535, nominal=b"", big=3000)],
            wire_fn=_wire_tsig,
            text_fn=_text_none,
        )
    )
    for t in ("RRSIG", "SIG"):
        S.append(_rrsig(t))
    S.append(
        TypeSpec(IN, "IPSECKEY", [U("precedence", 8, nominal=10), U("algorithm", 8, nominal=2), GatewayF("gw", "gateway_type", "gateway"), Blob("key", "b64", nominal=bytes(range(33)))], wire_fn=_wire_ipseckey, text_fn=_text_ipseckey)
    )
    S.append(TypeSpec(ANY, "AMTRELAY", [U("precedence", 8, nominal=10), Bool("discovery_optional"), GatewayF("gw", "relay_type", "relay")], wire_fn=_wire_amtrelay, text_fn=_text_amtrelay))
    S.append(TypeSpec(ANY, "DSYNC", [RdType("rrtype"), U("scheme", 8, nominal=1), U("port", 16, nominal=5359), NameF("target")]))
    S.append(TypeSpec(IN, "WKS", [IPv4("address"), U("protocol", 8, nominal=6), WksBitmap("bitmap", nominal=b"\x00\x00\x00\x40")], text_fn=_text_wks, text_ok=_wks_text_ok))
    S.append(TypeSpec(IN, "NSAP", [NsapHex("address", nominal=bytes.fromhex("47000580005a0000000001e133ffffff00016100"))]))
    for t in ("TXT", "SPF", "AVC", "NINFO", "RESINFO", "WALLET"):
        S.append(_txt(t))
    S.append(TypeSpec(ANY, "NSEC", [NameF("next"), TypeBitmap("windows")], text_ok=_bitmap_text_ok))
    S.append(
        TypeSpec(
            ANY,
            "NSEC3",
            [U("algorithm", 8), U("flags", 8, nominal=1), U("iterations", 16, nominal=12), SaltHex("salt", nominal=b"\xaa\xbb\xcc\xdd"), Base32Hex("next", lo=1, nominal=bytes(range(20))), TypeBitmap("windows")],
            text_ok=_bitmap_text_ok,
        )
    )
    S.append(TypeSpec(ANY, "CSYNC", [U("serial", 32, nominal=66), U("flags", 16, nominal=3), TypeBitmap("windows")], text_ok=_bitmap_text_ok))
    S.append(TypeSpec(ANY, "OPT", [Options("options")], parses_text=False, text_fn=_text_none, rdclasses=[4096, 512, 65535, 0, 1232]))
    for t in ("SVCB", "HTTPS"):
        S.append(_svcb(t))
    # RFC 3123 defines the text form for families 1 and 2 only
    S.append(TypeSpec(IN, "APL", [APLItems("items")], text_ok=lambda vals: all(it[0] in (1, 2) for it in vals["items"])))
    S.append(
        TypeSpec(
            ANY,
            "HIP",
            [CharStr("hit", lo=1, nominal=bytes.fromhex("200100107b1a74df365639cc39f1d578")), U("algorithm", 8, nominal=2), Blob("key", "b641", prefix=2, lo=1, hi=65535, nominal=bytes(range(40)), big=3000), NameList("servers")],
            wire_fn=_wire_hip,
            text_fn=_text_hip,
        )
    )
    S.append(
        TypeSpec(
            IN,
            "NAPTR",
            [U("order", 16, nominal=100), U("preference", 16, nominal=10), CharStr("flags", nominal=b"S"), CharStr("service", nominal=b"SIP+D2U"), CharStr("regexp", nominal=b"!^.*$!sip:info@example.com!"), NameF("replacement", nominal=[b"_sip", b"_udp", b"example", b""])],
        )
    )
    return S


def discover_modules():
    """(class text, type text) of every implementation module found on disk."""
    import pkgutil

    import dns.rdtypes

    found = []
    for cname in ("ANY", "IN", "CH"):
        try:
            pkg = __import__("dns.rdtypes." + cname, fromlist=["x"])
        except ImportError:  # pragma: no cover
            continue
        for m in pkgutil.iter_modules(pkg.__path__):
            if not m.name.startswith("_"):
                found.append((cname, m.name))
    # any further class directory
    for m in pkgutil.iter_modules(dns.rdtypes.__path__):
        if m.ispkg and m.name not in ("ANY", "IN", "CH"):
            pkg = __import__("dns.rdtypes." + m.name, fromlist=["x"])
            for mm in pkgutil.iter_modules(pkg.__path__):
                if not mm.name.startswith("_"):
                    found.append((m.name, mm.name))
    return found
