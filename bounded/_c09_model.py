"""Reference model of a zone and an *independent* master-file writer for the C09
bounded stand-in (helper of bounded/C09.py).

A model zone is JSON-able:
    {"origin": "example.", "records": [{"owner": "www.example.", "ttl": 300, "type": "A",
                                        "rdata": ["10.0.0.1"], "comment": None}, ...]}
Owner and name tokens are absolute master-file text (escapes kept).  In "rdata" a plain
string is a verbatim token (quoted strings keep their quotes); ["N", "ns1.example."] is a
domain-name token which the writer may spell relative to the current origin.

The writer below is written from RFC 1035 section 5 / RFC 2308 / BIND's $GENERATE
documentation and does not use any emitter of the library.
"""

from __future__ import annotations

from bounded._c04_samples import SAMPLES

ORIGINS = ["example.", "sub.example.org."]

# relative owner spellings (escapes included); "@" is the origin itself
OWNERS = [
    "www", "a", "b", "ns1", "ns2", "mail", "*", "*.wild", "a.b.c", "in", "300", "1h", "type1", "any",
    "MiXed", "x\\.y", "\\032sp", "q\\\"q", "d\\$d", "at\\@at", "semi\\;c", "par\\(en\\)", "back\\\\slash",
    "\\000nul", "\\255max", "_srv._tcp", "xn--caf-dma", "l" * 63, "0", "-", "host-1", "deep.er.still.down",
    "generate", "\\$generate", "ttl", "soa", "cname", "class1", "w", "1w2d",
]

TTLS = [0, 1, 60, 300, 3600, 86400, 604800, 2147483647, 4294967295]

NAME_TYPES = {
    "NS": lambda n: [["N", n[0]]],
    "CNAME": lambda n: [["N", n[0]]],
    "DNAME": lambda n: [["N", n[0]]],
    "PTR": lambda n: [["N", n[0]]],
    "MX": lambda n: ["10", ["N", n[0]]],
    "SRV": lambda n: ["1", "2", "443", ["N", n[0]]],
    "RP": lambda n: [["N", n[0]], ["N", n[1]]],
    "AFSDB": lambda n: ["1", ["N", n[0]]],
    "KX": lambda n: ["20", ["N", n[0]]],
    "RT": lambda n: ["30", ["N", n[0]]],
    "PX": lambda n: ["40", ["N", n[0]], ["N", n[1]]],
    "NAPTR": lambda n: ["100", "10", '"u"', '"E2U+sip"', '"!^.*$!sip:info@example.com!"', ["N", n[0]]],
    "NSEC": lambda n: [["N", n[0]], "A", "MX", "RRSIG", "NSEC", "TYPE1234"],
    "RRSIG": lambda n: ["A", "8", "2", "300", "20200101000000", "20030101000000", "2143", ["N", n[0]],
                        "MxFcby9k/yvedMfQgKzhH5er0Mu/vILz45IkskceFGgi", "WCn/GxHhai6VAuHAoNUz4YoU1tVfSCSqQYn6//11U6Nl"],
    "LP": lambda n: ["10", ["N", n[0]]],
    "SVCB": lambda n: ["1", ["N", n[0]], "alpn=h2,h3", "port=8443"],
    "HTTPS": lambda n: ["0", ["N", n[0]]],
    "IPSECKEY": lambda n: ["10", "3", "2", ["N", n[0]], "AQNRU3mG7TVTO2BkR47usntb102uFJtugbo6BSGvgqt4AQ=="],
    "AMTRELAY": lambda n: ["128", "1", "3", ["N", n[0]]],
    "DSYNC": lambda n: ["CDS", "NOTIFY", "5300", ["N", n[0]]],
    "NSAP-PTR": lambda n: [["N", n[0]]],
}

_SKIP_TYPES = set(NAME_TYPES) | {"SOA", "TKEY", "TSIG", "SIG", "HIP", "TYPE999", "TYPE65280", "WKS"}


def split_tokens(text: str):
    """Split master-file rdata text into tokens (quotes kept, bare parentheses dropped)."""
    toks = []
    cur = ""
    inq = False
    i = 0
    while i < len(text):
        c = text[i]
        if c == "\\" and i + 1 < len(text):
            cur += text[i:i + 2]
            i += 2
            continue
        if c == '"':
            inq = not inq
            cur += c
        elif c in " \t\n" and not inq:
            if cur:
                toks.append(cur)
            cur = ""
        else:
            cur += c
        i += 1
    if cur:
        toks.append(cur)
    return [t for t in toks if t not in ("(", ")")]


def plain_templates():
    out = []
    for c, t, x in SAMPLES:
        if c != "IN" or t in _SKIP_TYPES or x.startswith("\\#") or x == "":
            continue
        out.append((t, split_tokens(x)))
    # strings with the characters the lexer cares about
    out += [
        ("TXT", ['"semi;colon"', '"par(en)"', '"q\\"uote"', '"back\\\\slash"', '"\\000\\255"']),
        ("TXT", ["unquoted\\032space", "a\\;b", "\\(x\\)"]),
        ("TXT", ['""']),
        ("TXT", ['"' + "x" * 255 + '"']),
        ("SPF", ['"v=spf1"', '"-all"']),
        ("HINFO", ['"a b"', '"c;d"']),
        ("CAA", ["0", "issue", '"ca.example.net; policy=ev"']),
        ("URI", ["10", "1", '"https://example.com/?a=b;c"']),
        ("NSEC3", ["1", "1", "12", "aabbccdd", "2t7b4g4vsa5smi47k61mv5bv1a22bojr", "A", "RRSIG"]),
        ("APL", ["1:192.168.32.0/21", "!1:192.168.38.0/28"]),
        ("LOC", ["60", "9", "0.000", "N", "24", "39", "0.000", "E", "10.00m", "20.00m", "2000.00m", "20.00m"]),
    ]
    return out


def abs_name(rel: str, origin: str) -> str:
    if rel == "@":
        return origin
    if origin == ".":
        return rel + "."
    return rel + "." + origin


def make_zone(rng, size: int, uniform_ttl: bool = False, external_names: bool = False):
    """A random model zone: SOA + NS at the origin, then *size* further owners."""
    origin = rng.choice(ORIGINS)
    plain = plain_templates()
    owners = rng.sample(OWNERS, min(size, len(OWNERS)))
    base_ttl = rng.choice([300, 3600, 60])
    minimum = base_ttl if (uniform_ttl or rng.random() < 0.3) else rng.choice([5, 900, base_ttl])

    def ttl():
        if uniform_ttl:
            return base_ttl
        return base_ttl if rng.random() < 0.6 else rng.choice(TTLS)

    targets = [abs_name(o, origin) for o in owners[: max(1, len(owners) // 2)]] + [origin, "ns.other.", ".", "Ns1.Upper.NET."]
    ns1 = abs_name("ns1", origin)
    hostmaster = abs_name("hostmaster", origin)
    if external_names:
        targets = ["ns.other.", ".", "Ns1.Upper.NET.", "a.b.c.other.", "x\\.y.other."]
        ns1, hostmaster = "ns1.other.", "hostmaster.other."
    recs = []
    cm = lambda: (rng.choice([" primary", "x; y", " ( not a paren"]) if rng.random() < 0.15 else None)  # noqa: E731
    recs.append({"owner": origin, "ttl": ttl(), "type": "SOA",
                 "rdata": [["N", ns1], ["N", hostmaster],
                           str(rng.choice([1, 2018031900, 4294967295])), "7200", "3600", "1209600", str(minimum)], "comment": cm()})
    t_ns = ttl()
    recs.append({"owner": origin, "ttl": t_ns, "type": "NS", "rdata": [["N", ns1]], "comment": cm()})
    recs.append({"owner": origin, "ttl": t_ns, "type": "NS", "rdata": [["N", "ns.other."]], "comment": None})
    if rng.random() < 0.5:
        t, rd = rng.choice(plain)
        recs.append({"owner": origin, "ttl": ttl(), "type": t, "rdata": rd, "comment": cm()})
    for o in owners:
        oa = abs_name(o, origin)
        k = rng.random()
        if k < 0.12:
            recs.append({"owner": oa, "ttl": ttl(), "type": "CNAME", "rdata": [["N", rng.choice(targets)]], "comment": cm()})
            if rng.random() < 0.3:
                recs.append({"owner": oa, "ttl": ttl(), "type": "NSEC", "rdata": NAME_TYPES["NSEC"]([rng.choice(targets)]), "comment": None})
            continue
        used = set()
        for _ in range(rng.choice([1, 1, 2, 3, 4])):
            if rng.random() < 0.4:
                t = rng.choice([x for x in NAME_TYPES if x != "CNAME"])
                rd = NAME_TYPES[t]([rng.choice(targets), rng.choice(targets)])
            else:
                t, rd = rng.choice(plain)
            if t in used:
                continue
            used.add(t)
            tt = ttl()
            recs.append({"owner": oa, "ttl": tt, "type": t, "rdata": rd, "comment": cm()})
            if t in ("A", "AAAA", "TXT", "MX", "NS") and rng.random() < 0.5:
                # a second member of the same RRset (same TTL)
                if t == "A":
                    rd2 = ["10.9.%d.%d" % (rng.randrange(256), rng.randrange(256))]
                elif t == "AAAA":
                    rd2 = ["2001:db8::%x" % rng.randrange(65536)]
                elif t == "TXT":
                    rd2 = ['"second %d"' % rng.randrange(100)]
                elif t == "MX":
                    rd2 = ["20", ["N", rng.choice(targets)]]
                else:
                    rd2 = [["N", "ns2.other."]]
                recs.append({"owner": oa, "ttl": tt, "type": t, "rdata": rd2, "comment": None})
    return {"origin": origin, "records": recs}


# ------------------------------------------------------------------------------- TTL-0 zones
# Shapes of zones in which the boundary TTL 0 occurs (alone and mixed with non-zero TTLs):
#   soa    TTL of the SOA record
#   rest   "zero": every other RRset has TTL 0; "mixed": 0 and non-zero TTLs (both guaranteed)
#   order  "soa_first"; "ns_before_soa": the origin NS RRset (TTL 0) precedes the SOA in the
#          origin node; "other_first": a non-origin owner whose first RRset has TTL 0 precedes
#          the origin node (seen by the unsorted output styles)
#   minimum  SOA minimum; non-zero except in the one shape whose TTLs all equal the minimum 0
TTL0_SHAPES = [
    {"soa": s, "rest": r, "order": o, "minimum": 300}
    for s in (0, 3600) for r in ("zero", "mixed") for o in ("soa_first", "ns_before_soa", "other_first")
] + [{"soa": 0, "rest": "zero", "order": "soa_first", "minimum": 0}]


def make_ttl0_zone(rng, shape, size: int = 4):
    """A model zone of the given TTL-0 shape (content from make_zone, TTLs reassigned per RRset)."""
    z = make_zone(rng, size)
    recs = z["records"]
    origin = z["origin"]
    minimum = shape["minimum"] if shape["minimum"] == 0 else rng.choice([300, 5, 86400])
    recs[0]["rdata"][-1] = str(minimum)
    owners = []
    for r in recs:
        if r["owner"] != origin and r["owner"] not in owners:
            owners.append(r["owner"])

    def key(r):
        return (r["owner"], r["type"], r["rdata"][0] if r["type"] == "RRSIG" else None)

    ttl_of = {}
    for r in recs:
        k = key(r)
        if k not in ttl_of:
            if r["type"] == "SOA":
                ttl_of[k] = shape["soa"]
            elif shape["rest"] == "zero":
                ttl_of[k] = 0
            else:
                ttl_of[k] = rng.choice([0, 0, 300, 1, 86400])
    if shape["rest"] == "mixed":
        first_of = {}
        for r in recs:
            first_of.setdefault(r["owner"], key(r))
        ttl_of[(origin, "NS", None)] = 0
        ttl_of[first_of[owners[0]]] = rng.choice([300, 1, 4294967295])
        ttl_of[first_of[owners[-1]]] = 0
    for r in recs:
        r["ttl"] = ttl_of[key(r)]
    if shape["order"] == "ns_before_soa":
        ns = [r for r in recs if r["owner"] == origin and r["type"] == "NS"]
        recs = ns + [r for r in recs if not (r["owner"] == origin and r["type"] == "NS")]
    elif shape["order"] == "other_first":
        last = [r for r in recs if r["owner"] == owners[-1]]
        recs = last + [r for r in recs if r["owner"] != owners[-1]]
    return {"origin": origin, "records": recs}


# ------------------------------------------------------------------------------- writer
def _spell_name(n: str, origin: str, relative: bool) -> str:
    if not relative:
        return n
    if n.lower() == origin.lower():
        return "@"
    suffix = "." + origin
    if origin != "." and n.lower().endswith(suffix.lower()) and len(n) > len(suffix):
        return n[: -len(suffix)]
    return n


def _ttl_units(v: int) -> str:
    if v == 0:
        return "0"
    out = ""
    for u, s in (("w", 604800), ("d", 86400), ("h", 3600), ("m", 60), ("s", 1)):
        q, v = divmod(v, s)
        if q:
            out += f"{q}{u}"
    return out


def write(zone, sp) -> str:
    """Spell the model zone.  sp keys: owner explicit|inherit; ttl explicit|dollar|soa_min;
    cls explicit|omit; order ttl_class|class_ttl; names absolute|relative; multiline bool;
    comments bool; units bool; tabs bool; origin_directive bool; upper bool."""
    origin = zone["origin"]
    sep = "\t" if sp.get("tabs") else " "
    rel = sp.get("names") == "relative"
    lines = []
    if sp.get("origin_directive") or rel:
        lines.append("$ORIGIN " + origin)
    dollar = None
    if sp.get("ttl") == "dollar":
        # the most frequent TTL becomes $TTL
        cnt = {}
        for r in zone["records"]:
            cnt[r["ttl"]] = cnt.get(r["ttl"], 0) + 1
        dollar = sorted(cnt.items(), key=lambda kv: (-kv[1], kv[0]))[0][0]
        lines.append("$TTL " + (_ttl_units(dollar) if sp.get("units") else str(dollar)))
    prev_owner = None
    for r in zone["records"]:
        fields = []
        if sp.get("owner") == "inherit" and prev_owner is not None and r["owner"] == prev_owner:
            fields.append("")
        else:
            fields.append(_spell_name(r["owner"], origin, rel))
        prev_owner = r["owner"]
        t = None
        if sp.get("ttl") == "dollar" and r["ttl"] == dollar:
            t = None
        elif sp.get("ttl") == "soa_min":
            t = None  # only used for uniform-TTL zones whose TTL equals the SOA minimum
        else:
            t = _ttl_units(r["ttl"]) if sp.get("units") else str(r["ttl"])
        c = None if sp.get("cls") == "omit" else ("in" if sp.get("lower") else "IN")
        if sp.get("order") == "class_ttl":
            fields += [x for x in (c, t) if x is not None]
        else:
            fields += [x for x in (t, c) if x is not None]
        fields.append(r["type"].lower() if sp.get("lower") else r["type"])
        rd = []
        for tok in r["rdata"]:
            if isinstance(tok, (list, tuple)):
                rd.append(_spell_name(tok[1], origin, rel))
            else:
                rd.append(tok)
        cmt = (" ;" + r["comment"]) if (sp.get("comments") and r.get("comment")) else ""
        if sp.get("multiline") and len(rd) >= 1:
            head = sep.join(fields) + sep + "("
            if cmt:
                head += cmt
            body = [("\t" + x + (" ; c%d" % i if sp.get("comments") and i == 0 else "")) for i, x in enumerate(rd)]
            lines.append(head)
            lines += body
            lines.append("\t)")
        else:
            lines.append(sep.join(fields) + sep + sep.join(rd) + cmt)
        if sp.get("blank") and len(lines) % 5 == 0:
            lines.append("")
            lines.append("; a comment line")
    return "\n".join(lines) + "\n"


CANON = {"owner": "explicit", "ttl": "explicit", "cls": "explicit", "order": "ttl_class", "names": "absolute"}


def spellings(uniform: bool):
    """Named re-spellings, each differing from CANON in the aspects the property lists."""
    out = {
        "inherit_owner": dict(CANON, owner="inherit"),
        "dollar_ttl": dict(CANON, ttl="dollar"),
        "dollar_ttl_units": dict(CANON, ttl="dollar", units=True),
        "ttl_units": dict(CANON, units=True),
        "omit_class": dict(CANON, cls="omit"),
        "class_then_ttl": dict(CANON, order="class_ttl"),
        "class_then_ttl_dollar": dict(CANON, order="class_ttl", ttl="dollar", owner="inherit"),
        "relative_names": dict(CANON, names="relative"),
        "origin_directive": dict(CANON, origin_directive=True),
        "multiline": dict(CANON, multiline=True),
        "multiline_comments": dict(CANON, multiline=True, comments=True, owner="inherit"),
        "comments_tabs_blank": dict(CANON, comments=True, tabs=True, blank=True),
        "lower_mnemonics": dict(CANON, lower=True),
        "everything": dict(owner="inherit", ttl="dollar", cls="omit", order="class_ttl", names="relative",
                           multiline=True, comments=True, tabs=True, blank=True),
        "minimal": dict(owner="inherit", ttl="dollar", cls="omit", names="relative"),
    }
    if uniform:
        out["soa_minimum_default"] = dict(CANON, ttl="soa_min")
        out["soa_minimum_default_min"] = dict(CANON, ttl="soa_min", cls="omit", owner="inherit", names="relative")
    return out


# ------------------------------------------------------------------------------- $GENERATE
def fmt_index(i: int, offset: int, width: int, base: str) -> str:
    """BIND: ${offset,width,base}; d o x X zero padded to width; n/N nibbles reversed with
    dots (width counts the dots)."""
    v = i + offset
    if base in "doxX":
        return format(v, base).zfill(width)
    # nibble mode; only used with an odd width that holds every digit: (width+1)/2 digits
    k = (width + 1) // 2
    digits = format(v, "x" if base == "n" else "X").zfill(k)
    assert len(digits) == k and width == 2 * k - 1, "generator keeps nibble widths exact"
    return ".".join(reversed(digits))


def expand_template(tpl: str, i: int) -> str:
    """Replace every $ / ${o,w,b} in *tpl* (no escapes used by the generator)."""
    out = ""
    j = 0
    while j < len(tpl):
        c = tpl[j]
        if c == "$":
            if j + 1 < len(tpl) and tpl[j + 1] == "{":
                e = tpl.index("}", j)
                parts = tpl[j + 2:e].split(",")
                off = int(parts[0])
                width = int(parts[1]) if len(parts) > 1 else 0
                base = parts[2] if len(parts) > 2 else "d"
                out += fmt_index(i, off, width, base)
                j = e + 1
                continue
            out += str(i)
            j += 1
            continue
        out += c
        j += 1
    return out


def make_generate(rng):
    start = rng.choice([0, 1, 2, 9, 10, 15, 16, 99, 250])
    step = rng.choice([1, 1, 1, 2, 3, 5])
    n = rng.choice([1, 2, 3, 4, 7])
    stop = start + (n - 1) * step + rng.choice([0, 0, step - 1])

    def modifier(allow_neg=True):
        k = rng.random()
        if k < 0.35:
            return "$"
        base = rng.choice(["d", "d", "o", "x", "X"])
        off = rng.choice([0, 0, 1, 5, 100] + ([-start] if allow_neg and start > 0 else []))
        width = rng.choice([0, 1, 2, 3, 5])
        form = rng.random()
        if form < 0.3:
            return "${%d}" % off
        if form < 0.6:
            return "${%d,%d}" % (off, width)
        return "${%d,%d,%s}" % (off, width, base)

    kind = rng.choice(["A", "A", "CNAME", "PTR", "NS", "TXT", "AAAA", "DNAME"])
    lhs = rng.choice(["host" + modifier(), "h" + modifier() + "-x", modifier() + ".rev", "n" + modifier() + ".sub"])
    if kind == "A":
        rhs = "10.0.%d.%s" % (rng.randrange(256), "${0,0,d}" if rng.random() < 0.3 else "$")
    elif kind == "AAAA":
        rhs = "2001:db8::" + rng.choice(["${0,0,x}", "${0,4,x}", "$"])
        if rhs.endswith("$") and stop > 9999:
            rhs = "2001:db8::1"
    elif kind == "TXT":
        rhs = "t" + modifier()
    else:
        rhs = rng.choice(["target" + modifier(), "t" + modifier() + ".example.", "@" if kind != "CNAME" else "x" + modifier()])
    g = {"start": start, "stop": stop, "step": step, "lhs": lhs, "type": kind, "rhs": rhs}
    if rng.random() < 0.5:
        g["ttl"] = rng.choice([60, 300, 86400])
    if rng.random() < 0.4 and "ttl" in g:
        g["cls"] = "IN"
    elif rng.random() < 0.2:
        g["cls"] = "IN"
    return g


def nibble_generates():
    """Reverse-zone style nibble templates with widths that hold every digit."""
    return [
        {"start": 0, "stop": 15, "step": 1, "lhs": "${0,1,n}.0.8.b.d", "type": "PTR", "rhs": "host$.example."},
        {"start": 16, "stop": 20, "step": 2, "lhs": "${0,3,n}.ip6", "type": "PTR", "rhs": "h${0,2,x}.example."},
        {"start": 250, "stop": 258, "step": 4, "lhs": "${0,5,N}.ip6", "type": "PTR", "rhs": "h${0,3,X}.example."},
        {"start": 1, "stop": 3, "step": 1, "lhs": "${0,7,n}.r", "type": "CNAME", "rhs": "c${0,4,d}"},
    ]


def generate_line(g) -> str:
    rng_s = "%d-%d" % (g["start"], g["stop"]) + ("/%d" % g["step"] if g["step"] != 1 or g.get("force_step") else "")
    f = ["$GENERATE", rng_s, g["lhs"]]
    if "ttl" in g:
        f.append(str(g["ttl"]))
    if "cls" in g:
        f.append(g["cls"])
    # BIND ARM: "rhs, optionally, quoted string" -- a right-hand side of several fields
    # (MX, SRV) is one quoted token; the quotes are stripped before substitution
    f += [g["type"], '"%s"' % g["rhs"] if g.get("quoted") else g["rhs"]]
    return " ".join(f)


# ---- $GENERATE with domain names on the right-hand side, below a moved $ORIGIN
# {n} is the name template; types with several rdata fields need the quoted form
NAME_RHS = {"CNAME": "{n}", "NS": "{n}", "PTR": "{n}", "DNAME": "{n}", "MX": "10 {n}", "SRV": "1 2 443 {n}"}
# name forms: {co} = current origin (set by the preceding $ORIGIN), {zo} = zone origin
LHS_FORMS = {"rel": "m{M}", "rel2": "{M}.rev", "abs_co": "m{M}.{co}", "abs_zo": "m{M}.{zo}", "at": "@"}
RHS_FORMS = {"rel": "t{M}", "rel2": "t{M}.x", "abs_co": "t{M}.{co}", "abs_zo": "t{M}.{zo}", "abs_out": "t{M}.other.", "at": "@"}
SUB_ORIGINS = [("example.", "sub"), ("sub.example.org.", "deep.er")]


def name_generate(rtype, lhs_form, rhs_form, lmod="$", rmod="$", start=1, stop=2, step=1):
    g = {"start": start, "stop": stop, "step": step, "lhs": LHS_FORMS[lhs_form].replace("{M}", lmod), "type": rtype,
         "rhs": NAME_RHS[rtype].replace("{n}", RHS_FORMS[rhs_form].replace("{M}", rmod)),
         "lhs_form": lhs_form, "rhs_form": rhs_form}
    if " " in g["rhs"]:
        g["quoted"] = True
    return g


def fixed_name_generates():
    """Every type x owner form x target form (owner '@' only where several records at one
    owner are ordinary: NS, MX)."""
    out = []
    for t in NAME_RHS:
        for lf in LHS_FORMS:
            if lf == "at" and t not in ("NS", "MX"):
                continue
            for rf in RHS_FORMS:
                out.append(name_generate(t, lf, rf))
    return out


def make_name_generate(rng):
    start = rng.choice([0, 1, 2, 9, 10, 15, 16, 99, 250])
    step = rng.choice([1, 1, 2, 3])
    n = rng.choice([1, 2, 3])
    stop = start + (n - 1) * step + rng.choice([0, 0, step - 1])

    def modifier():
        if rng.random() < 0.4:
            return "$"
        off = rng.choice([0, 0, 1, 5, 100] + ([-start] if start > 0 else []))
        form = rng.random()
        if form < 0.3:
            return "${%d}" % off
        if form < 0.6:
            return "${%d,%d}" % (off, rng.choice([0, 1, 3, 5]))
        return "${%d,%d,%s}" % (off, rng.choice([0, 1, 3, 5]), rng.choice(["d", "d", "o", "x", "X"]))

    t = rng.choice(list(NAME_RHS))
    lf = rng.choice([f for f in LHS_FORMS if f != "at" or t in ("NS", "MX")])
    g = name_generate(t, lf, rng.choice(list(RHS_FORMS)), modifier(), modifier(), start, stop, step)
    if rng.random() < 0.5:
        g["ttl"] = rng.choice([0, 60, 86400])
    if rng.random() < 0.3:
        g["cls"] = "IN"
    return g


def bind_generate(g, zone_origin: str, cur_origin: str):
    """Fill the {zo}/{co} placeholders of a name template."""
    g = dict(g)
    for k in ("lhs", "rhs"):
        g[k] = g[k].replace("{co}", cur_origin).replace("{zo}", zone_origin)
    return g


def _abs_text(tok: str, cur_origin: str) -> str:
    """RFC 1035 5.1: '@' is the current origin; a name not ending in a dot is relative to it."""
    if tok == "@":
        return cur_origin
    if tok.endswith("."):
        return tok
    return tok + "." + cur_origin


def generate_expected(g, cur_origin: str):
    """Independent expectation for a (bound) name template: per step the absolute owner text,
    the leading rdata fields and the absolute text of the domain name ending the rdata."""
    out = []
    for i in range(g["start"], g["stop"] + 1, g["step"]):
        fields = expand_template(g["rhs"], i).split(" ")
        out.append((_abs_text(expand_template(g["lhs"], i), cur_origin), fields[:-1], _abs_text(fields[-1], cur_origin)))
    return out


def generate_expansion(g, default_ttl_text=None):
    lines = []
    for i in range(g["start"], g["stop"] + 1, g["step"]):
        f = [expand_template(g["lhs"], i)]
        if "ttl" in g:
            f.append(str(g["ttl"]))
        if "cls" in g:
            f.append(g["cls"])
        f += [g["type"], expand_template(g["rhs"], i)]
        lines.append(" ".join(f))
    return lines
