"""Bounded stand-in for C12 -- versioned-zone writers are serialized, FIFO and
deadlock-free in every schedule (DESIGN.md section 4, C12-B4).

The real ``dns.versioned.Zone`` runs on real threads, with the name ``threading`` inside
``dns.versioned`` replaced by a scheduler-controlled shim (bounded/_c12_sched.py): exactly
one thread runs at a time and the harness decides, at every lock acquisition, lock
release and ``Event.wait`` (and, in line mode, before every source line of the writer
admission code), which thread continues.  Clauses are evaluated from an API-level event
log (calls/returns of writer(), commit(), rollback(), reader()) plus the shim's record of
lock grants, never from the zone's private fields.
"""

from __future__ import annotations

import dns.name
import dns.rdata
import dns.rdataclass
import dns.rdataset
import dns.rdatatype
import dns.versioned
import dns.zone

import functools

from bounded._c12_sched import (
    Abort,
    LineHook,
    PrefixChooser,
    RandomChooser,
    Sched,
    ShimThreading,
    next_prefix,
)

BOUNDS = (
    "Real dns.versioned.Zone on real threads under a controlled scheduler (threading.Lock/"
    "Event inside dns.versioned replaced by a shim; one thread runs at a time, the schedule is "
    "the only nondeterminism).  Writer transactions are non-commutative (append to a shared "
    "TXT log, add an own A node, delete the predecessor's node; kinds: c commit, C replacement "
    "commit, r rollback after changes, e commit without changes, x rollback without changes); "
    "a reader opens a snapshot, dumps it twice with a scheduling point in between, and ends.  "
    "EXHAUSTIVE at lock-acquire / Event.wait granularity (stateless DFS over every order of "
    "lock acquisitions; steps that touch no shared state are not branched on): quick = all 25 "
    "kind pairs of 2 writers, 33 kind triples of 3 writers, 2 writers + 1 reader (4 configs), "
    "1 writer + 2 readers, threads doing two transactions (5 configs), 4 writers, and 3 "
    "writers + 1 reader (1 config, 4914 schedules, run last); thorough adds all 125 kind "
    "triples, 3 writers + 1 reader (4 configs), 4 writers (4 configs), 2 writers + 2 readers "
    "(26880 schedules), threads with 2-3 transactions with and without a reader.  LINE LEVEL "
    "(sys.monitoring pre-emption before every source line of Zone.writer, "
    "_maybe_wakeup_one_waiter_unlocked, _end_write(_unlocked), _commit_version(_unlocked), "
    "Transaction._setup_version, WritableVersion.__init__): exhaustive DFS with a bounded "
    "number of pre-emptions -- quick: 2 writers and 2 writers + reader with <= 2, 3 writers "
    "with <= 1; thorough: 2 writers with <= 3 (3 configs), 3 writers with <= 2 (3 configs, ~17000 "
    "schedules each), 2 writers + reader and a two-transaction thread with <= 2, 4 writers "
    "with <= 1 -- plus seeded random schedules of 4-6 threads (0-2 readers, 1-2 transactions per "
    "writer; quick 600, thorough 15000; uniform and sticky choice mixed).  Measured: quick "
    "~12000 schedules in ~30 s, thorough ~145000 schedules in ~400 s.  Not covered: unfair OS "
    "schedulers and writers that never end their transaction (liveness needs fairness), "
    "pre-emption inside a bytecode (A-gil), more than 6 threads, line-level schedules beyond "
    "the pre-emption bound."
)

IN = dns.rdataclass.IN
TXT = dns.rdatatype.TXT
A = dns.rdatatype.A
ORIGIN = dns.name.from_text("example.")
LOG = dns.name.from_text("log", None)

_sched_ref = [None]


class _Patched:
    """Context manager installing the scheduler shim as dns.versioned.threading."""

    def __enter__(self):
        self.saved = dns.versioned.threading
        dns.versioned.threading = ShimThreading(_sched_ref)
        return self

    def __exit__(self, *a):
        dns.versioned.threading = self.saved
        return False


def _line_codes():
    codes = set()
    Z = dns.versioned.Zone
    for owner, names in (
        (Z, ("writer", "_maybe_wakeup_one_waiter_unlocked", "_end_write_unlocked", "_end_write",
             "_commit_version_unlocked", "_commit_version")),
        (dns.zone.Transaction, ("_setup_version",)),
        (dns.zone.WritableVersion, ("__init__",)),
    ):
        for n in names:
            f = getattr(owner, n, None)
            c = getattr(f, "__code__", None)
            if c is not None:
                codes.add(c)
    return codes


# ------------------------------------------------------------------ workload + model
def _labels(threads):
    """[(thread idx, label, kind)] in label order; labels are letters a, b, ..."""
    out = []
    k = 0
    for ti, spec in enumerate(threads):
        if spec[0] == "W":
            for kind in spec[1]:
                out.append((ti, chr(ord("a") + k), kind))
                k += 1
    return out


@functools.lru_cache(maxsize=None)
def _rd(rdtype, text):
    return dns.rdata.from_text(IN, rdtype, text)  # rdata objects are immutable


@functools.lru_cache(maxsize=None)
def _nm(text):
    return dns.name.from_text(text, None)


def _rds(rdtype, text):
    return dns.rdataset.from_rdata(300, _rd(rdtype, text))


class _LineMode:
    """Installs line-level pre-emption on the writer admission code for a block."""

    def __init__(self):
        self.hook = LineHook(_sched_ref)

    def __enter__(self):
        self.hook.install(_line_codes())
        return self

    def __exit__(self, *a):
        self.hook.uninstall()
        return False


def _model_apply(state, label, kind, prev, n):
    """Reference semantics of one committed transaction (pure)."""
    if kind in ("e", "x", "r"):
        return state
    st = {} if kind == "C" else dict(state)
    old = st.get("log")
    cur = old[0][1].strip('"') if old else ""
    st["log"] = (("TXT", '"%s"' % (cur + label)),)
    st["w" + label] = (("A", "10.0.0.%d" % n),)
    st.pop("w" + prev, None)
    return st


def _real_apply(txn, label, kind, prev, n):
    if kind in ("e", "x"):
        return
    rds = txn.get(LOG, TXT)
    cur = rds[0].to_text().strip('"') if rds is not None and len(rds) else ""
    txn.replace(LOG, _rds(TXT, '"%s"' % (cur + label)))
    txn.replace(_nm("w" + label), _rds(A, "10.0.0.%d" % n))
    txn.delete(_nm("w" + prev))


def _dump_items(items):
    out = {}
    for name, rdataset in items:
        key = name.to_text()
        out.setdefault(key, []).append(
            (dns.rdatatype.to_text(rdataset.rdtype), *sorted(rd.to_text() for rd in rdataset))
        )
    return {k: tuple(sorted(v)) for k, v in out.items()}


def _dump_zone(zone):
    items = []
    for name, node in zone.nodes.items():
        for rdataset in node:
            items.append((name, rdataset))
    return _dump_items(items)


INITIAL = {"log": (("TXT", '"0"'),), "base": (("A", "10.0.0.0"),)}


class Exec:
    """One execution of a configuration under one schedule."""

    def __init__(self, threads, chooser, line=False, release_points=False):
        self.threads = threads
        self.labels = _labels(threads)
        self.order = [l for _, l, _ in self.labels]
        self.kind = {l: k for _, l, k in self.labels}
        self.num = {l: i + 1 for i, l in enumerate(self.order)}
        self.prev = {
            l: self.order[(i - 1) % len(self.order)] for i, l in enumerate(self.order)
        }
        self.log = []
        self.found = []  # (clause, what, sig)
        self.arrivals = []
        self.admitted = []
        self.open = set()
        self.busy = set()
        self.reader_overlap = False
        self.waited = False
        self.sched = Sched(
            chooser,
            release_points=release_points,
            line_mode=line,
        )
        self.sched.on_acquire = self._on_acquire
        self.sched.on_decision = self._on_decision

    def fail(self, clause, what, sig):
        self.found.append((clause, what, sig))

    # -------------------------------------------------------------- hooks
    def _on_acquire(self, t, lock):
        if t.state == "in_writer" and not t.arrived:
            t.arrived = True
            self.arrivals.append(t.user)

    def _on_decision(self, s):
        # readers never wait for a write transaction: a reader is runnable, or is
        # waiting for the lock whose holder is itself runnable (finite hold).
        for t in s.tasks:
            if t.done:
                continue
            kind, obj = t.pending
            if kind == "wait" and t.state == "in_writer":
                self.waited = True
            if t.nlocks > 0 and not s.enabled(t):
                self.fail(
                    "C12.progress",
                    "a thread blocks (%s) while holding the version lock" % kind,
                    {"check": "blocking call under the version lock", "op": kind},
                )
            if t.state in ("in_reader", "in_reader_end") and not s.enabled(t):
                if kind != "acquire":
                    self.fail(
                        "C12.reader_nowait",
                        "a reader is blocked in %s (not on the version lock)" % kind,
                        {"check": "reader blocked", "op": kind},
                    )
                else:
                    o = obj.owner
                    if o is None or not hasattr(o, "pending") or not s.enabled(o):
                        self.fail(
                            "C12.reader_nowait",
                            "a reader waits for a lock whose holder cannot run",
                            {"check": "reader waits behind a blocked lock holder"},
                        )
        # no lost wake-up: once every predecessor has ended, the first waiting writer
        # must not be parked on an unset event.
        if not self.busy and len(self.admitted) < len(self.arrivals):
            head = self.arrivals[len(self.admitted)]
            for t in s.tasks:
                if t.user == head and t.state == "in_writer":
                    kind, obj = t.pending
                    if kind == "wait" and not obj.flag:
                        self.fail(
                            "C12.progress",
                            "no write transaction is open, yet the first waiting writer "
                            "(in arrival order) is parked on an event nobody has set",
                            {"check": "head waiter not woken while no write transaction is open"},
                        )

    # -------------------------------------------------------------- bodies
    def _lib_exc(self, site, e):
        self.fail(
            "C12.progress",
            "%s raised %s: %s" % (site, type(e).__name__, str(e)[:80]),
            {"check": "exception", "site": site, "exc": type(e).__name__},
        )

    def _writer_body(self, txns):
        def body(t):
            for label in txns:
                kind = self.kind[label]
                t.user = label
                t.arrived = False
                t.state = "in_writer"
                try:
                    txn = self.zone.writer(replacement=(kind == "C"))
                except Abort:
                    raise
                except Exception as e:
                    self._lib_exc("writer()", e)
                    t.state = None
                    return
                t.state = "has_txn"
                # ---- admission bookkeeping (API level)
                if self.open:
                    self.fail(
                        "C12.one_writer",
                        "writer() returned transaction %s while %s is still open"
                        % (label, sorted(self.open)),
                        {"check": "two write transactions open"},
                    )
                k = len(self.admitted)
                if k >= len(self.arrivals) or self.arrivals[k] != label:
                    self.fail(
                        "C12.fifo",
                        "admitted %s but arrival order is %s (admitted so far %s)"
                        % (label, self.arrivals, self.admitted),
                        {"check": "admission order differs from arrival order"},
                    )
                self.admitted.append(label)
                self.open.add(label)
                self.busy.add(label)
                if any(r.state in ("in_reader", "reading") for r in self.sched.tasks):
                    self.reader_overlap = True
                self.log.append(("w_ret", label))
                try:
                    _real_apply(txn, label, kind, self.prev[label], self.num[label])
                except Abort:
                    raise
                except Exception as e:
                    self._lib_exc("transaction ops", e)
                self.open.discard(label)
                self.log.append(("end_call", label))
                try:
                    if kind in ("c", "C", "e"):
                        txn.commit()
                    else:
                        txn.rollback()
                except Abort:
                    raise
                except Exception as e:
                    self._lib_exc("commit()" if kind in "cCe" else "rollback()", e)
                self.busy.discard(label)
                self.log.append(("end_ret", label))
                t.state = None
            t.user = None

        return body

    def _reader_body(self, ridx):
        def body(t):
            t.user = ("reader", ridx)
            t.arrived = False
            t.state = "in_reader"
            self.log.append(("r_call", ridx))
            if self.busy:
                self.reader_overlap = True
            try:
                txn = self.zone.reader()
            except Abort:
                raise
            except Exception as e:
                self._lib_exc("reader()", e)
                t.state = None
                return
            t.state = "reading"
            self.log.append(("r_ret", ridx))
            try:
                s1 = _dump_items(txn.iterate_rdatasets())
                self.sched.point("user", None)
                s2 = _dump_items(txn.iterate_rdatasets())
            except Abort:
                raise
            except Exception as e:
                self._lib_exc("reader iteration", e)
                s1 = s2 = None
            self.log.append(("r_snap", ridx, s1, s2))
            t.state = "in_reader_end"
            try:
                txn.rollback()
            except Abort:
                raise
            except Exception as e:
                self._lib_exc("reader end", e)
            t.state = None

        return body

    # -------------------------------------------------------------- run + evaluate
    def run(self):
        _sched_ref[0] = self.sched
        with _Patched():
            self.zone = dns.versioned.Zone(ORIGIN)
            with self.zone.writer() as txn:
                txn.replace(LOG, _rds(TXT, '"0"'))
                txn.replace(_nm("base"), _rds(A, "10.0.0.0"))
            li = 0
            ridx = 0
            for spec in self.threads:
                if spec[0] == "W":
                    n = len(spec[1])
                    self.sched.spawn(self._writer_body(self.order[li : li + n]))
                    li += n
                else:
                    self.sched.spawn(self._reader_body(ridx))
                    ridx += 1
            outcome = self.sched.run()
        _sched_ref[0] = None
        self.outcome = outcome
        for t in self.sched.tasks:
            if t.exc is not None:
                raise t.exc  # harness error inside a body -> note by the caller
        self._evaluate()
        return outcome

    def _prefix_states(self):
        """States after each prefix of the admitted transactions (admission order)."""
        states = [INITIAL]
        st = INITIAL
        for label in self.admitted:
            st = _model_apply(st, label, self.kind[label], self.prev[label], self.num[label])
            states.append(st)
        return states

    def _evaluate(self):
        if self.outcome == "deadlock":
            stuck = self.sched.stuck
            self.fail(
                "C12.progress",
                "deadlock: no thread can run, stuck=%s" % stuck,
                {"check": "deadlock"},
            )
        elif self.outcome in ("steplimit", "hang"):
            self.fail(
                "C12.progress",
                "execution does not terminate (%s)" % self.outcome,
                {"check": "non-termination"},
            )
        states = self._prefix_states()
        # serial result
        self.serial_checked = False
        if self.outcome == "ok" and len(self.admitted) == len(self.order):
            self.serial_checked = True
            final = _dump_zone(self.zone)
            if final != states[-1]:
                self.fail(
                    "C12.serial_result",
                    "final zone %s differs from the serial application in admission "
                    "order %s: %s" % (final, self.admitted, states[-1]),
                    {"check": "final zone is not the serial fold"},
                )
        # reader snapshots
        self.reader_checked = 0
        started = set()
        hi = {}
        for ev in self.log:
            if ev[0] == "end_call":
                started.add(ev[1])
            elif ev[0] == "r_ret":
                k = 0
                for l in self.admitted:
                    if l in started:
                        k += 1
                    else:
                        break
                hi[ev[1]] = k
            elif ev[0] == "r_snap":
                _, ridx, s1, s2 = ev
                if s1 is None:
                    continue
                self.reader_checked += 1
                if s1 != s2:
                    self.fail(
                        "C12.reader_atomic",
                        "a reader saw its snapshot change: %s then %s" % (s1, s2),
                        {"check": "snapshot changed under an open reader"},
                    )
                ok = False
                anyprefix = False
                for k, st in enumerate(states):
                    if s1 == st:
                        anyprefix = True
                        if k <= hi[ridx]:
                            ok = True
                if not anyprefix:
                    self.fail(
                        "C12.reader_atomic",
                        "reader snapshot %s equals no prefix of the committed "
                        "transactions %s" % (s1, self.admitted),
                        {"check": "snapshot is not a committed prefix"},
                    )
                elif not ok:
                    self.fail(
                        "C12.reader_atomic",
                        "reader snapshot %s contains a transaction whose commit had not "
                        "even been called when reader() returned (only %d of %s had)"
                        % (s1, hi[ridx], self.admitted),
                        {"check": "snapshot contains an uncommitted transaction"},
                    )


# ------------------------------------------------------------------ driving
def _run_one(R, threads, chooser, mode, line, release_points=False):
    ex = Exec(threads, chooser, line=line, release_points=release_points)
    try:
        ex.run()
    except Exception as e:  # harness problem
        R.note("harness error on %s: %r" % (threads, e))
        return None
    sched = [c for _, c in ex.sched.trace]
    key = (tuple(map(tuple, threads)), mode, tuple(sched))
    nw = len(ex.order)
    multi = nw >= 2
    waited = ex.waited
    R.case("C12.one_writer", key, nontrivial=waited)
    R.case("C12.fifo", key, nontrivial=waited)
    R.case("C12.progress", key, nontrivial=multi)
    R.case("C12.serial_result", key, nontrivial=ex.serial_checked and sum(
        1 for l in ex.admitted if ex.kind[l] in "cC") >= 2)
    if any(s[0] == "R" for s in threads):
        R.case("C12.reader_nowait", key, nontrivial=ex.reader_overlap)
        R.case("C12.reader_atomic", key, nontrivial=ex.reader_checked > 0)
    for clause, what, sig in ex.found:
        R.violation(
            clause,
            what,
            sig=sig,
            replay={
                "threads": [list(t) for t in threads],
                "schedule": sched,
                "line": line,
                "release_points": release_points,
                "clause": clause,
                "sig": sig,
            },
        )
    return ex


def _dfs(R, threads, mode, line=False, bound=None, cap=None):
    """Exhaustive stateless DFS; returns (number of schedules, complete?)."""
    prefix = []
    n = 0
    while True:
        if R.deadline() or (cap is not None and n >= cap):
            return n, False
        ex = _run_one(R, threads, PrefixChooser(prefix, bound), mode, line)
        if ex is None:
            return n, False
        n += 1
        if n == 1:
            R.sample("C12.serial_result", {"threads": threads, "mode": mode,
                                          "admitted": ex.admitted, "outcome": ex.outcome})
        prefix = next_prefix(ex.sched.trace)
        if prefix is None:
            return n, True


KINDS = "cCrex"
Rd = ("R",)


def W(k):
    return ("W", k)


def _summarize(cfg):
    return "+".join(t[1] if t[0] == "W" else "R" for t in cfg)


def _lock_block(R, summary, configs):
    for threads in configs:
        if R.deadline():
            summary.append((_summarize(threads), "lock", 0, False))
            continue
        n, complete = _dfs(R, threads, "lock")
        summary.append((_summarize(threads), "lock", n, complete))


def run(R):
    quick = R.quick
    summary = []

    small = [[W(a), W(b)] for a in KINDS for b in KINDS]
    tk = "crx" if quick else KINDS
    small += [[W(a), W(b), W(c)] for a in tk for b in tk for c in tk]
    if quick:
        small += [[W(a), W(b), W(c)] for a, b, c in ("cCe", "Ccr", "ecc", "rCc", "eer", "cec")]
    small += [[W("c"), W("c"), Rd], [W("c"), W("r"), Rd], [W("r"), W("c"), Rd],
              [W("C"), W("e"), Rd], [W("c"), Rd, Rd]]
    small += [[W("cc"), W("c")], [W("rc"), W("c")], [W("cr"), W("r")], [W("cc"), W("cc")],
              [W("cr"), W("rc")], [W("c"), W("c"), W("c"), W("c")]]
    if not quick:
        small += [[W("cc"), W("c"), Rd], [W("rc"), W("c"), Rd]]
    _lock_block(R, summary, small)

    with _LineMode():
        _line_part(R, summary)

    big = [[W("c"), W("r"), W("c"), Rd]]
    if not quick:
        big += [[W("c"), W("c"), W("c"), Rd], [W("r"), W("c"), W("C"), Rd],
                [W("e"), W("c"), W("x"), Rd],
                [W("c"), W("r"), W("c"), W("r")], [W("r"), W("c"), W("x"), W("c")],
                [W("c"), W("C"), W("e"), W("c")], [W("ccc"), W("cc")], [W("crc"), W("rc")],
                [W("c"), W("c"), Rd, Rd]]
    _lock_block(R, summary, big)

    # compact note: pairs and triples are summarised, the rest listed
    pairs = [x for x in summary if x[1] == "lock" and x[0].count("+") == 1 and "R" not in x[0]
             and len(x[0]) == 3]
    trip = [x for x in summary if x[1] == "lock" and x[0].count("+") == 2 and "R" not in x[0]
            and len(x[0]) == 5]
    rest = [x for x in summary if x not in pairs and x not in trip]
    R.note("exhaustive lock-level: %d writer pairs, %d schedules; %d writer triples, %d schedules"
           % (len(pairs), sum(x[2] for x in pairs), len(trip), sum(x[2] for x in trip)))
    R.note("schedules per configuration: " + "; ".join(
        "%s/%s=%d%s" % (a, b_, n, "" if c else " (INCOMPLETE)") for a, b_, n, c in rest))
    incomplete = [x for x in summary if not x[3]]
    if incomplete:
        R.note("budget reached before exhausting: %s" % [x[0] + "/" + x[1] for x in incomplete])


def _line_part(R, summary):
    quick = R.quick
    # line level, pre-emption bounded DFS
    if quick:
        line_cfgs = [([W("c"), W("c")], 2), ([W("c"), W("r"), W("c")], 1),
                     ([W("c"), W("c"), Rd], 2)]
    else:
        line_cfgs = [([W("c"), W("c")], 3), ([W("r"), W("c")], 3), ([W("c"), W("e")], 3),
                     ([W("cc"), W("c")], 2), ([W("c"), W("c"), Rd], 2), ([W("r"), W("c"), Rd], 2),
                     ([W("c"), W("c"), W("c"), W("c")], 1),
                     ([W("c"), W("r"), W("c")], 2), ([W("c"), W("c"), W("c")], 2),
                     ([W("r"), W("c"), W("x")], 2)]
    for threads, bound in line_cfgs:
        mode = "line-pb%d" % bound
        if R.deadline():
            summary.append((_summarize(threads), mode, 0, False))
            continue
        n, complete = _dfs(R, threads, mode, line=True, bound=bound)
        summary.append((_summarize(threads), mode, n, complete))

    # line level, seeded random schedules with 4-6 threads
    nrand = 600 if quick else 15000
    done = 0
    for i in range(nrand):
        if R.deadline():
            break
        nthreads = R.rng.randint(4, 6)
        nreaders = R.rng.randint(0, 2)
        threads = []
        for j in range(nthreads - nreaders):
            ntx = 1 if R.rng.random() < 0.7 else 2
            threads.append(W("".join(R.rng.choice("cccrrCex") for _ in range(ntx))))
        threads += [Rd] * nreaders
        stick = R.rng.choice([0.0, 0.5, 0.8, 0.95])
        ex = _run_one(R, threads, RandomChooser(R.rng, stick), "line-rand", True)
        if ex is not None and i == 0:
            R.sample("C12.fifo", {"threads": threads, "mode": "line-rand",
                                  "arrivals": ex.arrivals, "admitted": ex.admitted})
        done += 1
    summary.append(("random 4-6 threads", "line-rand", done, done == nrand))


def replay(data):
    threads = [tuple(t) for t in data["threads"]]
    line = bool(data.get("line"))
    ex = Exec(threads, PrefixChooser(data["schedule"]), line=line,
              release_points=bool(data.get("release_points", False)))
    if line:
        with _LineMode():
            ex.run()
    else:
        ex.run()
    want = data.get("clause")
    hits = [f for f in ex.found if want is None or f[0] == want]
    if hits:
        return True, "%s: %s" % (hits[0][0], hits[0][1])
    return False, "schedule of %d steps on %s ran clean (outcome %s)" % (
        len(data["schedule"]), threads, ex.outcome)
