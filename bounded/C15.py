"""Bounded stand-in for C15 -- key-free DNSSEC computations equal an independent
RFC 4034 / 5155 / 6840 / 8976 reference.

Everything under "reference" is written from the RFCs over ``hashlib``/``struct`` only:
RDATA is built octet by octet from a per-type wire layout table (so the expected
canonical form is known without asking the library), names are label tuples.
The library is reached through ``dns.rdata.from_wire`` -> ``Rdata.to_digestable``,
``dns.dnssec._make_rrsig_signature_data``, ``make_ds`` / ``make_cds`` /
``make_ds_rdataset`` / ``dnskey_rdataset_to_cds_rdataset``, ``key_id``,
``nsec3_hash``, ``Bitmap.from_rdtypes``, ``Zone.compute_digest`` /
``verify_digest`` and ``sign_zone`` (NSEC chain, run with a recording signer --
no private key is needed for the chain itself).
"""

from __future__ import annotations

import hashlib
import itertools
import struct

import dns.dnssec
import dns.name
import dns.rdata
import dns.rdataclass
import dns.rdataset
import dns.rdatatype
import dns.rdtypes.ANY.NSEC
import dns.rrset
import dns.zone

BOUNDS = (
    "`cryptography` is not installed in /venv: dns.dnssec.sign/validate and sign_zone with real keys "
    "cannot run, so signatures themselves are out of scope; everything that feeds them is checked. "
    "Canonical RDATA: every dnspython type that embeds a domain name (NS CNAME PTR DNAME SOA MX AFSDB RT KX RP "
    "PX SRV NAPTR SIG RRSIG | NSEC LP HIP IPSECKEY AMTRELAY SVCB HTTPS NSAP-PTR DSYNC TKEY TSIG CH-A) plus 27 "
    "name-free types and an unknown type, built from an independent layout table with upper/lower/boundary "
    "octets (0x40 0x5B 0x60 0x7B, >=0x80) in every name, absolute and relative-to-origin; quick 100 / thorough "
    "600 seeded rdatas per type. (MD MF MB MG MR MINFO NXT A6 are not implemented by dnspython and are handled as "
    "opaque RFC 3597 data; not judged.) RRSIG signing input: seeded RRsets of all those types, every label count "
    "0..n+1 for owners of 0..5 labels incl. wildcard owners, absolute and relative (owner, signer, rdata) forms; "
    "quick 2500 / thorough 12000. Key tags: all algorithms incl. RSAMD5, key lengths 0..300 incl. odd and carry-heavy "
    "keys; DS/CDS: SHA-1/256/384 via every entry point; NSEC3: salts 0..255 octets, iterations 0..150 (thorough "
    "2500); ZONEMD SIMPLE with SHA-384/512 on seeded zones (quick 200 / thorough 800) with apex ZONEMD, its RRSIG, "
    "non-apex ZONEMD, glue and occluded names; type bitmaps: exhaustive single types 0..65535 in thorough (quick: "
    "window edges) + seeded sets. NSEC chain: exhaustive enumeration of all layouts of a 6-name universe (quick: "
    "5-name; each name absent / data / delegation / delegation with DS / delegation with address at the cut owner) "
    "x {relativized, absolute} x apex variants, plus seeded zones (quick 500 of up to 12 names / thorough 3000 of up to 25 names) with nested cuts, wildcards, "
    "empty non-terminals and mixed case."
)

# --------------------------------------------------------------------------- reference

_TR = bytes.maketrans(bytes(range(0x41, 0x5B)), bytes(range(0x61, 0x7B)))


def lower_labels(labels):
    return tuple(bytes(l).translate(_TR) for l in labels)


def wire_name(labels):
    out = bytearray()
    for l in labels:
        out.append(len(l))
        out += l
    out.append(0)
    return bytes(out)


def canon_name(labels):
    return wire_name(lower_labels(labels))


def canon_key(labels):
    """RFC 4034 6.1 ordering key of an absolute name given as labels without the root."""
    return tuple(reversed(lower_labels(labels)))


def ref_key_tag(rdata):
    """RFC 4034 appendix B (and B.1 for algorithm 1)."""
    if rdata[3] == 1:
        return (rdata[-3] << 8) | rdata[-2]
    ac = 0
    for i, b in enumerate(rdata):
        ac += b if (i & 1) else (b << 8)
    ac += (ac >> 16) & 0xFFFF
    return ac & 0xFFFF


_DS_HASH = {1: "sha1", 2: "sha256", 4: "sha384"}


def ref_ds(owner, dnskey_rdata, digest_type):
    h = hashlib.new(_DS_HASH[digest_type], canon_name(owner) + dnskey_rdata).digest()
    return struct.pack("!HBB", ref_key_tag(dnskey_rdata), dnskey_rdata[3], digest_type) + h


_B32HEX = "0123456789ABCDEFGHIJKLMNOPQRSTUV"


def ref_b32hex(data):
    bits = "".join(f"{b:08b}" for b in data)
    bits += "0" * ((-len(bits)) % 5)
    return "".join(_B32HEX[int(bits[i : i + 5], 2)] for i in range(0, len(bits), 5))


def ref_nsec3(owner, salt, iterations):
    d = hashlib.sha1(canon_name(owner) + salt).digest()
    for _ in range(iterations):
        d = hashlib.sha1(d + salt).digest()
    return ref_b32hex(d)


def ref_bitmap(types):
    out = b""
    ts = sorted(set(types))
    for win in sorted({t >> 8 for t in ts}):
        arr = bytearray(32)
        last = 0
        for t in ts:
            if t >> 8 == win:
                lo = t & 0xFF
                arr[lo >> 3] |= 0x80 >> (lo & 7)
                last = max(last, lo >> 3)
        out += bytes([win, last + 1]) + bytes(arr[: last + 1])
    return out


def ref_rrsig_data(owner, rtype, rclass, hdr, signer, canon_rdatas):
    """RFC 4034 3.1.8.1 + RFC 4035 5.3.2.  hdr = (type covered, alg, labels, original ttl,
    expiration, inception, key tag).  Returns None when labels > label count (MUST NOT be used)."""
    labels = hdr[2]
    n = len(owner)
    if labels > n:
        return None
    name = tuple(owner) if labels == n else (b"*",) + tuple(owner[n - labels :])
    data = struct.pack("!HBBIIIH", *hdr) + canon_name(signer)
    pre = canon_name(name) + struct.pack("!HHI", rtype, rclass, hdr[3])
    for rd in sorted(set(canon_rdatas)):
        data += pre + struct.pack("!H", len(rd)) + rd
    return data


def ref_zonemd(origin, rrs, alg):
    """RFC 8976 3.3/3.4 SIMPLE.  rrs: iterable of (owner labels absolute, type, class, ttl,
    canonical rdata, covered type or 0)."""
    h = hashlib.new({1: "sha384", 2: "sha512"}[alg])
    o = lower_labels(origin)
    keep = []
    for owner, t, c, ttl, rd, cov in rrs:
        if lower_labels(owner) == o and (t == 63 or (t == 46 and cov == 63)):
            continue
        keep.append((canon_key(owner), t, rd, canon_name(owner) + struct.pack("!HHIH", t, c, ttl, len(rd)) + rd))
    for _, _, _, rr in sorted(set(keep)):
        h.update(rr)
    return h.digest()


# ---- per-type wire layouts.  A layout is a list of segments: bytes (verbatim) or
# ("n", labels) for an embedded domain name.

LOWER = True  # in the RFC 4034 6.2 list as amended by RFC 6840 5.1
KEEP = False


def _rb(rng, n):
    return bytes(rng.getrandbits(8) for _ in range(n))


def _cs(rng, lo=0, hi=12, upper=True):
    n = rng.randint(lo, hi)
    s = bytes(rng.choice(b"ABCXYZabcxyz019 .-") for _ in range(n))
    return bytes([len(s)]) + s


def _u(fmt, *v):
    return struct.pack("!" + fmt, *v)


def _hdr_rrsig(rng):
    return _u("HBBIIIH", rng.choice((1, 2, 15, 46, 47, 65280)), rng.choice((5, 8, 13, 15)), rng.randint(0, 8),
              rng.getrandbits(32), rng.getrandbits(32), rng.getrandbits(32), rng.getrandbits(16))


def _svcb(rng, N):
    if rng.random() < 0.3:
        return [_u("H", 0), N()]
    params = b""
    if rng.random() < 0.6:
        v = b"\x02H2\x05HTTP3"
        params += _u("HH", 1, len(v)) + v
    if rng.random() < 0.6:
        params += _u("HHH", 3, 2, rng.getrandbits(16))
    if rng.random() < 0.3:
        v = _rb(rng, 5)
        params += _u("HH", 65400, len(v)) + v
    return [_u("H", rng.randint(1, 65535)), N(), params]


def _hip(rng, N):
    hit = _rb(rng, rng.randint(1, 16))
    pk = _rb(rng, rng.randint(1, 40))
    return [_u("BBH", len(hit), rng.randint(1, 3), len(pk)) + hit + pk] + [N() for _ in range(rng.randint(0, 3))]


def _ipseckey(rng, N):
    gw = rng.choice((3, 3, 3, 0, 1, 2))
    head = _u("BBB", rng.getrandbits(8), gw, rng.randint(0, 3))
    key = _rb(rng, rng.randint(0, 24))
    if gw == 3:
        return [head, N(), key]
    return [head + {0: b"", 1: _rb(rng, 4), 2: _rb(rng, 16)}[gw] + key]


def _amtrelay(rng, N):
    ty = rng.choice((3, 3, 3, 0, 1, 2))
    head = _u("BB", rng.getrandbits(8), (rng.getrandbits(1) << 7) | ty)
    if ty == 3:
        return [head, N()]
    return [head + {0: b"", 1: _rb(rng, 4), 2: _rb(rng, 16)}[ty]]


def _bm(rng):
    return ref_bitmap(rng.sample(range(1, 300), rng.randint(1, 6)) + ([rng.randint(256, 65535)] if rng.random() < 0.3 else []))


def _tkey(rng, N):
    k, o = _rb(rng, rng.randint(0, 20)), _rb(rng, rng.randint(0, 6))
    return [N(), _u("IIHHH", rng.getrandbits(32), rng.getrandbits(32), rng.randint(1, 5), rng.randint(0, 23), len(k)) + k
            + _u("H", len(o)) + o]


def _tsig(rng, N):
    m, o = _rb(rng, rng.randint(0, 32)), _rb(rng, rng.randint(0, 6))
    return [N(), _u("HIHH", rng.getrandbits(16), rng.getrandbits(32), rng.getrandbits(16), len(m)) + m
            + _u("HHH", rng.getrandbits(16), rng.randint(0, 23), len(o)) + o]


IN, CH, ANY = 1, 3, 255

# name, class, type, lowercased?, layout builder (rng, N) where N() makes an embedded name segment
TYPES_WITH_NAMES = [
    ("NS", IN, 2, LOWER, lambda r, N: [N()]),
    ("CNAME", IN, 5, LOWER, lambda r, N: [N()]),
    ("PTR", IN, 12, LOWER, lambda r, N: [N()]),
    ("DNAME", IN, 39, LOWER, lambda r, N: [N()]),
    ("SOA", IN, 6, LOWER, lambda r, N: [N(), N(), _rb(r, 20)]),
    ("MX", IN, 15, LOWER, lambda r, N: [_rb(r, 2), N()]),
    ("AFSDB", IN, 18, LOWER, lambda r, N: [_rb(r, 2), N()]),
    ("RT", IN, 21, LOWER, lambda r, N: [_rb(r, 2), N()]),
    ("KX", IN, 36, LOWER, lambda r, N: [_rb(r, 2), N()]),
    ("RP", IN, 17, LOWER, lambda r, N: [N(), N()]),
    ("PX", IN, 26, LOWER, lambda r, N: [_rb(r, 2), N(), N()]),
    ("SRV", IN, 33, LOWER, lambda r, N: [_rb(r, 6), N()]),
    ("NAPTR", IN, 35, LOWER, lambda r, N: [_rb(r, 4) + _cs(r) + _cs(r) + _cs(r), N()]),
    ("SIG", IN, 24, LOWER, lambda r, N: [_hdr_rrsig(r), N(), _rb(r, r.randint(1, 40))]),
    ("RRSIG", IN, 46, LOWER, lambda r, N: [_hdr_rrsig(r), N(), _rb(r, r.randint(1, 40))]),
    ("NSEC", IN, 47, KEEP, lambda r, N: [N(), _bm(r)]),
    ("LP", IN, 107, KEEP, lambda r, N: [_rb(r, 2), N()]),
    ("HIP", IN, 55, KEEP, _hip),
    ("IPSECKEY", IN, 45, KEEP, _ipseckey),
    ("AMTRELAY", IN, 260, KEEP, _amtrelay),
    ("SVCB", IN, 64, KEEP, _svcb),
    ("HTTPS", IN, 65, KEEP, _svcb),
    ("NSAP-PTR", IN, 23, KEEP, lambda r, N: [N()]),
    ("DSYNC", IN, 66, KEEP, lambda r, N: [_u("HBH", r.choice((59, 60, 6)), r.randint(1, 255), r.getrandbits(16)), N()]),
    ("TKEY", ANY, 249, KEEP, _tkey),
    ("TSIG", ANY, 250, KEEP, _tsig),
    ("CH-A", CH, 1, KEEP, lambda r, N: [N(), _rb(r, 2)]),
]


def _txt(r):
    return b"".join(_cs(r, 0, 20) for _ in range(r.randint(1, 3)))


TYPES_NO_NAMES = [
    ("A", IN, 1, lambda r: _rb(r, 4)),
    ("AAAA", IN, 28, lambda r: _rb(r, 16)),
    ("TXT", IN, 16, _txt),
    ("SPF", IN, 99, _txt),
    ("HINFO", IN, 13, lambda r: _cs(r) + _cs(r)),
    ("X25", IN, 19, lambda r: _cs(r, 1, 10)),
    ("DS", IN, 43, lambda r: _u("HBB", r.getrandbits(16), r.randint(1, 16), 2) + _rb(r, 32)),
    ("CDS", IN, 59, lambda r: _u("HBB", r.getrandbits(16), r.randint(1, 16), 4) + _rb(r, 48)),
    ("DNSKEY", IN, 48, lambda r: _u("HBB", r.choice((256, 257, 0)), 3, r.choice((5, 8, 13, 15))) + _rb(r, r.randint(1, 70))),
    ("CDNSKEY", IN, 60, lambda r: _u("HBB", r.choice((256, 257)), 3, r.choice((8, 13))) + _rb(r, r.randint(1, 70))),
    ("NSEC3", IN, 50, lambda r: _u("BBH", 1, r.randint(0, 1), r.randint(0, 100)) + (lambda s: bytes([len(s)]) + s)(_rb(r, r.randint(0, 8)))
     + bytes([20]) + _rb(r, 20) + _bm(r)),
    ("NSEC3PARAM", IN, 51, lambda r: _u("BBH", 1, 0, r.randint(0, 100)) + (lambda s: bytes([len(s)]) + s)(_rb(r, r.randint(0, 8)))),
    ("TLSA", IN, 52, lambda r: _rb(r, 3) + _rb(r, r.randint(1, 40))),
    ("SMIMEA", IN, 53, lambda r: _rb(r, 3) + _rb(r, r.randint(1, 40))),
    ("SSHFP", IN, 44, lambda r: _rb(r, 2) + _rb(r, r.randint(1, 32))),
    ("CAA", IN, 257, lambda r: bytes([r.choice((0, 128))]) + bytes([5]) + b"Issue" + b"CA.Example.NET"),
    ("ZONEMD", IN, 63, lambda r: (lambda a: _u("IBB", r.getrandbits(32), 1, a) + _rb(r, {1: 48, 2: 64, 240: r.choice((12, 30))}[a]))(r.choice((1, 2, 240)))),
    ("OPENPGPKEY", IN, 61, lambda r: _rb(r, r.randint(1, 50))),
    ("DHCID", IN, 49, lambda r: _rb(r, r.randint(3, 40))),
    ("EUI48", IN, 108, lambda r: _rb(r, 6)),
    ("EUI64", IN, 109, lambda r: _rb(r, 8)),
    ("L32", IN, 105, lambda r: _rb(r, 6)),
    ("L64", IN, 106, lambda r: _rb(r, 10)),
    ("NID", IN, 104, lambda r: _rb(r, 10)),
    ("URI", IN, 256, lambda r: _rb(r, 4) + b"HTTPS://WWW.Example.COM/" + _rb(r, r.randint(0, 5))),
    ("CSYNC", IN, 62, lambda r: _u("IH", r.getrandbits(32), r.randint(0, 3)) + _bm(r)),
    ("CERT", IN, 37, lambda r: _u("HHB", r.randint(1, 8), r.getrandbits(16), r.choice((5, 8, 13))) + _rb(r, r.randint(1, 30))),
    # RFC 3597: unknown types are opaque even when the octets look like an upper-case name
    ("TYPE65280", IN, 65280, lambda r: wire_name([b"Opaque", b"EXAMPLE"]) + _rb(r, r.randint(0, 10))),
]

_NAMED = {t[0]: t for t in TYPES_WITH_NAMES}
_PLAIN = {t[0]: t for t in TYPES_NO_NAMES}

_LCH = b"abcdefghijklmnopqrstuvwxyz0123456789-"
_BOUNDARY = (0x40, 0x5B, 0x60, 0x7B, 0x00, 0x2E, 0x80, 0xC1, 0xDA, 0xFF)


def gen_label(rng, force_upper=False):
    n = rng.choice((1, 2, 3, 4, 6, 9))
    b = bytearray(rng.choice(_LCH) for _ in range(n))
    for i in range(n):
        if 0x61 <= b[i] <= 0x7A and rng.random() < 0.45:
            b[i] -= 0x20
    if rng.random() < 0.15:
        b[rng.randrange(n)] = rng.choice(_BOUNDARY)
    if force_upper and not any(0x41 <= x <= 0x5A for x in b):
        b[0] = rng.choice(b"AMZ")
    return bytes(b)


def gen_name(rng, suffix=(), minl=1, maxl=3, force_upper=True):
    k = rng.randint(minl, maxl)
    labels = [gen_label(rng) for _ in range(k)]
    if labels and force_upper:
        labels[rng.randrange(len(labels))] = gen_label(rng, True)
    return labels + list(suffix)


def build(layout, mode):
    """mode: 'wire' (as given), 'lower' (every name lower-cased)."""
    out = b""
    for seg in layout:
        if isinstance(seg, (bytes, bytearray)):
            out += bytes(seg)
        else:
            out += wire_name(seg[1]) if mode == "wire" else canon_name(seg[1])
    return out


def gen_rdata(rng, tname, origin=None):
    """Returns dict(type info, wire, canon, alt) -- canon is what RFC 4034 6.2 / RFC 6840 require,
    alt is the other treatment of the names (used only to classify a mismatch)."""
    if tname in _NAMED:
        _, rclass, rtype, low, lay = _NAMED[tname]

        def N():
            if origin is not None and rng.random() < 0.6:
                return ("n", gen_name(rng, origin, 0, 2, force_upper=True))
            return ("n", gen_name(rng))

        layout = lay(rng, N)
        wire = build(layout, "wire")
        lower = build(layout, "lower")
        has_name = any(not isinstance(s, (bytes, bytearray)) for s in layout)
        return {"t": tname, "class": rclass, "type": rtype, "wire": wire, "canon": lower if low else wire,
                "alt": wire if low else lower, "listed": low, "names": has_name}
    _, rclass, rtype, gen = _PLAIN[tname]
    wire = gen(rng)
    return {"t": tname, "class": rclass, "type": rtype, "wire": wire, "canon": wire, "alt": wire.translate(_TR),
            "listed": False, "names": False}


# --------------------------------------------------------------------------- library glue


def lib_name(labels, absolute=True):
    return dns.name.Name(tuple(labels) + ((b"",) if absolute else ()))


def lib_rdata(rclass, rtype, wire, origin=None):
    return dns.rdata.from_wire(rclass, rtype, wire, 0, len(wire), origin=lib_name(origin) if origin is not None else None)


def esc_text(labels):
    """Master-file text of an absolute name, written independently of dns.name.to_text."""
    out = []
    for l in labels:
        s = ""
        for b in l:
            if (0x30 <= b <= 0x39) or (0x41 <= b <= 0x5A) or (0x61 <= b <= 0x7A) or b in (0x2D, 0x5F):
                s += chr(b)
            else:
                s += "\\%03d" % b
        out.append(s)
    return ".".join(out) + "."


def _exc(e):
    return type(e).__name__


# --------------------------------------------------------------------------- checks (pure functions of a JSON-able case)


def _classify(got, rd):
    """(stable class code, explanation)"""
    if got == rd["alt"] and rd["alt"] != rd["canon"]:
        if rd["names"]:
            if not rd["listed"]:
                return ("lowercased-outside-6.2-list",
                        "embedded name lower-cased although the type is not in the RFC 4034 6.2 list (RFC 6840 5.1)")
            return "not-lowercased-in-6.2-list", "embedded name of a type in the RFC 4034 6.2 list not lower-cased"
        return "non-name-octets-lowercased", "octets that are not a domain name were lower-cased"
    if len(got) < len(rd["canon"]):
        return "shorter", "shorter than the uncompressed canonical form (compression or a dropped field)"
    return "mismatch", "differs from the reference canonical form"


def _canon_fail(rd, origin=None):
    """The (clause, what, sig) of a canonical-form discrepancy of one rdata, or None.  Used by the direct
    clause and by the composite clauses so that one defect has one sig wherever it surfaces."""
    r = lib_rdata(rd["class"], rd["type"], rd["wire"], origin)
    got = r.to_digestable(lib_name(origin) if origin is not None else None)
    if got == rd["canon"]:
        return None
    code, why = _classify(got, rd)
    return ("C15.canonical_rdata", f"{rd['t']}: {why}", {"site": "Rdata.to_digestable", "rdtype": rd["t"], "class": code})


def chk_canonical(c):
    out = []
    rd = c["rd"]
    variants = [("absolute", None)]
    if c.get("origin") is not None:
        variants.append(("relative", c["origin"]))
    for vname, origin in variants:
        try:
            r = lib_rdata(rd["class"], rd["type"], rd["wire"], origin)
        except Exception as e:
            raise RuntimeError(f"harness: generated {rd['t']} rdata rejected by from_wire: {_exc(e)}: {e}")
        try:
            got = r.to_digestable(lib_name(origin) if origin is not None else None)
        except Exception as e:
            out.append(("C15.canonical_rdata", f"{rd['t']}: to_digestable raises {_exc(e)}",
                        {"site": "Rdata.to_digestable", "rdtype": rd["t"], "what": "raises", "exc": _exc(e)}))
            continue
        if got != rd["canon"]:
            code, why = _classify(got, rd)
            out.append(("C15.canonical_rdata", f"{rd['t']}: {why}",
                        {"site": "Rdata.to_digestable", "rdtype": rd["t"], "class": code}))
    return out


def chk_order(c):
    """sorted() of the rdatas == RFC 4034 6.3 order of the canonical forms."""
    out = []
    rds = c["rds"]
    objs = [lib_rdata(r["class"], r["type"], r["wire"]) for r in rds]
    want = sorted(set(r["canon"] for r in rds))
    distinct = []
    for o in objs:
        if not any(o == d for d in distinct):
            distinct.append(o)
    try:
        ordered = sorted(distinct)
    except Exception as e:
        return [("C15.rrset_canonical_order", f"sorting a {rds[0]['t']} rdataset raises {_exc(e)}",
                 {"site": "Rdata.__lt__", "rdtype": rds[0]["t"], "what": "raises"})]
    knock = [f for f in (_canon_fail(r) for r in rds) if f]
    if len(distinct) != len(want):
        if knock:
            return knock[:1]
        cause = "equality"
        return [("C15.rrset_canonical_order",
                 f"{rds[0]['t']}: {len(want)} distinct canonical forms but {len(distinct)} distinct rdatas ({cause})",
                 {"site": "Rdata.__eq__", "rdtype": rds[0]["t"], "cause": cause})]
    # map each library object back to the reference canonical form of the wire it was built from
    by_id = {}
    for o, r in zip(objs, rds):
        by_id.setdefault(o.to_wire(), r["canon"])
    got = [by_id[o.to_wire()] for o in ordered]
    if got != want:
        if knock:
            return knock[:1]
        cause = "ordering"
        out.append(("C15.rrset_canonical_order", f"{rds[0]['t']}: sorted rdataset is not in RFC 4034 6.3 order ({cause})",
                    {"site": "sorted(rdatas)", "rdtype": rds[0]["t"], "cause": cause}))
    return out


def chk_rrsig(c):
    out = []
    rds = c["rds"]
    origin = c.get("origin")
    rel = origin is not None
    org = lib_name(origin) if rel else None
    owner_abs = c["owner"]  # absolute labels
    signer_abs = c["signer"]
    hdr = tuple(c["hdr"])
    rtype, rclass = rds[0]["type"], rds[0]["class"]

    def maybe_rel(labels):
        if rel and tuple(labels[len(labels) - len(origin):]) == tuple(origin) and len(labels) >= len(origin):
            return lib_name(labels[: len(labels) - len(origin)], absolute=False)
        return lib_name(labels)

    objs = [lib_rdata(r["class"], r["type"], r["wire"], origin) for r in rds]
    rdataset = dns.rdataset.Rdataset(rclass, rtype)
    for o in objs:
        rdataset.add(o, c["ttl"])
    owner = maybe_rel(owner_abs)
    sig_wire = struct.pack("!HBBIIIH", *hdr) + wire_name(signer_abs) + b"\x01\x02\x03"
    rrsig = lib_rdata(rclass if rclass != ANY else IN, 46, sig_wire, origin)
    if c["as_tuple"]:
        rrset = (owner, rdataset)
    else:
        rrset = dns.rrset.RRset(owner, rclass, rtype)
        rrset.update_ttl(c["ttl"])
        for o in objs:
            rrset.add(o)
    want = ref_rrsig_data(owner_abs, rtype, rclass, hdr, signer_abs, [r["canon"] for r in rds])
    rel_signer = rel and not rrsig.signer.is_absolute() and len(rrsig.signer) > 0
    wild_owner = len(owner_abs) > 0 and owner_abs[0] == b"*"
    try:
        got = dns.dnssec._make_rrsig_signature_data(rrset, rrsig, org)
    except Exception as e:
        if want is None:
            return out  # labels > owner label count: unusable signature, refusing is what the RFC demands
        out.append(("C15.rrsig_signing_input",
                    f"raises {_exc(e)} for a well-formed RRset/RRSIG pair (labels={hdr[2]}, owner labels={len(owner_abs)})",
                    {"site": "dns.dnssec._make_rrsig_signature_data", "what": "raises", "exc": _exc(e),
                     "relative": rel, "wild_owner": wild_owner}))
        return out
    if want is None:
        out.append(("C15.rrsig_signing_input",
                    f"RRSIG labels {hdr[2]} > owner label count {len(owner_abs)} yet signing input is produced",
                    {"site": "dns.dnssec._make_rrsig_signature_data", "what": "labels > owner labels accepted"}))
        return out
    if got != want:
        knock = [f for f in (_canon_fail(r, origin) for r in rds) if f]
        if knock:
            return knock[:1]
        if got[:18] != want[:18]:
            cause = "RRSIG fixed fields"
        elif not got.startswith(want[: 18 + len(canon_name(signer_abs))]):
            cause = ("relative non-empty signer name made absolute against itself instead of the origin" if rel_signer
                     else "signer name")
        else:
            cause = "owner/RR part"
        out.append(("C15.rrsig_signing_input",
                    f"signing input differs from RFC 4034 3.1.8.1: {cause} (labels={hdr[2]}, owner labels={len(owner_abs)}, "
                    f"{'relative' if rel else 'absolute'})",
                    {"site": "dns.dnssec._make_rrsig_signature_data", "what": cause,
                     "wildcard_reduction": hdr[2] < len(owner_abs)}
                    if not cause.startswith("relative") else
                    {"site": "dns.dnssec._make_rrsig_signature_data", "what": "signer name",
                     "class": "relative non-empty signer"}))
    return out


def chk_keys(c):
    """key tag, DS / CDS via every entry point."""
    out = []
    kw = c["dnskey"]
    owner = c["owner"]
    ktype = c["ktype"]  # 48 DNSKEY or 60 CDNSKEY
    key = lib_rdata(IN, ktype, kw)
    tag = ref_key_tag(kw)
    for fn, nm in ((dns.dnssec.key_id, "dns.dnssec.key_id"), (lambda k: k.key_id(), "DNSKEYBase.key_id")):
        try:
            got = fn(key)
        except Exception as e:
            got = f"raises {_exc(e)}"
        if got != tag:
            out.append(("C15.key_tag", f"{nm} = {got}, RFC 4034 appendix B gives {tag} (algorithm {kw[3]}, {len(kw)} octets)",
                        {"site": nm, "what": "key tag", "rsamd5": kw[3] == 1, "odd": len(kw) % 2 == 1}))
            break
    oname = lib_name(owner)
    for dt in (1, 2, 4):
        want = ref_ds(owner, kw, dt)
        algs = {1: ("SHA1", "sha1", 1), 2: ("SHA256", "sha256", 2), 4: ("SHA384", "Sha384", 4)}[dt]
        for alg in algs:
            for nm_form in ("name", "text"):
                n = oname if nm_form == "name" else esc_text(owner)
                try:
                    ds = dns.dnssec.make_ds(n, key, alg, policy=dns.dnssec.allow_all_policy)
                    got = ds.to_wire()
                except Exception as e:
                    out.append(("C15.ds_digest", f"make_ds raises {_exc(e)} (digest type {dt})",
                                {"site": "dns.dnssec.make_ds", "what": "raises", "exc": _exc(e)}))
                    continue
                if got != want or ds.rdtype != 43:
                    part = "key tag" if got[:2] != want[:2] else ("header" if got[:4] != want[:4] else "digest")
                    out.append(("C15.ds_digest", f"make_ds differs from RFC 4034 5.1.4 in the {part} (digest type {dt})",
                                {"site": "dns.dnssec.make_ds", "what": part}))
        if dt == 1:
            continue  # creation with SHA-1 is denied by the default policy of the remaining entry points
        try:
            cds = dns.dnssec.make_cds(oname, key, dt)
            if cds.to_wire() != want or cds.rdtype != 59:
                out.append(("C15.ds_digest", "make_cds differs from the reference DS content / type",
                            {"site": "dns.dnssec.make_cds", "what": "content"}))
            krds = dns.rdataset.Rdataset(IN, ktype)
            krds.add(key, 3600)
            extra = c.get("dnskey2")
            wants = {want}
            if extra:
                krds.add(lib_rdata(IN, ktype, extra), 3600)
                wants.add(ref_ds(owner, extra, dt))
            got = dns.dnssec.dnskey_rdataset_to_cds_rdataset(oname, krds, dt)
            if {r.to_wire() for r in got} != wants or got.rdtype != 59:
                out.append(("C15.ds_digest", "dnskey_rdataset_to_cds_rdataset differs from the reference",
                            {"site": "dns.dnssec.dnskey_rdataset_to_cds_rdataset", "what": "content"}))
            got = dns.dnssec.make_ds_rdataset((oname, krds), {dt})
            # (for DNSKEY/CDNSKEY input the library returns these DS contents in an rdataset of type CDS;
            # the property speaks about the digests, so only the content is judged)
            if {r.to_wire() for r in got} != wants:
                out.append(("C15.ds_digest", "make_ds_rdataset differs from the reference",
                            {"site": "dns.dnssec.make_ds_rdataset", "what": "content"}))
            back = dns.dnssec.cds_rdataset_to_ds_rdataset(dns.dnssec.dnskey_rdataset_to_cds_rdataset(oname, krds, dt))
            if {r.to_wire() for r in back} != wants or back.rdtype != 43:
                out.append(("C15.ds_digest", "cds_rdataset_to_ds_rdataset changes the content",
                            {"site": "dns.dnssec.cds_rdataset_to_ds_rdataset", "what": "content"}))
        except Exception as e:
            out.append(("C15.ds_digest", f"DS/CDS helper raises {_exc(e)}",
                        {"site": "dns.dnssec (CDS helpers)", "what": "raises", "exc": _exc(e)}))
    return out


def chk_nsec3(c):
    out = []
    owner, salt, it = c["owner"], c["salt"], c["iterations"]
    want = ref_nsec3(owner, salt, it)
    forms = [(lib_name(owner), salt, "SHA1"), (esc_text(owner), salt.hex(), 1), (lib_name(owner), salt.hex().upper(), "sha1")]
    if not salt:
        forms.append((lib_name(owner), None, 1))
    for d, s, a in forms:
        try:
            got = dns.dnssec.nsec3_hash(d, s, it, a)
        except Exception as e:
            out.append(("C15.nsec3_hash", f"nsec3_hash raises {_exc(e)}", {"site": "dns.dnssec.nsec3_hash", "what": "raises"}))
            continue
        if got.upper() != want:
            out.append(("C15.nsec3_hash", f"nsec3_hash differs from RFC 5155 section 5 (iterations {it}, salt {len(salt)} octets)",
                        {"site": "dns.dnssec.nsec3_hash", "what": "hash"}))
    return out


def chk_bitmap(c):
    types = c["types"]
    want = ref_bitmap(types)
    try:
        bm = dns.rdtypes.ANY.NSEC.Bitmap.from_rdtypes([dns.rdatatype.RdataType.make(t) for t in types])
    except Exception as e:
        return [("C15.type_bitmap", f"Bitmap.from_rdtypes({types[:8]}...) raises {_exc(e)}",
                 {"site": "dns.rdtypes.util.Bitmap.from_rdtypes", "what": "raises", "exc": _exc(e)})]
    got = b"".join(bytes([w, len(b)]) + b for w, b in bm.windows)
    if got != want:
        return [("C15.type_bitmap", f"Bitmap.from_rdtypes({types[:8]}...) differs from RFC 4034 4.1.2 encoding",
                 {"site": "dns.rdtypes.util.Bitmap.from_rdtypes", "what": "encoding", "multi_window": len({t >> 8 for t in types}) > 1})]
    return []


def _make_zone(c):
    """c['rrs']: list of dict(owner (labels relative to origin), rd (gen_rdata dict), ttl).  Returns zone."""
    origin = c["origin"]
    rel = c["relativize"]
    z = dns.zone.Zone(lib_name(origin), relativize=rel)
    for rr in c["rrs"]:
        rd = rr["rd"]
        name = lib_name(rr["owner"], absolute=False) if rel else lib_name(list(rr["owner"]) + list(origin))
        obj = lib_rdata(rd["class"], rd["type"], rd["wire"], origin if rel else None)
        covers = obj.covers()
        z.find_rdataset(name, rd["type"], covers, create=True).add(obj, rr["ttl"])
    return z


def chk_zonemd(c):
    out = []
    origin = c["origin"]
    z = _make_zone(c)
    rrs = []
    for rr in c["rrs"]:
        rd = rr["rd"]
        cov = struct.unpack("!H", rd["wire"][:2])[0] if rd["type"] == 46 else 0
        rrs.append((tuple(rr["owner"]) + tuple(origin), rd["type"], rd["class"], rr["ttl"], rd["canon"], cov))
    for alg in (1, 2):
        want = ref_zonemd(origin, rrs, alg)
        try:
            zmd = z.compute_digest(alg)
        except Exception as e:
            out.append(("C15.zonemd_digest", f"compute_digest raises {_exc(e)}", {"site": "Zone.compute_digest", "what": "raises", "exc": _exc(e)}))
            continue
        if zmd.digest != want:
            # attribute: canonical rdata of some type, or the zone walk
            knock = {}
            for rr in c["rrs"]:
                f = _canon_fail(rr["rd"], origin if c["relativize"] else None)
                if f:
                    knock.setdefault(rr["rd"]["t"], f)
            if knock:
                out.extend(knock.values())
                break
            cause = "zone walk (order / inclusion / RR framing)"
            out.append(("C15.zonemd_digest", f"ZONEMD digest differs from the RFC 8976 SIMPLE reference: {cause}",
                        {"site": "Zone._compute_digest", "what": cause}))
            break
        serial = struct.unpack("!I", c["soa_serial_wire"])[0]
        if zmd.serial != serial or zmd.scheme != 1 or zmd.hash_algorithm != alg:
            out.append(("C15.zonemd_digest", "ZONEMD rdata fields (serial/scheme/algorithm) wrong",
                        {"site": "Zone.compute_digest", "what": "fields"}))
        # the reference digest must verify, a one-bit different one must not
        ref_rd = lib_rdata(IN, 63, struct.pack("!IBB", serial, 1, alg) + want)
        try:
            z.verify_digest(ref_rd)
        except Exception as e:
            out.append(("C15.zonemd_digest", f"verify_digest rejects the reference digest: {_exc(e)}",
                        {"site": "Zone.verify_digest", "what": "rejects reference"}))
        bad = bytearray(want)
        bad[len(bad) // 2] ^= 1
        try:
            z.verify_digest(lib_rdata(IN, 63, struct.pack("!IBB", serial, 1, alg) + bytes(bad)))
            out.append(("C15.zonemd_digest", "verify_digest accepts a wrong digest",
                        {"site": "Zone.verify_digest", "what": "accepts wrong"}))
        except dns.zone.DigestVerificationFailure:
            pass
    return out


def ref_nsec_chain(c):
    """Returns {owner labels (relative, lower): (next owner relative lower, bitmap bytes)} for the
    secure names of the zone model, per RFC 4035 2.3."""
    by_owner = {}
    for rr in c["rrs"]:
        by_owner.setdefault(lower_labels(rr["owner"]), set()).add(rr["rd"]["type"])
    names = sorted(by_owner, key=canon_key)
    cuts = [n for n in names if n != () and 2 in by_owner[n]]

    def beneath(n):
        return any(len(n) > len(cu) and n[len(n) - len(cu):] == cu for cu in cuts)

    secure = [n for n in names if not beneath(n)]
    chain = {}
    for i, n in enumerate(secure):
        nxt = secure[(i + 1) % len(secure)]
        if n in cuts:
            types = {t for t in by_owner[n] if t in (2, 43)}
        else:
            types = set(by_owner[n])
        chain[n] = (nxt, ref_bitmap(types | {46, 47}))
    return chain, set(cuts)


def chk_nsec(c):
    out = []
    origin = tuple(c["origin"])
    lorigin = lower_labels(origin)
    z = _make_zone(c)
    want, cuts = ref_nsec_chain(c)
    present = {}
    for rr in c["rrs"]:
        present.setdefault(lower_labels(rr["owner"]), set()).add(rr["rd"]["type"])
    signed = []
    try:
        if c["signer"] == "recorder":
            dns.dnssec.sign_zone(z, keys=None, add_dnskey=False,
                                 rrset_signer=lambda txn, rrset: signed.append((rrset.name, rrset.rdtype)))
        else:
            dns.dnssec.sign_zone(z, add_dnskey=False)
    except Exception as e:
        return [("C15.nsec_chain", f"sign_zone raises {_exc(e)}: {e}", {"site": "dns.dnssec.sign_zone", "what": "raises", "exc": _exc(e)})]
    got = {}
    multi = []
    for name, node in z.nodes.items():
        labels = lower_labels(name.labels)
        if name.is_absolute():
            labels = labels[:-1]
            if labels[len(labels) - len(lorigin):] != lorigin:
                continue
            labels = labels[: len(labels) - len(lorigin)]
        rds = node.get_rdataset(IN, 47)
        if rds is None:
            continue
        if len(rds) != 1:
            multi.append(labels)
        rd = list(rds)[0]
        nxt = rd.next
        nl = lower_labels(nxt.labels)
        if nxt.is_absolute():
            nl = nl[:-1]
            nl = nl[: len(nl) - len(lorigin)] if nl[len(nl) - len(lorigin):] == lorigin else ("<out of zone>",) + nl
        got[labels] = (nl, b"".join(bytes([w, len(b)]) + b for w, b in rd.windows))
    site = "dns.dnssec._sign_zone_nsec"
    secure_sorted = sorted(want, key=canon_key)
    for n in secure_sorted:
        if n not in got:
            last_apex = n == () and secure_sorted[-1] == () and c["relativize"]
            out.append(("C15.nsec_chain",
                        "authoritative name has no NSEC: " + ("the apex is the only secure name of a relativized zone"
                                                              if last_apex else "a secure name was skipped"),
                        {"site": site, "what": "secure name without NSEC",
                         "class": "apex-only relativized zone" if last_apex else "other"}))
            continue
        gn, gb = got[n]
        wn, wb = want[n]
        if gn != wn:
            out.append(("C15.nsec_chain", f"NSEC next name is not the next authoritative name in canonical order",
                        {"site": site, "what": "wrong next"}))
        if gb != wb:
            extra_at_cut = n in cuts and gb == ref_bitmap(present[n] | {46, 47})
            out.append(("C15.nsec_chain",
                        "NSEC type bitmap at a delegation owner sets types the parent is not authoritative for (RFC 4035 2.3)"
                        if extra_at_cut else "NSEC type bitmap differs from the types present (+RRSIG, NSEC)",
                        {"site": site, "what": "bitmap", "class": "non-NS/DS types at a delegation owner" if extra_at_cut else "other"}))
    for n in got:
        if n not in want:
            out.append(("C15.nsec_chain", "NSEC created at a name beneath a delegation (or at an unknown name)",
                        {"site": site, "what": "NSEC at insecure name"}))
    if multi:
        out.append(("C15.nsec_chain", "more than one NSEC at a name", {"site": site, "what": "duplicate NSEC"}))
    return out


CHECKS = {
    "canonical": chk_canonical,
    "order": chk_order,
    "rrsig": chk_rrsig,
    "keys": chk_keys,
    "nsec3": chk_nsec3,
    "bitmap": chk_bitmap,
    "zonemd": chk_zonemd,
    "nsec": chk_nsec,
}


def replay(data):
    fails = CHECKS[data["kind"]](data["case"])
    if fails:
        return True, "; ".join(f"{cl}: {what}" for cl, what, _ in fails)
    return False, f"{data['kind']} case passes"


# --------------------------------------------------------------------------- run


def _do(R, kind, case, clause, key, sample=None, nontrivial=True):
    try:
        fails = CHECKS[kind](case)
    except Exception as e:
        import traceback

        R.note(f"harness error in {kind}: {type(e).__name__}: {e} :: {traceback.format_exc(limit=3)}"[:900])
        return None
    R.case(clause, key=key, nontrivial=nontrivial)
    if sample is not None:
        R.sample(clause, sample)
    for cl, what, sig in fails:
        R.violation(cl, what, sig, {"kind": kind, "case": case})
    return fails


def _soa(rng, origin):
    serial = struct.pack("!I", rng.getrandbits(32))
    wire = wire_name([b"NS1"] + list(origin)) + wire_name([b"Host-Master"] + list(origin)) + serial + _rb(rng, 12) + struct.pack("!I", rng.randint(0, 86400))
    canon = canon_name([b"NS1"] + list(origin)) + canon_name([b"Host-Master"] + list(origin)) + wire[-20:]
    return {"t": "SOA", "class": IN, "type": 6, "wire": wire, "canon": canon, "alt": wire, "listed": True, "names": True}, serial


_SINGLETON = ("CNAME", "DNAME", "SOA", "NSEC")
_ZONE_LABELS = (b"a", b"B", b"c", b"Sub", b"www", b"*", b"d-1", b"_tcp", b"Z", b"\x00", b"mail")
_DATA_TYPES = ("A", "AAAA", "TXT", "MX", "CNAME", "SRV", "NSEC", "LP", "DS", "RRSIG", "TLSA", "HINFO", "NAPTR", "SVCB", "TYPE65280", "PTR", "DNAME")


def gen_zone(rng, for_nsec, max_names=12):
    origin = [gen_label(rng, True), rng.choice((b"COM", b"Org", b"test"))]
    soa, serial = _soa(rng, origin)
    rrs = [{"owner": [], "rd": soa, "ttl": rng.randint(0, 86400)}]
    nsrd = gen_rdata(rng, "NS", origin)
    rrs.append({"owner": [], "rd": nsrd, "ttl": 3600})
    names = set()
    for _ in range(rng.randint(0, max_names)):
        k = rng.choice((1, 1, 2, 2, 3, 4))
        base = list(rng.choice(sorted(names))) if names and rng.random() < 0.5 else []
        n = tuple([rng.choice(_ZONE_LABELS) for _ in range(k)] + base)[-5:]
        if lower_labels(n) not in {lower_labels(x) for x in names}:
            names.add(n)
    for n in sorted(names):
        role = rng.choice(("data", "data", "data", "cut", "cut+ds", "cut+addr"))
        ttl = rng.randint(0, 7200)
        if role.startswith("cut"):
            rrs.append({"owner": list(n), "rd": gen_rdata(rng, "NS", origin), "ttl": ttl})
            if rng.random() < 0.4:
                rrs.append({"owner": list(n), "rd": gen_rdata(rng, "NS", origin), "ttl": ttl})
            if role == "cut+ds" or rng.random() < 0.2:
                rrs.append({"owner": list(n), "rd": gen_rdata(rng, "DS"), "ttl": ttl})
            if role == "cut+addr":
                rrs.append({"owner": list(n), "rd": gen_rdata(rng, rng.choice(("A", "AAAA"))), "ttl": ttl})
                if rng.random() < 0.3:
                    rrs.append({"owner": list(n), "rd": gen_rdata(rng, "TXT"), "ttl": ttl})
        else:
            pool = [t for t in _DATA_TYPES if not (for_nsec and t in ("NSEC", "RRSIG"))]
            chosen = rng.sample(pool, rng.randint(1, 3))
            if "CNAME" in chosen:
                chosen = ["CNAME"]  # a CNAME node holds nothing else
            for t in chosen:
                if t in _SINGLETON:
                    rrs.append({"owner": list(n), "rd": gen_rdata(rng, t, origin), "ttl": ttl})
                    continue
                seen = set()
                for _ in range(rng.randint(1, 3)):
                    rd = gen_rdata(rng, t, origin)
                    if rd["canon"] in seen:
                        continue
                    seen.add(rd["canon"])
                    rrs.append({"owner": list(n), "rd": rd, "ttl": ttl if t != "RRSIG" else rng.randint(0, 7200)})
    # RRSIG rdatasets are per covered type in dns.zone: give all RRSIGs of one (owner, covered type) one TTL
    ttl_of = {}
    for rr in rrs:
        if rr["rd"]["type"] == 46:
            k = (tuple(lower_labels(rr["owner"])), rr["rd"]["wire"][:2])
            rr["ttl"] = ttl_of.setdefault(k, rr["ttl"])
    return {"origin": origin, "rrs": rrs, "soa_serial_wire": serial}


def _mk(tname, wire):
    return {"t": tname, "class": IN, "type": {"A": 1, "NS": 2, "DS": 43, "TXT": 16, "AAAA": 28}[tname], "wire": wire,
            "canon": wire.translate(_TR) if tname == "NS" else wire, "alt": wire, "listed": tname == "NS", "names": tname == "NS"}


def enum_nsec_zones(universe, origin, rng):
    """Every assignment of a role to each name of the universe."""
    roles = ("absent", "data", "cut", "cut+ds", "cut+addr")
    soa, serial = _soa(rng, origin)
    ns = _mk("NS", wire_name([b"NS1"] + list(origin)))
    a = _mk("A", b"\x0a\x00\x00\x01")
    ds = _mk("DS", struct.pack("!HBB", 12345, 8, 2) + bytes(range(32)))
    txt = _mk("TXT", b"\x01x")
    for combo in itertools.product(roles, repeat=len(universe)):
        rrs = [{"owner": [], "rd": soa, "ttl": 300}, {"owner": [], "rd": ns, "ttl": 300}]
        for n, role in zip(universe, combo):
            if role == "absent":
                continue
            if role == "data":
                rrs.append({"owner": list(n), "rd": a, "ttl": 60})
                if len(n) == 1:
                    rrs.append({"owner": list(n), "rd": txt, "ttl": 60})
            else:
                rrs.append({"owner": list(n), "rd": ns, "ttl": 60})
                if role == "cut+ds":
                    rrs.append({"owner": list(n), "rd": ds, "ttl": 60})
                if role == "cut+addr":
                    rrs.append({"owner": list(n), "rd": a, "ttl": 60})
        yield combo, {"origin": list(origin), "rrs": rrs, "soa_serial_wire": serial}


def run(R):
    rng = R.rng
    quick = R.quick

    # ---------------------------------------------------------------- 1. canonical RDATA per type
    per_type = 100 if quick else 600
    origin = [b"Example", b"COM"]
    for tname in [t[0] for t in TYPES_WITH_NAMES] + [t[0] for t in TYPES_NO_NAMES]:
        if R.deadline():
            break
        n = per_type if tname in _NAMED else max(10, per_type // 4)
        for s in range(n):
            use_origin = tname in _NAMED and s % 2 == 1
            rd = gen_rdata(rng, tname, origin if use_origin else None)
            c = {"rd": rd, "origin": origin if use_origin else None}
            _do(R, "canonical", c, "C15.canonical_rdata", (tname, s), nontrivial=True,
                sample={"type": tname, "wire": rd["wire"].hex()[:80]} if s == 1 else None)

    # ---------------------------------------------------------------- 2. canonical RRset order
    n_order = 400 if quick else 3000
    all_types = [t[0] for t in TYPES_WITH_NAMES if t[1] == IN] + [t[0] for t in TYPES_NO_NAMES]
    for s in range(n_order):
        if R.deadline():
            break
        tname = all_types[s % len(all_types)]
        base = gen_rdata(rng, tname)
        rds = [base]
        for _ in range(rng.randint(1, 5)):
            r2 = gen_rdata(rng, tname)
            if rng.random() < 0.4 and len(base["wire"]) > 2:  # near-duplicates: shared prefix, one octet off, shorter/longer
                w = bytearray(base["wire"])
                if tname in _PLAIN and tname in ("TXT", "OPENPGPKEY", "DHCID", "TYPE65280", "TLSA", "SSHFP"):
                    w = w + b"\x00" if rng.random() < 0.5 else w
                    if tname == "TXT":
                        w = bytearray(base["wire"]) + b"\x00"
                    r2 = dict(base, wire=bytes(w), canon=bytes(w), alt=bytes(w).translate(_TR))
            rds.append(r2)
        _do(R, "order", {"rds": rds}, "C15.rrset_canonical_order", s, sample={"type": tname, "n": len(rds)})

    # ---------------------------------------------------------------- 3. RRSIG signing input
    n_sig = 2500 if quick else 12000
    sig_types = [t[0] for t in TYPES_WITH_NAMES if t[1] == IN] + ["A", "AAAA", "TXT", "DS", "DNSKEY", "TYPE65280", "NSEC3"]
    s = 0
    while s < n_sig and not R.deadline():
        tname = sig_types[s % len(sig_types)]
        rel = s % 3 == 2
        org = [gen_label(rng, True), b"Test"] if rel else None
        nlab = rng.choice((0, 1, 1, 2, 2, 3, 4, 5))
        owner = [gen_label(rng, True) for _ in range(nlab)]
        if rel:
            owner = owner[: max(0, nlab - 2)] + list(org) if rng.random() < 0.8 else owner
        wild = len(owner) > 0 and rng.random() < 0.25
        if wild:
            owner[0] = b"*"
        if rel and rng.random() < 0.7:
            signer = ([gen_label(rng, True)] if rng.random() < 0.5 else []) + list(org)
        elif owner and rng.random() < 0.7:
            signer = mix = [bytes(l).swapcase() if rng.random() < 0.5 else l for l in owner[rng.randint(0, len(owner) - 1) + (1 if wild else 0):]]
        else:
            signer = gen_name(rng)
        seen, rds = set(), []
        for _ in range(1 if tname in _SINGLETON else rng.randint(1, 4)):
            rd = gen_rdata(rng, tname, org)
            if rds and tname in ("RRSIG", "SIG"):  # one rdataset holds one covered type
                cov = rds[0]["wire"][:2]
                rd = dict(rd, wire=cov + rd["wire"][2:], canon=cov + rd["canon"][2:], alt=cov + rd["alt"][2:])
            if rd["canon"] not in seen and rd["wire"] not in {x["wire"] for x in rds}:
                seen.add(rd["canon"])
                rds.append(rd)
        label_choices = [len(owner) - 1] if wild else list(range(0, len(owner) + 2))
        for labels in label_choices:
            hdr = [rds[0]["type"], rng.choice((5, 8, 13, 14, 15, 16)), labels, rng.getrandbits(32), rng.getrandbits(32),
                   rng.getrandbits(32), rng.getrandbits(16)]
            c = {"rds": rds, "owner": owner, "signer": signer, "hdr": hdr, "ttl": rng.randint(0, 86400), "origin": org,
                 "as_tuple": (s + labels) % 2 == 0}
            _do(R, "rrsig", c, "C15.rrsig_signing_input", (s, labels),
                sample={"type": tname, "owner_labels": len(owner), "labels": labels, "relative": rel, "wild": wild})
            s += 1

    # ---------------------------------------------------------------- 4. key tags and DS digests
    n_keys = 440 if quick else 3000
    algs = (1, 3, 5, 7, 8, 10, 13, 14, 15, 16, 253)
    for s in range(n_keys):
        if R.deadline():
            break
        alg = algs[s % len(algs)]
        klen = (s // len(algs)) % 40 if s < 440 else rng.choice((64, 65, 128, 129, 130, 256, 257, 300))
        if alg == 1:
            klen = max(klen, 4)
        style = s % 4
        key = {0: _rb(rng, klen), 1: b"\xff" * klen, 2: bytes((0xFF, 0x00) * klen)[:klen], 3: _rb(rng, klen)}[style]
        kw = struct.pack("!HBB", rng.choice((256, 257, 0, 0xFFFF, 0x0180)), rng.choice((3, 3, 255)), alg) + key
        c = {"dnskey": kw, "owner": gen_name(rng, (), 0, 4), "ktype": 48 if s % 3 else 60}
        if s % 5 == 0:
            c["dnskey2"] = struct.pack("!HBB", 257, 3, alg) + _rb(rng, max(4, klen))
        fails = _do(R, "keys", c, "C15.key_tag", ("k", s), sample={"alg": alg, "key_octets": klen})
        if fails is not None:
            R.case("C15.ds_digest", key=("k", s))

    # ---------------------------------------------------------------- 5. NSEC3 hashes
    its = [0, 1, 2, 3, 10, 50, 100, 150] + ([] if quick else [500, 2500])
    salts = [0, 1, 2, 4, 8, 16, 20, 64, 255]
    n = 0
    for it in its:
        for sl in salts:
            for rep in range(1 if quick else 5):
                if R.deadline():
                    break
                c = {"owner": gen_name(rng, (), 0, 5), "salt": _rb(rng, sl), "iterations": it}
                _do(R, "nsec3", c, "C15.nsec3_hash", n, sample={"iterations": it, "salt_octets": sl})
                n += 1

    # ---------------------------------------------------------------- 6. type bitmaps
    singles = range(1, 65536) if not quick else sorted(set(list(range(1, 40)) + [w * 256 + o for w in (0, 1, 2, 127, 255) for o in (0, 1, 7, 8, 9, 15, 16, 247, 248, 254, 255) if w * 256 + o > 0]))
    for t in singles:
        if t % 4096 == 0 and R.deadline():
            break
        _do(R, "bitmap", {"types": [t]}, "C15.type_bitmap", ("single", t))
    for s in range(300 if quick else 5000):
        k = rng.randint(2, 12)
        types = [rng.choice((rng.randint(1, 255), rng.randint(1, 65535), rng.choice((256, 257, 511, 512, 65535, 32768, 255, 248)))) for _ in range(k)]
        if rng.random() < 0.3:
            types.append(types[0])  # duplicates are legal input
        _do(R, "bitmap", {"types": types}, "C15.type_bitmap", ("set", s), sample={"types": types})

    # ---------------------------------------------------------------- 7. ZONEMD
    n_z = 200 if quick else 800
    for s in range(n_z):
        if R.deadline():
            break
        c = gen_zone(rng, for_nsec=False, max_names=8 if quick else 14)
        c["relativize"] = s % 2 == 0
        # apex ZONEMD placeholder(s) + RRSIG covering it (excluded), non-apex ZONEMD and other RRSIGs (included)
        if s % 3 != 2:
            c["rrs"].append({"owner": [], "rd": gen_rdata(rng, "ZONEMD"), "ttl": 300})
            sig = gen_rdata(rng, "RRSIG", c["origin"])
            sig = dict(sig, wire=b"\x00\x3f" + sig["wire"][2:], canon=b"\x00\x3f" + sig["canon"][2:])
            c["rrs"].append({"owner": [], "rd": sig, "ttl": 300})
            sig2 = gen_rdata(rng, "RRSIG", c["origin"])
            sig2 = dict(sig2, wire=b"\x00\x06" + sig2["wire"][2:], canon=b"\x00\x06" + sig2["canon"][2:])
            c["rrs"].append({"owner": [], "rd": sig2, "ttl": 301})
        if s % 4 == 1:
            c["rrs"].append({"owner": [b"Zmd-Child"], "rd": gen_rdata(rng, "ZONEMD"), "ttl": 60})
        _do(R, "zonemd", c, "C15.zonemd_digest", s, sample={"rrs": len(c["rrs"]), "relativize": c["relativize"]})

    # ---------------------------------------------------------------- 8. NSEC chain
    if quick:
        universe = [(b"a",), (b"B", b"a"), (b"c", b"b", b"A"), (b"*", b"d"), (b"z",)]
    else:
        universe = [(b"a",), (b"B", b"a"), (b"c", b"b", b"A"), (b"d",), (b"*", b"d"), (b"z",)]
    origin = [b"Example", b"COM"]
    i = 0
    for combo, c in enum_nsec_zones(universe, origin, rng):
        if i % 64 == 0 and R.deadline():
            break
        for relz in (True, False):
            c2 = dict(c, relativize=relz, signer="recorder" if (i + relz) % 2 else "default")
            _do(R, "nsec", c2, "C15.nsec_chain", ("enum", combo, relz),
                sample={"layout": dict(zip([".".join(x.decode() for x in u) for u in universe], combo)), "relativize": relz})
        i += 1
    # apex variants: apex alone, apex with extra types
    for relz in (True, False):
        for extra in ((), ("A",), ("DNSKEY", "TXT")):
            soa, serial = _soa(rng, origin)
            rrs = [{"owner": [], "rd": soa, "ttl": 300}, {"owner": [], "rd": gen_rdata(rng, "NS", origin), "ttl": 300}]
            for t in extra:
                rrs.append({"owner": [], "rd": gen_rdata(rng, t), "ttl": 300})
            c = {"origin": origin, "rrs": rrs, "soa_serial_wire": serial, "relativize": relz, "signer": "recorder"}
            _do(R, "nsec", c, "C15.nsec_chain", ("apex", relz, extra), sample={"layout": "apex only", "relativize": relz})
    n_nz = 500 if quick else 3000
    for s in range(n_nz):
        if R.deadline():
            break
        c = gen_zone(rng, for_nsec=True, max_names=12 if quick else 25)
        c["relativize"] = s % 2 == 0
        c["signer"] = "recorder" if s % 3 else "default"
        _do(R, "nsec", c, "C15.nsec_chain", ("seeded", s))
