"""Bounded stand-in for C16 -- stub resolution reaches the documented outcome under
every fault sequence.

The real ``dns.resolver.Resolver.resolve`` and ``dns.asyncresolver.Resolver.resolve``
(with the real ``_Resolution``, ``_compute_timeout``, ``_get_qnames_to_try``,
``Answer``/``resolve_chaining``, ``Cache``/``LRUCache`` (keys incl. the class: IN/CH/HS scenarios) and the real
``dns.nameserver.Do53Nameserver`` / ``DoHNameserver`` objects) are run against scripted
transports and a controllable clock.  Only the I/O leaves are replaced
(``dns.query.udp/tcp/https`` and their ``dns.asyncquery`` twins, and the name ``time``
inside ``dns.resolver`` / ``dns.asyncresolver``): DESIGN section 4 C16-B6.

The observed event trace (every query with server, name, transport, timeout, clock; every
sleep) and the final result are compared with an independent reference model of the
documented stub-resolver rules written below (``_model_resolution``).
"""

from __future__ import annotations

import asyncio
import contextlib

import dns.asyncquery
import dns.asyncresolver
import dns.exception
import dns.flags
import dns.message
import dns.name
import dns.nameserver
import dns.query
import dns.rcode
import dns.rdataclass
import dns.rdatatype
import dns.resolver
import dns.rrset

BOUNDS = (
    "Scripted transports + fake clock under the real sync and asyncio resolvers (real _Resolution, "
    "Answer/resolve_chaining, Cache/LRUCache, Do53Nameserver/DoHNameserver; only dns.query/dns.asyncquery "
    "udp/tcp/https and the name `time` inside dns.resolver/dns.asyncresolver are replaced).  Exhaustive: "
    "the prefix tree of all per-query outcome sequences over the 11-letter alphabet {answer, no-data, "
    "NXDOMAIN, YXDOMAIN, SERVFAIL, REFUSED, malformed (FormError from the transport), malformed (17-CNAME "
    "chain), truncation, timeout, network error}, pruned where the resolution ends before the script does "
    "(each distinct behaviour is run once; after the script every query times out until the lifetime "
    "expires), for 1-3 nameservers (Do53 objects, address strings with nameserver_ports, one DoH) x settings "
    "(search list 0/2 entries, ndots 1/2, 1-3 label relative qname, retry_servfail, tcp, raise_on_no_answer, "
    "cache none/Cache/LRUCache, lifetime 5/timeout 2 and lifetime 1/timeout 0.5 with 0.25 s steps so that the "
    "lifetime boundary is hit exactly).  Quick: 26 covering settings, depth 3 (depth 2 for 3-server or cached "
    "settings except every third), ~9.7k scripts.  Thorough: depth 3 on the full 2^6 x 3 = 192 grid (stops "
    "after 300 s; 158-183 settings reached in the measured runs), then depth 4 on the 26 settings (stops at 440 s; 11 reached).  "
    "Each cached setting is followed by a second resolution 10 s later (inside the TTL) and a third after "
    "expiry, on the same resolver.  Seeded: random settings (also 4 servers, absolute names, ndots 0-3, "
    "domain-as-search-list, search=None/False, rdtypes A/AAAA/MX/TXT/CNAME, source/source_port) and scripts "
    "of length <= 14 with CNAME chains 0-18 and CNAME loops, random TTLs and SOA placement, rcodes "
    "1/4/5/9/10, BadResponse/EOFError variants, NXDOMAIN-with-answer, clock steps in "
    "{0,0.01,0.25,0.5,1,1.99} (1200 quick; until 530 s thorough, 11k-24k in the measured runs).  Direct: _get_qnames_to_try on 1-4 "
    "label names x absolute/relative x search arg x default x 3 search lists x 2 domains x ndots {None,0..4} "
    "(exhaustive, 1728); resolve_chaining on chain lengths 0-18 x {answer, no-data, NXDOMAIN, "
    "NXDOMAIN+answer} x 5 TTL patterns x 3 answer/SOA TTL sets, shuffled answer sections, CNAME loops, QR "
    "clear, CNAME qtype; _compute_timeout on a boundary grid (elapsed = lifetime -/+ 0.125, = lifetime).  "
    "Class scenarios (clause C16.cache_class, also counted under the general clauses): one resolver with a "
    "cache asks the same name and type in classes IN/CH(/HS) interleaved (step patterns CH-IN-CH-IN, "
    "IN-CH-IN-CH, CH-CH-IN-IN, CH-IN-(100 s)-CH-IN where only the CH entry has expired, IN-HS-CH-HS-CH-IN; "
    "thorough also IN-IN-CH-CH and CH-HS-IN-(100 s)-CH-HS-IN; class passed as enum or as text) against scripted "
    "servers that are authoritative per (class, name) with class-specific rdata and TTLs: exhaustive over "
    "{answer, answer behind 2 CNAMEs, no-data, NXDOMAIN}^classes for a one-candidate name and over 6 (3 for three "
    "classes) per-class profiles of a 3-candidate search list, x Cache/LRUCache x raise_on_no_answer x "
    "TXT/MX x 1-2 servers (1068 scenarios quick, 1768 thorough).  An independent reference cache keyed (queried name, "
    "type or ANY for NXDOMAIN, queried class) decides which queries must reach a server (a repeat is served "
    "from the cache, another class is not) and the outcome; compared: the query trace with classes, the "
    "result incl. Answer.rdclass and rrset class, cache.get() over names x types x {IN,CH,HS}, the expirations, "
    "and the raw key set of cache.data (the raw key set is now also compared in every cached case of the "
    "other parts).  Seeded: 150 (quick; thorough until 565 s, <= 6000) random cached settings whose 3-6 "
    "resolutions use random classes with random fault scripts, evaluated by the general model.  "
    "Every case is run on both twins and compared event by event.  rotate is off, clock steps are "
    "non-negative, TSIG/EDNS off, the trio twin is not run (asyncio only), the back-off amounts are not "
    "asserted (only that sleeps happen between rounds and identically in both twins).  'Never asked again' "
    "is evaluated per candidate name (the server list is re-armed for every candidate name by design)."
)

IN = dns.rdataclass.IN
START = 1000.0
EPS = 1e-9

# --------------------------------------------------------------------------------------
# scripted world: clock + transports
# --------------------------------------------------------------------------------------

RDATA = {
    "A": "192.0.2.7",
    "AAAA": "2001:db8::7",
    "MX": "10 mx.test.",
    "TXT": '"x"',
    "CNAME": "target.test.",
}

TIMEOUT_O = {"k": "O"}


def _chain_name(i):
    return f"c{i}.chain.test."


_RESP_CACHE = {}


def _build_response(q, o):
    """Memoised front of _build_response_uncached (the parsed message is shared between the
    runs that need the same reply; the resolver only reads it)."""
    import json as _json

    key = (str(q.question[0].name), int(q.question[0].rdtype), int(q.question[0].rdclass),
           _json.dumps(o, sort_keys=True))
    hit = _RESP_CACHE.get(key)
    if hit is None:
        if len(_RESP_CACHE) > 20000:
            _RESP_CACHE.clear()
        hit = _build_response_uncached(q, o)
        _RESP_CACHE[key] = hit
    r, meta = hit
    r.id = q.id
    return r, dict(meta)


def _build_response_uncached(q, o):
    """Build the response for outcome *o* to query *q*; returns (message, meta).  meta carries
    the oracle values derived from the *parameters* of the outcome (not from the library)."""
    k = o["k"]
    r = dns.message.make_response(q)
    qn = q.question[0].name
    rdtype = dns.rdatatype.to_text(q.question[0].rdtype)
    # every record of the reply is in the class of the question (TXT/MX/CNAME/SOA are
    # class-independent types, so the CH/HS scenarios use those)
    ctext = dns.rdataclass.to_text(q.question[0].rdclass)
    meta = {"canon": str(qn), "minttl": None, "rr": None}
    if k == "S":
        r.set_rcode(dns.rcode.SERVFAIL)
        return r, meta
    if k == "R":
        r.set_rcode(o.get("rcode", dns.rcode.REFUSED))
        return r, meta
    if k == "Y":
        r.set_rcode(dns.rcode.YXDOMAIN)
        return r, meta
    if k == "T":
        r.flags |= dns.flags.TC
        return r, meta
    chain = list(o.get("chain", []))
    if rdtype == "CNAME":
        chain = []
    owner = qn
    rrsets = []
    ttls = []
    loop = bool(o.get("loop")) and len(chain) >= 1 and k in ("N", "X")
    for i, t in enumerate(chain):
        if loop and i == len(chain) - 1:
            # close the cycle: the last CNAME points back into the chain
            target = dns.name.from_text(_chain_name(0)) if len(chain) > 1 else qn
        else:
            target = dns.name.from_text(_chain_name(i))
        rrsets.append(dns.rrset.from_text(owner, t, ctext, "CNAME", str(target)))
        ttls.append(t)
        owner = target
    meta["loop"] = loop
    meta["canon"] = str(owner)
    meta["chainlen"] = len(chain)
    if k in ("A", "Mx"):
        ttl = o.get("ttl", 300)
        rdata = o.get("rdata", RDATA[rdtype])
        rrsets.append(dns.rrset.from_text(owner, ttl, ctext, rdtype, rdata))
        ttls.append(ttl)
        meta["rr"] = [str(owner), ttl, rdtype, [rdata]]
    for rs in rrsets:
        r.answer.append(rs)
    if k in ("N", "X", "Mx"):
        soa = o.get("soa", [60, 30, 1])
        if soa:
            sttl, smin, up = soa
            sown = owner
            for _ in range(up):
                if len(sown) > 1:
                    sown = sown.parent()
            r.authority.append(
                dns.rrset.from_text(
                    sown, sttl, ctext, "SOA", f"ns.test. admin.test. 1 3600 600 86400 {smin}"
                )
            )
            ttls.extend([sttl, smin])
    if k in ("X", "Mx"):
        r.set_rcode(dns.rcode.NXDOMAIN)
    meta["minttl"] = min(ttls) if ttls else None
    # what a transport hands over is a *parsed* message
    r = dns.message.from_wire(r.to_wire())
    return r, meta


class _World:
    """Fake clock, fake ``time`` module, fake async backend and scripted transports."""

    def __init__(self, cfg, script):
        self.cfg = cfg
        self.script = script
        self.now = START
        self.events = []
        self.qi = 0
        self.notes = []
        # class scenarios: the scripted servers are authoritative for a small table
        # (class, owner name) -> outcome instead of replaying a sequence
        self.zone = None
        if cfg.get("zone") is not None:
            self.zone = {(int(c), n): o for c, n, o in cfg["zone"]}

    # -- ``time`` shim
    def time(self):
        return self.now

    def sleep(self, d):
        self.events.append({"t": "sleep", "d": d})
        self.now += d

    # -- backend shim
    def name(self):
        return "scripted"

    async def asleep(self, d):
        self.sleep(d)

    # -- transports
    def _server_index(self, where, port):
        for i, s in enumerate(self.cfg["servers"]):
            if s["kind"] == "doh":
                if where == s["addr"]:
                    return i
            elif where == s["addr"] and port == s["port"]:
                return i
        return -1

    def exchange(self, transport, q, where, port, timeout, kw):
        idx = self.qi
        self.qi += 1
        if self.zone is not None and len(q.question) == 1:
            o = self.zone.get((int(q.question[0].rdclass), str(q.question[0].name)), TIMEOUT_O)
        else:
            o = self.script[idx] if idx < len(self.script) else TIMEOUT_O
        k = o["k"]
        d = o.get("d", 0.25)
        ev = {
            "t": "q",
            "srv": self._server_index(where, port),
            "qname": str(q.question[0].name) if len(q.question) == 1 else "?",
            "rdtype": dns.rdatatype.to_text(q.question[0].rdtype) if q.question else "?",
            "rdclass": int(q.question[0].rdclass) if q.question else -1,
            "tr": transport,
            "timeout": timeout,
            "t0": self.now,
            "oi": idx,
            "k": k,
            "source": kw.get("source"),
            "source_port": kw.get("source_port"),
        }
        self.events.append(ev)
        eff = k
        try:
            if timeout is None or timeout <= 0:
                # a real transport would wait forever / fail at once; the model flags the
                # timeout value, here we just make progress
                wait = 0.25
            else:
                wait = timeout
            if k == "O":
                self.now += wait
                raise dns.exception.Timeout(timeout=wait)
            if k == "M" and transport == "udp" and kw.get("ignore_errors"):
                # udp(ignore_errors=True) skips malformed datagrams and keeps listening
                eff = "O"
                self.now += wait
                raise dns.exception.Timeout(timeout=wait)
            # an exchange that completes takes min(d, timeout) (it cannot outlast its timeout;
            # d >= timeout is a timeout)
            if d >= wait:
                eff = "O"
                self.now += wait
                raise dns.exception.Timeout(timeout=wait)
            self.now += d
            if k == "E":
                raise ConnectionRefusedError(111, "scripted network error")
            if k == "M":
                sub = o.get("sub", "formerr")
                if sub == "badresponse":
                    raise dns.query.BadResponse
                if sub == "eof" and transport != "udp":
                    raise EOFError("EOF")
                raise dns.exception.FormError("scripted malformed reply")
            r, meta = _build_response(q, o)
            ev["meta"] = meta
            if k == "T":
                if transport == "udp":
                    if kw.get("raise_on_truncation"):
                        raise dns.message.Truncated(message=r)
                    eff = "Tflag"  # delivered as an ordinary message with TC set
                    return r
                raise dns.message.Truncated(message=r)
            return r
        finally:
            ev["eff"] = eff
            ev["t1"] = self.now


def _mk_udp(world, is_async):
    def udp(q, where, timeout=None, port=53, source=None, source_port=0, ignore_unexpected=False,
            one_rr_per_rrset=False, ignore_trailing=False, raise_on_truncation=False, sock=None,
            ignore_errors=False, backend=None):
        return world.exchange("udp", q, where, port, timeout, {
            "source": source, "source_port": source_port, "ignore_errors": ignore_errors,
            "raise_on_truncation": raise_on_truncation, "ignore_unexpected": ignore_unexpected})

    async def audp(*a, **k):
        return udp(*a, **k)

    return audp if is_async else udp


def _mk_tcp(world, is_async):
    def tcp(q, where, timeout=None, port=53, source=None, source_port=0, one_rr_per_rrset=False,
            ignore_trailing=False, sock=None, backend=None):
        return world.exchange("tcp", q, where, port, timeout, {"source": source, "source_port": source_port})

    async def atcp(*a, **k):
        return tcp(*a, **k)

    return atcp if is_async else tcp


def _mk_https(world, is_async):
    def https(q, where, timeout=None, port=443, source=None, source_port=0, **kw):
        return world.exchange("https", q, where, port, timeout, {"source": source, "source_port": source_port})

    async def ahttps(*a, **k):
        return https(*a, **k)

    return ahttps if is_async else https


class _TimeShim:
    def __init__(self, world):
        self._w = world

    def time(self):
        return self._w.time()

    def sleep(self, d):
        self._w.sleep(d)


class _Backend:
    def __init__(self, world):
        self._w = world

    def name(self):
        return "scripted"

    async def sleep(self, interval):
        self._w.sleep(interval)


@contextlib.contextmanager
def _installed(world, is_async):
    saved = []

    def put(mod, name, val):
        saved.append((mod, name, getattr(mod, name)))
        setattr(mod, name, val)

    shim = _TimeShim(world)
    try:
        put(dns.resolver, "time", shim)
        put(dns.asyncresolver, "time", shim)
        put(dns.query, "udp", _mk_udp(world, False))
        put(dns.query, "tcp", _mk_tcp(world, False))
        put(dns.query, "https", _mk_https(world, False))
        put(dns.asyncquery, "udp", _mk_udp(world, True))
        put(dns.asyncquery, "tcp", _mk_tcp(world, True))
        put(dns.asyncquery, "https", _mk_https(world, True))
        yield
    finally:
        for mod, name, val in reversed(saved):
            setattr(mod, name, val)


_LOOP = None


def _loop():
    global _LOOP
    if _LOOP is None or _LOOP.is_closed():
        _LOOP = asyncio.new_event_loop()
    return _LOOP


# --------------------------------------------------------------------------------------
# running the real resolver
# --------------------------------------------------------------------------------------


def _describe_answer(a):
    rr = None
    if a.rrset is not None:
        rr = [
            str(a.rrset.name),
            int(a.rrset.ttl),
            dns.rdatatype.to_text(a.rrset.rdtype),
            sorted(rd.to_text() for rd in a.rrset),
        ]
    return [
        "answer",
        str(a.qname),
        str(a.canonical_name),
        rr,
        round(float(a.expiration), 6),
        a.nameserver,
        a.port,
        dns.rdatatype.to_text(a.rdtype),
        int(a.rdclass),
        int(a.rrset.rdclass) if a.rrset is not None else None,
    ]


def _make_resolver(cfg, is_async):
    res = (dns.asyncresolver.Resolver if is_async else dns.resolver.Resolver)(configure=False)
    res.domain = dns.name.from_text(cfg.get("domain", "."))
    res.search = [dns.name.from_text(s) for s in cfg.get("search", [])]
    res.ndots = cfg.get("ndots")
    res.use_search_by_default = cfg.get("use_search_by_default", False)
    res.timeout = cfg["timeout"]
    if cfg.get("lifetime_via", "attr") == "attr":
        res.lifetime = cfg["lifetime"]
    else:
        res.lifetime = 1000.0
    res.retry_servfail = cfg["retry_servfail"]
    res.rotate = False
    nss = []
    for s in cfg["servers"]:
        if s["kind"] == "doh":
            nss.append(dns.nameserver.DoHNameserver(s["addr"]) if not s.get("as_string") else s["addr"])
        elif s.get("as_string"):
            nss.append(s["addr"])
            if s["port"] != 53:
                res.nameserver_ports[s["addr"]] = s["port"]
        else:
            nss.append(dns.nameserver.Do53Nameserver(s["addr"], s["port"]))
    res.nameservers = nss
    c = cfg.get("cache")
    if c == "cache":
        res.cache = dns.resolver.Cache()
    elif c == "lru":
        res.cache = dns.resolver.LRUCache()
    else:
        res.cache = None
    return res


def _uses_classes(cfg):
    return any("rdclass" in rs for rs in cfg["resolutions"])


def _run_real(cfg, script, is_async):
    """Run all resolutions of the case; returns list of dict(events, result, start, end, cache)."""
    world = _World(cfg, script)
    out = []
    with _installed(world, is_async):
        res = _make_resolver(cfg, is_async)
        for rs in cfg["resolutions"]:
            world.now += rs.get("gap", 0.0)
            world.events = []
            start = world.now
            kwargs = dict(
                rdtype=cfg["rdtype"],
                tcp=cfg["tcp"],
                raise_on_no_answer=cfg["raise_on_no_answer"],
                search=cfg.get("search_arg"),
                source=cfg.get("source"),
                source_port=cfg.get("source_port", 0),
            )
            if cfg.get("lifetime_via", "attr") == "arg":
                kwargs["lifetime"] = cfg["lifetime"]
            if "rdclass" in rs:
                # class scenarios: the class is given as an enum value or as text
                kwargs["rdclass"] = (
                    dns.rdataclass.to_text(rs["rdclass"]) if rs.get("as_text")
                    else dns.rdataclass.RdataClass(rs["rdclass"])
                )
            qname = rs["qname"]
            try:
                if is_async:
                    a = _loop().run_until_complete(
                        res.resolve(qname, backend=_Backend(world), **kwargs)
                    )
                else:
                    a = res.resolve(qname, **kwargs)
                result = _describe_answer(a)
            except dns.resolver.NXDOMAIN as e:
                try:
                    result = ["NXDOMAIN", [str(n) for n in e.qnames()], sorted(str(n) for n in e.responses())]
                except Exception:
                    result = ["NXDOMAIN", None, None]
            except dns.resolver.NoAnswer:
                result = ["NoAnswer"]
            except dns.resolver.YXDOMAIN:
                result = ["YXDOMAIN"]
            except dns.resolver.NoNameservers:
                result = ["NoNameservers"]
            except dns.resolver.LifetimeTimeout:
                result = ["LifetimeTimeout"]
            except Exception as e:  # anything else is an undocumented outcome
                result = ["exc", type(e).__name__]
            # the raw key set of the cache (both cache classes keep a dict ``data`` keyed by the
            # (name, rdtype, rdclass) tuple), taken before the probes below touch anything
            rawkeys = None
            if res.cache is not None and isinstance(getattr(res.cache, "data", None), dict):
                try:
                    rawkeys = sorted(
                        [str(k[0]), dns.rdatatype.to_text(k[1]), int(k[2])] for k in list(res.cache.data.keys())
                    )
                except Exception:
                    rawkeys = None
            # probe the cache through its public interface
            probes = {}
            pclasses = (1, 3, 4) if _uses_classes(cfg) else (1, 3)
            if res.cache is not None:
                names = set(_oracle_qnames(cfg, qname))
                for ev in world.events:
                    if ev["t"] == "q" and "meta" in ev:
                        names.add(ev["meta"]["canon"])
                for n in sorted(names):
                    for ty in sorted({cfg["rdtype"], "ANY", "TXT", "A"}):
                        for cl in pclasses:
                            v = res.cache.get((dns.name.from_text(n), dns.rdatatype.from_text(ty), cl))
                            if v is not None:
                                kind = (
                                    "nx"
                                    if v.response.rcode() == dns.rcode.NXDOMAIN
                                    else ("nodata" if v.rrset is None else "ans")
                                )
                                probes[f"{n}|{ty}|{cl}"] = [kind, round(float(v.expiration), 6)]
            out.append(
                {"events": world.events, "result": result, "start": start, "end": world.now, "cache": probes,
                 "probed": sorted(names) if res.cache is not None else [], "keys": rawkeys}
            )
    return out


# --------------------------------------------------------------------------------------
# the reference model (written from the documentation, independent of dns.resolver)
# --------------------------------------------------------------------------------------


def _oracle_qnames(cfg, qname_text):
    """resolv.conf search/ndots rule as documented for Resolver.resolve(search=...)."""
    absolute = qname_text.endswith(".")
    if absolute:
        return [qname_text]
    labels = qname_text.split(".")
    abs_name = qname_text + "."
    search = cfg.get("search_arg")
    if search is None:
        search = cfg.get("use_search_by_default", False)
    if not search:
        return [abs_name]
    sl = list(cfg.get("search", []))
    if not sl:
        dom = cfg.get("domain", ".")
        sl = [dom] if dom != "." else []
    ndots = cfg.get("ndots")
    if ndots is None:
        ndots = 1
    cands = [qname_text + "." + s if s != "." else abs_name for s in sl]
    dots = len(labels) - 1
    if dots >= ndots:
        return [abs_name] + cands
    return cands + [abs_name]


BROKEN_ALWAYS = {"R", "E", "M", "Mc", "Mx", "Ttcp"}


def _eff_class(ev, cfg):
    """Classify the effective outcome of a query event for the model."""
    e = ev["eff"]
    if e in ("A", "N", "X") and ev["meta"].get("loop"):
        return "Mc"
    if e == "T":
        return "Tudp" if ev["tr"] == "udp" else "Ttcp"
    if e == "A" and ev["meta"].get("chainlen", 0) >= 16:
        return "Mc"
    if e == "N" and ev["meta"].get("chainlen", 0) >= 16:
        return "Mc"
    if e == "X" and ev["meta"].get("chainlen", 0) >= 16:
        return "Mc"
    return e


def _model_resolution(cfg, mcache, run, qname_text, rdclass=1):
    """Walk the observed events of one resolution in lock-step with the documented rules.
    Returns (problems, expected_result) where problems is a list of (clause, what, sig).
    The model cache is keyed by (name, type or ANY, class)."""
    events = run["events"]
    problems = []
    pos = 0
    now = run["start"]
    start = run["start"]
    lifetime = cfg["lifetime"]
    servers = cfg["servers"]
    cands = _oracle_qnames(cfg, qname_text)
    prev = "start"
    prev_srv = None

    def got_desc(i):
        if i >= len(events):
            return "end:" + run["result"][0]
        ev = events[i]
        if ev["t"] == "sleep":
            return "sleep"
        rel = "same" if ev["srv"] == prev_srv else "other"
        return f"query:{ev['tr']}:{rel}"

    def diverge(expected, i, extra=""):
        problems.append(
            (
                "C16.trace",
                f"after outcome {prev!r}: documented next step is {expected}, real resolver did {got_desc(i)} {extra}"
                f" (event {i})",
                {"prop": "C16", "after": prev, "expected": expected.split(" ")[0], "got": got_desc(i)},
            )
        )

    def finish(expected_result):
        # the real code must have stopped here with this result
        if pos < len(events):
            diverge("end:" + expected_result[0], pos)
            return problems, None
        return problems, expected_result

    nx = []
    for c in cands:
        if cfg.get("cache"):
            e = mcache.get((c, cfg["rdtype"], rdclass))
            if e is not None and e["exp"] > now:
                if e["kind"] == "nodata" and cfg["raise_on_no_answer"]:
                    return finish(["NoAnswer"])
                if e["kind"] in ("ans", "nodata"):
                    return finish(e["desc"])
            e = mcache.get((c, "ANY", rdclass))
            if e is not None and e["exp"] > now and e["kind"] == "nx":
                nx.append(c)
                prev = "cached-nx"
                continue
        alive = list(range(len(servers)))
        rnd = list(alive)
        pending_tcp = None
        next_candidate = False
        while not next_candidate:
            nsleeps = 0
            while pos < len(events) and events[pos]["t"] == "sleep":
                d = events[pos]["d"]
                if not (d >= 0):
                    problems.append(("C16.trace", f"negative sleep {d}", {"prop": "C16", "what": "negative sleep"}))
                    return problems, None
                now += d
                nsleeps += 1
                pos += 1
            if pending_tcp is not None:
                s = pending_tcp
                pending_tcp = None
                tr = "tcp"
                exp = "query:tcp:same"
                may_sleep = False
            else:
                may_sleep = False
                if not rnd:
                    if not alive:
                        if nsleeps:
                            diverge("end:NoNameservers", pos - nsleeps)
                            return problems, None
                        return finish(["NoNameservers"])
                    rnd = list(alive)
                    may_sleep = True
                s = rnd.pop(0)
                if servers[s]["kind"] == "doh":
                    tr = "https"
                else:
                    tr = "tcp" if cfg["tcp"] else "udp"
                exp = f"query:{tr}:" + ("same" if s == prev_srv else "other")
            if nsleeps and not may_sleep:
                diverge(exp + " (no back-off inside a round or before the TCP retry)", pos - nsleeps)
                return problems, None
            elapsed = now - start
            if elapsed >= lifetime:
                return finish(["LifetimeTimeout"])
            if pos >= len(events):
                diverge(exp, pos)
                return problems, None
            ev = events[pos]
            if ev["srv"] != s or ev["tr"] != tr:
                diverge(exp, pos, f"[server {ev['srv']} instead of {s}]")
                return problems, None
            if ev["qname"] == c and ev["rdtype"] == cfg["rdtype"] and ev["rdclass"] != rdclass and _uses_classes(cfg):
                problems.append(
                    (
                        "C16.candidates",
                        f"query {pos} asks {ev['qname']} {ev['rdtype']} in class {ev['rdclass']}, the resolution was"
                        f" requested for class {rdclass}",
                        {"prop": "C16", "what": "query sent in a class other than the requested one", "via": "resolve"},
                    )
                )
                return problems, None
            if ev["qname"] != c or ev["rdtype"] != cfg["rdtype"] or ev["rdclass"] != rdclass:
                problems.append(
                    (
                        "C16.candidates",
                        f"query {pos} asks {ev['qname']} {ev['rdtype']}, documented candidate is {c} {cfg['rdtype']}"
                        f" (candidates {cands})",
                        {"prop": "C16", "what": "wrong candidate name queried", "via": "resolve"},
                    )
                )
                return problems, None
            want_timeout = min(lifetime - elapsed, cfg["timeout"])
            if ev["timeout"] is None or abs(ev["timeout"] - want_timeout) > 1e-6:
                problems.append(
                    (
                        "C16.lifetime",
                        f"query {pos} at elapsed {elapsed:.3f}s got timeout {ev['timeout']}, budget rule gives"
                        f" min(lifetime-elapsed, timeout) = {want_timeout:.3f}",
                        {"prop": "C16", "what": "per-query timeout is not min(remaining lifetime, timeout)"},
                    )
                )
                return problems, None
            if ev.get("source") != cfg.get("source") or ev.get("source_port") != cfg.get("source_port", 0):
                problems.append(
                    ("C16.trace", "source/source_port not passed to the transport",
                     {"prop": "C16", "what": "source not passed"})
                )
                return problems, None
            pos += 1
            now = ev["t1"]
            prev_srv = s
            k = _eff_class(ev, cfg)
            prev = k
            meta = ev.get("meta") or {}
            if k == "A":
                rr = meta["rr"]
                desc = [
                    "answer", c, meta["canon"], [rr[0], rr[1], rr[2], sorted(rr[3])],
                    round(now + meta["minttl"], 6),
                    servers[s]["addr"],
                    servers[s]["port"] if servers[s]["kind"] != "doh" else 443,
                    cfg["rdtype"], rdclass,
                ]
                if cfg.get("cache"):
                    mcache[(c, cfg["rdtype"], rdclass)] = {"kind": "ans", "exp": now + meta["minttl"], "desc": desc}
                return finish(desc)
            if k == "N":
                desc = [
                    "answer", c, meta["canon"], None,
                    round(now + meta["minttl"], 6) if meta["minttl"] is not None else None,
                    servers[s]["addr"],
                    servers[s]["port"] if servers[s]["kind"] != "doh" else 443,
                    cfg["rdtype"], rdclass,
                ]
                if cfg.get("cache"):
                    mcache[(c, cfg["rdtype"], rdclass)] = {
                        "kind": "nodata",
                        "exp": now + (meta["minttl"] if meta["minttl"] is not None else 2**31),
                        "desc": desc,
                    }
                if cfg["raise_on_no_answer"]:
                    return finish(["NoAnswer"])
                return finish(desc)
            if k == "X":
                nx.append(c)
                if cfg.get("cache"):
                    mcache[(c, "ANY", rdclass)] = {
                        "kind": "nx",
                        "exp": now + (meta["minttl"] if meta["minttl"] is not None else 2**31),
                        "desc": None,
                    }
                next_candidate = True
                continue
            if k == "Y":
                return finish(["YXDOMAIN"])
            if k == "Tflag":
                # the nameserver layer did not ask for truncation to be reported: whatever follows,
                # the documented TCP retry cannot happen
                diverge("query:tcp:same", pos)
                return problems, None
            if k == "Tudp":
                pending_tcp = s
                continue
            if k == "S":
                if not cfg["retry_servfail"]:
                    alive.remove(s)
                continue
            if k == "O":
                continue
            if k in BROKEN_ALWAYS:
                alive.remove(s)
                continue
            raise AssertionError(f"model: unknown outcome {k}")
    return finish(["NXDOMAIN", list(cands), sorted(cands)])


def _results_equal(exp, got):
    if exp[0] != got[0]:
        return False
    if exp[0] == "answer":
        for i in (1, 2, 3, 5, 6, 7, 8):
            if exp[i] != got[i]:
                return False
        if exp[4] is not None and abs(exp[4] - got[4]) > 1e-5:
            return False
        return True
    if exp[0] == "NXDOMAIN":
        return exp[1] == got[1] and exp[2] == got[2]
    return True


def _result_diff_class(exp, got):
    if exp[0] != got[0]:
        return f"{exp[0]}->{got[0]}"
    if exp[0] == "answer":
        names = {1: "qname", 2: "canonical_name", 3: "rrset", 4: "expiration(min ttl)", 5: "nameserver", 6: "port",
                 7: "rdtype", 8: "rdclass"}
        for i in (1, 2, 3, 5, 6, 7, 8):
            if exp[i] != got[i]:
                return "answer." + names[i]
        return "answer.expiration(min ttl)"
    if exp[0] == "NXDOMAIN":
        return "NXDOMAIN.qnames" if exp[1] != got[1] else "NXDOMAIN.responses"
    return "?"


def _invariants(cfg, run):
    """Independent trace invariants (no model): broken server never asked again for the same
    candidate name, one TCP retry after UDP truncation, nothing issued at/after the lifetime."""
    problems = []
    events = run["events"]
    broken = {}
    start = run["start"]
    for i, ev in enumerate(events):
        if ev["t"] != "q":
            continue
        key = (ev["qname"], ev["srv"])
        if key in broken:
            problems.append(
                (
                    "C16.broken_never_again",
                    f"server {ev['srv']} proved broken by outcome {broken[key]!r} for {ev['qname']} and was asked again"
                    f" (event {i})",
                    {"prop": "C16", "broken_by": broken[key]},
                )
            )
            break
        k = _eff_class(ev, cfg)
        if k in BROKEN_ALWAYS or (k == "S" and not cfg["retry_servfail"]):
            broken[key] = k
        if ev["t0"] - start >= cfg["lifetime"]:  # the very floats the resolver sees
            problems.append(
                (
                    "C16.lifetime",
                    f"query issued at elapsed {ev['t0'] - start:.3f}s >= lifetime {cfg['lifetime']}",
                    {"prop": "C16", "what": "query issued at or after the lifetime"},
                )
            )
            break
        if k == "Tudp":
            nxt = events[i + 1] if i + 1 < len(events) else None
            expired = ev["t1"] - start >= cfg["lifetime"]
            ok = (
                nxt is not None and nxt["t"] == "q" and nxt["srv"] == ev["srv"] and nxt["tr"] == "tcp"
                and nxt["qname"] == ev["qname"]
            )
            if not ok and not (expired and nxt is None):
                problems.append(
                    (
                        "C16.tcp_retry",
                        f"truncated UDP reply from server {ev['srv']} not followed by one TCP query to the same server"
                        f" (event {i}, next {None if nxt is None else (nxt.get('srv'), nxt.get('tr'), nxt['t'])})",
                        {"prop": "C16", "what": "no immediate TCP retry on the same server"},
                    )
                )
                break
    return problems


def _check_cache(cfg, mcache, run, now):
    problems = []
    if not cfg.get("cache"):
        return problems
    exp = {}
    for (n, ty, cl), e in mcache.items():
        if e["exp"] > now and n in run["probed"]:
            exp[f"{n}|{ty}|{cl}"] = e["kind"]
    got = {k: v[0] for k, v in run["cache"].items()}
    if exp != got:
        missing = sorted(set(exp) - set(got))
        extra = sorted(set(got) - set(exp))
        wrong = sorted(k for k in set(got) & set(exp) if got[k] != exp[k])
        cls = "missing" if missing else ("extra" if extra else "wrong-kind")
        kinds = sorted({exp[k] for k in missing} | {got[k] for k in extra} | {got[k] for k in wrong})
        problems.append(
            (
                "C16.cache",
                f"cache after resolution: expected {exp}, found {got}",
                {"prop": "C16", "what": f"cache entry {cls}", "kinds": ",".join(kinds)},
            )
        )
    else:
        for (n, ty, cl), e in mcache.items():
            key = f"{n}|{ty}|{cl}"
            if key in run["cache"] and e["exp"] < 2**30 and abs(run["cache"][key][1] - e["exp"]) > 1e-5:
                problems.append(
                    (
                        "C16.cache",
                        f"cache entry {key} expires at {run['cache'][key][1]}, minimum-TTL rule gives {e['exp']}",
                        {"prop": "C16", "what": "cached expiration is not now + minimum ttl", "kind": e["kind"]},
                    )
                )
                break
    if not problems and run.get("keys") is not None:
        # the raw key set: every key the cache holds is a (queried name, type or ANY, queried class)
        # the documented rules stored (expired entries may or may not have been cleaned), and every
        # entry still valid is there
        raw = {tuple(k) for k in run["keys"]}
        ever = set(mcache.keys())
        valid = {k for k, e in mcache.items() if e["exp"] > now}
        extra = sorted(raw - ever)
        missing = sorted(valid - raw)
        if extra or missing:
            k0 = (extra or missing)[0]
            same_nt = [k for k in (ever if extra else raw) if k[0] == k0[0] and k[1] == k0[1] and k[2] != k0[2]]
            problems.append(
                (
                    "C16.cache",
                    f"cache keys after resolution: {sorted(raw)}; documented keys (name, type|ANY, class): valid"
                    f" {sorted(valid)}, ever stored {sorted(ever)}",
                    {"prop": "C16", "what": "raw cache key " + ("extra" if extra else "missing"),
                     "class": "other class of a stored name/type" if same_nt else "other"},
                )
            )
    return problems


def _eval_case(cfg, script):
    """Run one case on both resolvers and evaluate every clause.
    Returns (problems, info) -- problems: list of (clause, what, sig)."""
    problems = []
    runs_s = _run_real(cfg, script, False)
    runs_a = _run_real(cfg, script, True)
    info = {"consumed": 0, "results": [r["result"][0] for r in runs_s], "nq": 0}
    # sync/async twins
    for i, (a, b) in enumerate(zip(runs_s, runs_a)):
        ea = [(e["t"], e.get("srv"), e.get("qname"), e.get("tr"), e.get("timeout"), e.get("d"), e.get("t0")) for e in a["events"]]
        eb = [(e["t"], e.get("srv"), e.get("qname"), e.get("tr"), e.get("timeout"), e.get("d"), e.get("t0")) for e in b["events"]]
        if ea != eb or a["result"] != b["result"] or a["cache"] != b["cache"]:
            what = "trace" if ea != eb else ("result" if a["result"] != b["result"] else "cache")
            j = next((j for j, (x, y) in enumerate(zip(ea, eb)) if x != y), min(len(ea), len(eb)))
            problems.append(
                (
                    "C16.sync_async",
                    f"resolution {i}: sync and asyncio resolvers differ in {what} at event {j}: sync {a['result'][0]}"
                    f" ({len(ea)} events) vs async {b['result'][0]} ({len(eb)} events)",
                    {"prop": "C16", "what": f"sync/async {what} differ"},
                )
            )
            break
    for label, runs in (("sync", runs_s), ("async", runs_a)):
        mcache = {}
        for i, run in enumerate(runs):
            qn = cfg["resolutions"][i]["qname"]
            ps, expected = _model_resolution(cfg, mcache, run, qn, cfg["resolutions"][i].get("rdclass", 1))
            if not ps and expected is not None and not _results_equal(expected, run["result"]):
                ps.append(
                    (
                        "C16.outcome",
                        f"{label} resolution {i}: documented result {expected}, real result {run['result']}",
                        {"prop": "C16", "diff": _result_diff_class(expected, run["result"])},
                    )
                )
            ps.extend(_invariants(cfg, run))
            if not ps:
                ps.extend(_check_cache(cfg, mcache, run, run["end"]))
            for p in ps:
                p[2]["twin"] = label
            problems.extend(ps)
            if ps:
                break
    info["consumed"] = max((e["oi"] + 1 for r in runs_s for e in r["events"] if e["t"] == "q"), default=0)
    info["nq"] = info["consumed"]
    info["kinds"] = sorted({_eff_class(e, cfg) for r in runs_s for e in r["events"] if e["t"] == "q"})
    if cfg.get("zone") is not None:
        # class scenarios: the dedicated class oracle looks at the same runs
        for label, runs in (("sync", runs_s), ("async", runs_a)):
            ps = _class_oracle(cfg, runs)
            for p in ps:
                p[2]["twin"] = label
            problems.extend(ps)
    return problems, info


# --------------------------------------------------------------------------------------
# case generation
# --------------------------------------------------------------------------------------

ALPHABET = [
    {"k": "A", "chain": [], "ttl": 300},
    {"k": "N", "soa": [60, 30, 1]},
    {"k": "X", "soa": [50, 40, 1]},
    {"k": "Y"},
    {"k": "S"},
    {"k": "R"},
    {"k": "M"},
    {"k": "A", "chain": [9] * 17, "ttl": 300},
    {"k": "T"},
    {"k": "O"},
    {"k": "E"},
]


def _servers(n, variant=0):
    out = []
    for i in range(n):
        s = {"kind": "do53", "addr": f"10.0.0.{i + 1}", "port": 53}
        if variant == 1 and i == 1:
            s = {"kind": "do53", "addr": "10.0.0.2", "port": 5353, "as_string": True}
        if variant == 1 and i == 0:
            s["as_string"] = True
        if variant == 2 and i == n - 1:
            s = {"kind": "doh", "addr": f"https://doh{i}.test/dns-query", "port": 443}
        out.append(s)
    return out


def _base_cfg(nserv, search2, ndots, retry_servfail, tcp, raise_na, cache, variant=0, tight=False, labels=1):
    qname = ".".join(["www", "sub", "x3", "x4"][:labels])
    cfg = {
        "servers": _servers(nserv, variant),
        "search": ["corp.test.", "lab.example."] if search2 else [],
        "domain": ".",
        "ndots": ndots,
        "use_search_by_default": False,
        "search_arg": True,
        "rdtype": "A",
        "retry_servfail": retry_servfail,
        "tcp": tcp,
        "raise_on_no_answer": raise_na,
        "cache": cache,
        "lifetime": 1.0 if tight else 5.0,
        "timeout": 0.5 if tight else 2.0,
        "lifetime_via": "arg" if tight else "attr",
        "resolutions": [{"qname": qname, "gap": 0.0}],
    }
    if cache:
        # second resolution: same name again 10 s later (inside TTL 30+), third one after expiry
        cfg["resolutions"].append({"qname": qname, "gap": 10.0})
        cfg["resolutions"].append({"qname": qname, "gap": 400.0})
    return cfg


def _quick_grid():
    g = []
    B = _base_cfg
    # (nserv, search2, ndots, retry_servfail, tcp, raise_na, cache, variant, tight, labels)
    rows = [
        (1, False, 1, False, False, True, None, 0, False, 1),
        (1, True, 1, True, False, False, "cache", 0, False, 1),
        (1, True, 2, False, True, True, None, 0, False, 2),
        (1, False, 2, True, True, False, "lru", 0, True, 1),
        (2, False, 1, False, False, True, "cache", 0, False, 1),
        (2, True, 1, False, False, True, None, 0, False, 2),
        (2, True, 2, True, False, False, None, 1, False, 2),
        (2, False, 1, True, True, True, None, 0, False, 1),
        (2, True, 1, False, True, False, "lru", 0, False, 1),
        (2, False, 2, False, False, False, None, 2, False, 1),
        (2, True, 2, True, False, True, "cache", 0, True, 1),
        (2, False, 1, True, False, True, None, 0, True, 1),
        (3, False, 1, False, False, True, None, 0, False, 1),
        (3, True, 1, True, False, False, None, 0, False, 1),
        (3, False, 1, False, True, False, None, 2, False, 1),
        (3, True, 2, False, False, True, "lru", 1, False, 2),
        (3, False, 2, True, False, False, None, 0, True, 1),
        (3, True, 2, True, True, True, None, 0, False, 3),
        (1, False, 1, False, False, False, None, 2, False, 1),
        (2, False, 1, False, False, True, None, 1, True, 1),
        (3, False, 1, True, True, True, "cache", 0, False, 1),
        (1, True, 2, True, False, True, None, 0, True, 2),
        (2, True, 1, True, True, False, None, 2, False, 1),
        (3, True, 1, False, False, False, "cache", 0, True, 1),
        (2, False, 2, False, True, True, "lru", 1, False, 1),
        (1, True, 1, False, True, False, None, 1, False, 3),
    ]
    for row in rows:
        g.append(B(*row))
    return g


def _full_grid():
    g = []
    i = 0
    for nserv in (1, 2, 3):
        for search2 in (False, True):
            for ndots in (1, 2):
                for rs in (False, True):
                    for tcp in (False, True):
                        for rna in (True, False):
                            for cache in (None, "cache"):
                                i += 1
                                g.append(
                                    _base_cfg(
                                        nserv, search2, ndots, rs, tcp, rna,
                                        ("lru" if (cache and i % 2) else cache),
                                        variant=i % 3, tight=(i % 4 == 0), labels=1 + (i % 2),
                                    )
                                )
    return g


def _tree(R, cfg, depth, report, tag):
    """Enumerate the prefix tree of outcome scripts for one setting."""
    frontier = [[]]
    n = 0
    for level in range(depth + 1):
        nxt = []
        for prefix in frontier:
            if R.deadline():
                return n
            problems, info = _eval_case(cfg, prefix)
            n += 1
            nontrivial = info["consumed"] >= len(prefix)
            key = (tag, tuple(_okey(o) for o in prefix))
            for cl in ("C16.trace", "C16.outcome", "C16.sync_async", "C16.broken_never_again",
                       "C16.tcp_retry", "C16.lifetime", "C16.candidates"):
                R.case(cl, key=key, nontrivial=nontrivial)
            if cfg.get("cache"):
                R.case("C16.cache", key=key, nontrivial=nontrivial)
            if n % 97 == 1:
                R.sample("C16.trace", {"cfg": tag, "script": [o["k"] for o in prefix], "results": info["results"]})
            report(problems, cfg, prefix)
            if info["consumed"] > len(prefix) and level < depth:
                for o in ALPHABET:
                    nxt.append(prefix + [o])
        frontier = nxt
    return n


def _okey(o):
    return (o["k"], len(o.get("chain", [])), o.get("d"))


def _rand_cfg(rng):
    nserv = rng.choice([1, 1, 2, 2, 3, 4])
    labels = rng.choice([1, 1, 2, 3])
    absolute = rng.random() < 0.2
    qname = ".".join(["www", "sub", "x3"][:labels]) + ("." if absolute else "")
    rdtype = rng.choice(["A", "A", "AAAA", "MX", "TXT", "CNAME"])
    tight = rng.random() < 0.4
    cache = rng.choice([None, None, "cache", "lru"])
    cfg = {
        "servers": _servers(nserv, rng.choice([0, 0, 1, 2])),
        "search": rng.choice([[], [], ["corp.test."], ["corp.test.", "lab.example."]]),
        "domain": rng.choice([".", "dom.test."]),
        "ndots": rng.choice([None, 0, 1, 2, 3]),
        "use_search_by_default": rng.random() < 0.5,
        "search_arg": rng.choice([None, True, True, False]),
        "rdtype": rdtype,
        "retry_servfail": rng.random() < 0.5,
        "tcp": rng.random() < 0.3,
        "raise_on_no_answer": rng.random() < 0.5,
        "cache": cache,
        "lifetime": rng.choice([1.0, 0.75, 2.0]) if tight else rng.choice([5.0, 3.0, 10.0]),
        "timeout": rng.choice([0.5, 0.25]) if tight else rng.choice([2.0, 1.0, 4.0]),
        "lifetime_via": rng.choice(["arg", "attr"]),
        "source": rng.choice([None, None, "10.9.9.9"]),
        "source_port": rng.choice([0, 0, 5300]),
        "resolutions": [{"qname": qname, "gap": 0.0}],
    }
    if cache:
        for _ in range(rng.choice([1, 2])):
            cfg["resolutions"].append(
                {"qname": rng.choice([qname, qname, "www.corp.test.", "www."]), "gap": rng.choice([0.0, 1.0, 20.0, 59.0, 61.0, 500.0])}
            )
    return cfg


def _rand_outcome(rng):
    k = rng.choice(["A", "A", "N", "X", "X", "Y", "S", "S", "R", "M", "Mx", "T", "T", "O", "O", "E"])
    o = {"k": k, "d": rng.choice([0.0, 0.01, 0.25, 0.25, 0.5, 1.0, 1.99])}
    if k in ("A", "N", "X", "Mx"):
        n = rng.choice([0, 0, 0, 1, 2, 3, 14, 15, 16, 17, 18])
        if k == "Mx":
            n = rng.choice([0, 1, 2])
        o["chain"] = [rng.choice([5, 20, 100, 1000, 86400]) for _ in range(n)]
        if n >= 1 and k in ("N", "X") and rng.random() < 0.15:
            o["loop"] = True
    if k in ("A", "Mx"):
        o["ttl"] = rng.choice([1, 10, 30, 300, 100000])
    if k in ("N", "X", "Mx"):
        o["soa"] = [rng.choice([15, 60, 3600]), rng.choice([10, 30, 7200]), rng.choice([0, 1, 2])]
    if k == "R":
        o["rcode"] = rng.choice([1, 4, 5, 9, 10])
    if k == "M":
        o["sub"] = rng.choice(["formerr", "badresponse", "eof"])
    return o



# --------------------------------------------------------------------------------------
# class scenarios: IN / CH / HS queries for the same name and type interleaved on one cache
# --------------------------------------------------------------------------------------

CLS_TEXT = {1: "IN", 3: "CH", 4: "HS"}
# per class: its own rdata and its own TTLs, so that an answer served across classes shows in the
# outcome and entries of different classes expire at different times
CLS_PARAMS = {
    1: {"ttl": 300, "soa": [600, 300, 1], "TXT": '"in"', "MX": "10 in.test."},
    3: {"ttl": 30, "soa": [60, 30, 1], "TXT": '"ch"', "MX": "10 ch.test."},
    4: {"ttl": 100, "soa": [100, 200, 1], "TXT": '"hs"', "MX": "10 hs.test."},
}
CLS_CHAIN = [500, 500]


def _class_outcome(cls, letter, rdtype):
    """Outcome served by the scripted zone for class *cls*: A answer, C answer behind two CNAMEs,
    N no-data, X NXDOMAIN."""
    p = CLS_PARAMS[cls]
    if letter == "A":
        return {"k": "A", "chain": [], "ttl": p["ttl"], "rdata": p[rdtype]}
    if letter == "C":
        return {"k": "A", "chain": list(CLS_CHAIN), "ttl": p["ttl"], "rdata": p[rdtype]}
    if letter == "N":
        return {"k": "N", "soa": list(p["soa"])}
    if letter == "X":
        return {"k": "X", "soa": list(p["soa"])}
    raise AssertionError(letter)


def _class_oracle(cfg, runs):
    """Independent oracle for the class scenarios (cfg['zone'] set, every reply is terminal: answer,
    no-data or NXDOMAIN, every exchange takes 0.25 s).  A reference cache keyed by (queried name,
    type or ANY for NXDOMAIN, queried class) decides for every step which queries must reach a server
    and what the outcome is; the real query trace, the result and the cache keys (through get() on
    the key grid and as the raw key set) are compared with it.
    Returns a list of (clause, what, sig)."""
    CL = "C16.cache_class"
    zone = {(int(c), n): o for c, n, o in cfg["zone"]}
    T = cfg["rdtype"]
    s0 = cfg["servers"][0]
    addr = s0["addr"]
    port = s0["port"] if s0["kind"] != "doh" else 443
    M = {}
    for i, run in enumerate(runs):
        rs = cfg["resolutions"][i]
        cls = rs["rdclass"]
        cands = _oracle_qnames(cfg, rs["qname"])
        now = run["start"]
        exp_q = []
        why = []  # per expected query / per skipped candidate: the decision of the reference cache
        expected = None
        for c in cands:
            e = M.get((c, T, cls))
            if e is not None and e["exp"] > now:
                why.append((c, "cached", e["kind"]))
                if e["kind"] == "nodata" and cfg["raise_on_no_answer"]:
                    expected = ["NoAnswer"]
                else:
                    expected = e["desc"]
                break
            e = M.get((c, "ANY", cls))
            if e is not None and e["exp"] > now:
                why.append((c, "cached", "nx"))
                continue
            exp_q.append((c, T, cls))
            why.append((c, "ask", None))
            now += 0.25
            o = zone[(cls, c)]
            if o["k"] == "A":
                chain = o.get("chain", [])
                canon = c if not chain else _chain_name(len(chain) - 1)
                minttl = min([o["ttl"]] + list(chain))
                desc = ["answer", c, canon, [canon, o["ttl"], T, [o["rdata"]]], round(now + minttl, 6), addr, port,
                        T, cls, cls]
                M[(c, T, cls)] = {"kind": "ans", "exp": now + minttl, "desc": desc}
                expected = desc
                break
            minttl = min(o["soa"][0], o["soa"][1])
            if o["k"] == "N":
                desc = ["answer", c, c, None, round(now + minttl, 6), addr, port, T, cls, None]
                M[(c, T, cls)] = {"kind": "nodata", "exp": now + minttl, "desc": desc}
                expected = ["NoAnswer"] if cfg["raise_on_no_answer"] else desc
                break
            M[(c, "ANY", cls)] = {"kind": "nx", "exp": now + minttl, "desc": None}
        if expected is None:
            expected = ["NXDOMAIN", list(cands), sorted(cands)]
        # ---- the query trace
        got_q = [(e["qname"], e["rdtype"], e["rdclass"]) for e in run["events"] if e["t"] == "q"]
        if got_q != exp_q:
            j = next((j for j, (x, y) in enumerate(zip(got_q, exp_q)) if x != y), min(len(got_q), len(exp_q)))
            g = got_q[j] if j < len(got_q) else None
            x = exp_q[j] if j < len(exp_q) else None
            ctx = (f"step {i} ({rs['qname']} {T} {CLS_TEXT[cls]}): queries sent {got_q}, the reference cache"
                   f" (keys {sorted(k for k, e in M.items())}) requires {exp_q}")
            if g is not None and x is not None and g[0] == x[0] and g[1] == x[1] and g[2] != x[2]:
                return [(CL, "query sent in another class than requested; " + ctx,
                         {"prop": "C16", "what": "query sent in a class other than the requested one"})]
            # which candidate did the real resolver treat differently?
            asked_real = {q[0] for q in got_q}
            asked_exp = {q[0] for q in exp_q}
            for c in cands:
                if c in asked_exp and c not in asked_real:
                    others = sorted(
                        e["kind"] for (n, ty, k), e in M.items()
                        if n == c and k != cls and ty in (T, "ANY") and e["exp"] > run["start"]
                    )
                    if others:
                        return [(CL, f"{c} was not asked in class {CLS_TEXT[cls]}: served from an entry cached for"
                                     f" another class; " + ctx,
                                 {"prop": "C16", "what": "query answered from an entry cached for another class",
                                  "kind": others[0]})]
                    return [(CL, f"{c} was not asked although nothing is cached for it; " + ctx,
                             {"prop": "C16", "what": "query not sent although nothing is cached under its key"})]
                if c in asked_real and c not in asked_exp:
                    kind = next((w[2] for w in why if w[0] == c and w[1] == "cached"), None)
                    if kind is not None:
                        return [(CL, f"{c} was asked again although it is cached for class {CLS_TEXT[cls]}; " + ctx,
                                 {"prop": "C16", "what": "repeat query not served from the cache", "kind": kind})]
                    break
            return [(CL, "query trace differs; " + ctx, {"prop": "C16", "what": "class scenario query trace differs"})]
        # ---- the result
        got = run["result"]
        same = expected[0] == got[0]
        diff = None
        if not same:
            diff = f"{expected[0]}->{got[0]}"
        elif expected[0] == "answer":
            names = {1: "qname", 2: "canonical_name", 3: "rrset", 5: "nameserver", 6: "port", 7: "rdtype",
                     8: "rdclass", 9: "rrset.rdclass"}
            for ix in (8, 9, 3, 1, 2, 5, 6, 7):
                if expected[ix] != got[ix]:
                    diff = "answer." + names[ix]
                    break
            if diff is None and abs(expected[4] - got[4]) > 1e-5:
                diff = "answer.expiration(min ttl)"
        elif expected[0] == "NXDOMAIN":
            if expected[1] != got[1] or expected[2] != got[2]:
                diff = "NXDOMAIN.qnames/responses"
        if diff is not None:
            return [(CL, f"step {i} ({rs['qname']} {T} {CLS_TEXT[cls]}): the server data for this class gives"
                         f" {expected}, real result {got}",
                     {"prop": "C16", "what": "outcome differs from the data of the queried class", "diff": diff})]
        # ---- the cache keys, through get() on the grid names x {T, ANY, TXT, A} x {IN, CH, HS}
        exp_p = {}
        for (n, ty, k), e in M.items():
            if e["exp"] > now and n in run["probed"]:
                exp_p[f"{n}|{ty}|{k}"] = e["kind"]
        got_p = {k: v[0] for k, v in run["cache"].items()}
        if exp_p != got_p:
            missing = sorted(set(exp_p) - set(got_p))
            extra = sorted(set(got_p) - set(exp_p))
            moved = [m for m in missing if any(x.rsplit("|", 1)[0] == m.rsplit("|", 1)[0] for x in extra)]
            if moved:
                what = "entry stored under a class other than the queried one"
                kinds = sorted({exp_p[m] for m in moved})
            elif missing:
                what = "entry missing under (queried name, type|ANY, queried class)"
                kinds = sorted({exp_p[m] for m in missing})
            elif extra:
                what = "entry under a key that was not queried"
                kinds = sorted({got_p[x] for x in extra})
            else:
                what = "entry of the wrong kind"
                kinds = sorted({got_p[x] for x in got_p if got_p[x] != exp_p.get(x)})
            return [(CL, f"step {i} ({rs['qname']} {T} {CLS_TEXT[cls]}): cache.get() finds {got_p}, documented"
                         f" keys hold {exp_p}",
                     {"prop": "C16", "what": what, "kinds": ",".join(kinds)})]
        for (n, ty, k), e in M.items():
            key = f"{n}|{ty}|{k}"
            if key in run["cache"] and abs(run["cache"][key][1] - e["exp"]) > 1e-5:
                return [(CL, f"step {i}: entry {key} expires at {run['cache'][key][1]}, the data of class"
                             f" {CLS_TEXT[k]} gives {e['exp']}",
                         {"prop": "C16", "what": "cached expiration is not that of the queried class", "kind": e["kind"]})]
        # ---- the raw key set
        if run.get("keys") is not None:
            raw = {tuple(k) for k in run["keys"]}
            ever = set(M.keys())
            valid = {k for k, e in M.items() if e["exp"] > now}
            if (raw - ever) or (valid - raw):
                return [(CL, f"step {i} ({rs['qname']} {T} {CLS_TEXT[cls]}): raw cache keys {sorted(raw)}, documented:"
                             f" valid {sorted(valid)}, ever stored {sorted(ever)}",
                         {"prop": "C16", "what": "raw cache key " + ("extra" if raw - ever else "missing")})]
    return []


CLASS_PATTERNS = {
    # name: [(class, gap before the step, class passed as text)]
    "CICI": [(3, 0.0, False), (1, 1.0, False), (3, 1.0, False), (1, 1.0, False)],
    "ICIC": [(1, 0.0, True), (3, 1.0, True), (1, 1.0, True), (3, 1.0, True)],
    "CCII": [(3, 0.0, False), (3, 1.0, True), (1, 1.0, False), (1, 1.0, True)],
    # the CH entry (30 s) has expired at the third step, the IN entry (300 s) has not
    "CI~CI": [(3, 0.0, False), (1, 1.0, False), (3, 100.0, False), (1, 1.0, False)],
    "IHCHCI": [(1, 0.0, False), (4, 1.0, False), (3, 1.0, True), (4, 1.0, False), (3, 1.0, False), (1, 1.0, False)],
}
CLASS_PATTERNS_THOROUGH = {
    "IICC": [(1, 0.0, False), (1, 1.0, False), (3, 1.0, False), (3, 1.0, False)],
    # after 100 s the CH (30 s) and HS (100 s) entries have expired, the IN (300 s) one has not
    "CHI~CHI": [(3, 0.0, False), (4, 1.0, False), (1, 1.0, False), (3, 100.0, False), (4, 1.0, False), (1, 1.0, True)],
}
ALL_CLASS_PATTERNS = dict(CLASS_PATTERNS, **CLASS_PATTERNS_THOROUGH)
CLASS_LETTERS_1 = ["A", "C", "N", "X"]  # one candidate name
CLASS_PROFILES_3 = ["XXX", "XAX", "XXN", "AXX", "XNA", "XXC"]  # three candidate names (search list)


def _class_settings():
    out = []
    for cache in ("cache", "lru"):
        for raise_na in (True, False):
            for search2 in (False, True):
                rdtype = "MX" if (cache == "lru" and search2) else "TXT"
                nserv, variant = (2, 1) if search2 else ((1, 0) if cache == "cache" else (2, 2))
                out.append((cache, raise_na, search2, rdtype, nserv, variant))
    return out


def _class_cfg(setting, pattern, profile_by_class):
    cache, raise_na, search2, rdtype, nserv, variant = setting
    cfg = _base_cfg(nserv, search2, 1, False, False, raise_na, cache, variant, False, 1)
    cfg["rdtype"] = rdtype
    qname = cfg["resolutions"][0]["qname"]
    cfg["resolutions"] = [
        {"qname": qname, "gap": gap, "rdclass": cls, "as_text": as_text}
        for cls, gap, as_text in ALL_CLASS_PATTERNS[pattern]
    ]
    cands = _oracle_qnames(cfg, qname)
    zone = []
    for cls, prof in sorted(profile_by_class.items()):
        for c, letter in zip(cands, prof):
            zone.append([cls, c, _class_outcome(cls, letter, rdtype)])
    cfg["zone"] = zone
    return cfg


def _class_cases(quick):
    """Yield (tag, cfg) for the exhaustive class scenarios."""
    import itertools

    for si, setting in enumerate(_class_settings()):
        search2 = setting[2]
        for pname, steps in (CLASS_PATTERNS if quick else ALL_CLASS_PATTERNS).items():
            classes = sorted({st[0] for st in steps})
            if not search2:
                profs = [(x,) for x in CLASS_LETTERS_1]
            elif len(classes) == 2:
                profs = CLASS_PROFILES_3
            else:
                profs = CLASS_PROFILES_3[:3]
            for combo in itertools.product(profs, repeat=len(classes)):
                if quick and len(classes) == 3 and not search2 and (sum(map(hash_letter, combo)) + si) % 2:
                    continue
                by_class = {cls: "".join(p) for cls, p in zip(classes, combo)}
                tag = (si, pname, tuple(sorted(by_class.items())))
                yield tag, _class_cfg(setting, pname, by_class)


def hash_letter(p):
    return sum(ord(ch) for ch in "".join(p))


def _rand_class_cfg(rng):
    """Seeded: a random cached setting whose resolutions ask the same name in random classes; the
    outcomes come from a random sequential script (faults included), evaluated by the general model."""
    cfg = _rand_cfg(rng)
    cfg["cache"] = rng.choice(["cache", "lru"])
    cfg["rdtype"] = rng.choice(["TXT", "TXT", "MX", "CNAME"])
    qname = cfg["resolutions"][0]["qname"]
    steps = []
    for j in range(rng.randint(3, 6)):
        steps.append(
            {
                "qname": qname if rng.random() < 0.85 else rng.choice(["www.corp.test.", "www."]),
                "gap": 0.0 if j == 0 else rng.choice([0.0, 1.0, 1.0, 20.0, 61.0, 500.0]),
                "rdclass": rng.choice([1, 1, 3, 3, 4]),
                "as_text": rng.random() < 0.3,
            }
        )
    cfg["resolutions"] = steps
    return cfg

# --------------------------------------------------------------------------------------
# direct clauses
# --------------------------------------------------------------------------------------


def _check_qnames_case(labels, absolute, search_arg, usd, search, domain, ndots):
    qtext = ".".join(["a", "b", "c", "d"][:labels]) + ("." if absolute else "")
    cfg = {"search": search, "domain": domain, "ndots": ndots, "use_search_by_default": usd, "search_arg": search_arg}
    want = _oracle_qnames(cfg, qtext)
    res = dns.resolver.Resolver(configure=False)
    res.search = [dns.name.from_text(s) for s in search]
    res.domain = dns.name.from_text(domain)
    res.ndots = ndots
    res.use_search_by_default = usd
    got = [str(n) for n in res._get_qnames_to_try(dns.name.from_text(qtext, None), search_arg)]
    if got != want:
        dots = labels - 1
        nd = 1 if ndots is None else ndots
        return (
            f"_get_qnames_to_try({qtext!r}, search={search_arg}) with search={search} domain={domain} ndots={ndots}"
            f" -> {got}, search/ndots rule gives {want}",
            {"prop": "C16", "what": "candidate list differs from the search/ndots rule",
             "class": "absolute" if absolute else ("dots>=ndots" if dots >= nd else "dots<ndots")},
        )
    return None


def _chaining_msg(n, kind, ttls, attl, soa, rdtype="A", qr=True, loop=False, shuffle=None):
    q = dns.message.make_query("start.test.", rdtype)
    o = {"k": {"ans": "A", "nodata": "N", "nx": "X", "nxans": "Mx"}[kind], "chain": ttls[:n], "ttl": attl, "soa": soa}
    if loop:
        o["loop"] = True
    r, meta = _build_response_uncached(q, o)
    if shuffle is not None:
        shuffle(r.answer)
    if not qr:
        r.flags &= ~dns.flags.QR
    return r, meta


def _check_chaining_case(n, kind, ttls, attl, soa, rdtype="A", qr=True, loop=False, rngseed=None):
    import random as _random

    sh = _random.Random(rngseed).shuffle if rngseed is not None else None
    r, meta = _chaining_msg(n, kind, ttls, attl, soa, rdtype, qr, loop, sh)
    eff_n = 0 if rdtype == "CNAME" else n
    if not qr:
        want = "NotQueryResponse"
    elif eff_n >= 16:
        want = "ChainTooLong"
    elif kind == "nxans":
        want = "AnswerForNXDOMAIN"
    else:
        want = "ok"
    try:
        cr = r.resolve_chaining()
        got = "ok"
    except dns.message.NotQueryResponse:
        got = "NotQueryResponse"
    except dns.message.ChainTooLong:
        got = "ChainTooLong"
    except dns.message.AnswerForNXDOMAIN:
        got = "AnswerForNXDOMAIN"
    except Exception as e:
        got = "exc:" + type(e).__name__
    if got != want:
        return (
            f"resolve_chaining on a {eff_n}-CNAME chain ({kind}): {got}, documented {want}",
            {"prop": "C16", "what": "chain-length / error outcome", "want": want, "got": got,
             "len": "<=15" if eff_n <= 15 else ">=16"},
        )
    if want != "ok":
        return None
    if str(cr.canonical_name) != meta["canon"]:
        return (
            f"canonical name {cr.canonical_name} after {eff_n} CNAMEs, expected {meta['canon']}",
            {"prop": "C16", "what": "canonical name is not the end of the CNAME chain"},
        )
    if len(cr.cnames) != eff_n:
        return (f"{len(cr.cnames)} cnames reported for a {eff_n}-chain", {"prop": "C16", "what": "cnames list length"})
    if kind == "ans":
        if cr.answer is None or str(cr.answer.name) != meta["canon"] or cr.answer.ttl != attl:
            return (f"answer rrset {cr.answer} for chain {eff_n}", {"prop": "C16", "what": "answer rrset not found at chain end"})
    else:
        if cr.answer is not None:
            return ("answer rrset present for a negative response", {"prop": "C16", "what": "answer for negative response"})
    if meta["minttl"] is not None and cr.minimum_ttl != meta["minttl"]:
        return (
            f"minimum_ttl {cr.minimum_ttl}, minimum over followed CNAME TTLs"
            f" {ttls[:eff_n]} and {'answer ttl ' + str(attl) if kind == 'ans' else 'SOA ttl/minimum ' + str(soa)} is"
            f" {meta['minttl']}",
            {"prop": "C16", "what": "minimum_ttl is not the minimum TTL", "kind": kind},
        )
    return None


def _check_budget_case(lifetime, timeout, d, via_arg):
    class _T:
        def __init__(self, now):
            self.now = now

        def time(self):
            return self.now

    res = dns.resolver.Resolver(configure=False)
    res.timeout = timeout
    res.lifetime = 777.0 if via_arg else lifetime
    saved = dns.resolver.time
    dns.resolver.time = _T(START + d)
    try:
        try:
            got = res._compute_timeout(START, lifetime if via_arg else None)
            raised = False
        except dns.resolver.LifetimeTimeout:
            raised = True
            got = None
    finally:
        dns.resolver.time = saved
    want_raise = d >= lifetime
    if raised != want_raise:
        return (
            f"_compute_timeout: elapsed {d}, lifetime {lifetime}: raised={raised}, budget rule says raised={want_raise}",
            {"prop": "C16", "what": "LifetimeTimeout boundary", "at": "elapsed==lifetime" if d == lifetime else ("before" if d < lifetime else "after")},
        )
    if not raised:
        want = min(lifetime - d, timeout)
        if abs(got - want) > 1e-9 or not got > 0:
            return (
                f"_compute_timeout: elapsed {d}, lifetime {lifetime}, timeout {timeout} -> {got}, expected {want}",
                {"prop": "C16", "what": "timeout is not min(remaining lifetime, timeout)"},
            )
    return None


# --------------------------------------------------------------------------------------
# driver
# --------------------------------------------------------------------------------------


def run(R):
    def report(problems, cfg, script):
        for clause, what, sig in problems:
            R.violation(clause, what, sig=sig, replay={"kind": "case", "cfg": cfg, "script": script, "clause": clause})

    # ---- direct: candidate names (exhaustive)
    for labels in (1, 2, 3, 4):
        for absolute in (False, True):
            for search_arg in (None, True, False):
                for usd in (False, True):
                    for search in ([], ["corp.test."], ["corp.test.", "lab.example."]):
                        for domain in (".", "dom.test."):
                            for ndots in (None, 0, 1, 2, 3, 4):
                                args = (labels, absolute, search_arg, usd, search, domain, ndots)
                                p = R.guard("C16.candidates", _check_qnames_case, *args)
                                R.case("C16.candidates", key=("direct", repr(args)))
                                if p:
                                    R.violation("C16.candidates", p[0], sig=p[1],
                                                replay={"kind": "qnames", "args": list(args), "clause": "C16.candidates"})
    R.sample("C16.candidates", {"labels": 2, "search": ["corp.test.", "lab.example."], "ndots": 2,
                                "oracle": _oracle_qnames({"search": ["corp.test.", "lab.example."], "ndots": 2, "search_arg": True}, "a.b")})

    # ---- direct: CNAME chaining
    ttl_patterns = [
        [300] * 18,
        [5] + [300] * 17,
        [300] * 14 + [7, 300, 300, 300],
        list(range(100, 118)),
        [86400] * 18,
    ]
    for n in range(0, 19):
        for kind in ("ans", "nodata", "nx", "nxans"):
            for pi, ttls in enumerate(ttl_patterns):
                for attl, soa in ((1000, [60, 30, 1]), (3, [2, 900, 0]), (100000, [900, 1, 2])):
                    if kind == "nxans" and n > 2:
                        continue
                    args = (n, kind, ttls, attl, soa, "A", True, False, (n * 31 + pi) if pi % 2 else None)
                    p = R.guard("C16.chaining", _check_chaining_case, *args)
                    R.case("C16.chaining", key=repr(args))
                    if p:
                        R.violation("C16.chaining", p[0], sig=p[1],
                                    replay={"kind": "chaining", "args": list(args), "clause": "C16.chaining"})
    for args in (
        (3, "ans", [300] * 18, 50, [60, 30, 1], "A", False, False, None),
        (0, "ans", [300] * 18, 50, [60, 30, 1], "CNAME", True, False, None),
        (5, "ans", [300] * 18, 50, [60, 30, 1], "CNAME", True, False, None),
        (4, "nodata", [300] * 18, 50, [60, 30, 1], "A", True, True, None),
        (1, "nodata", [300] * 18, 50, [60, 30, 1], "A", True, True, None),
        (2, "ans", [300] * 18, 50, [60, 30, 1], "AAAA", True, False, None),
        (15, "ans", [300] * 18, 50, [60, 30, 1], "MX", True, False, 3),
        (16, "ans", [300] * 18, 50, [60, 30, 1], "MX", True, False, 3),
    ):
        if args[7]:
            # a CNAME loop must end in ChainTooLong (bounded walk)
            def loopcase(a=args):
                r, _ = _chaining_msg(a[0], a[1], a[2], a[3], a[4], a[5], a[6], True)
                try:
                    r.resolve_chaining()
                    return ("resolve_chaining returned on a CNAME loop", {"prop": "C16", "what": "CNAME loop not bounded"})
                except dns.message.ChainTooLong:
                    return None
                except Exception as e:
                    return (f"CNAME loop: {type(e).__name__}", {"prop": "C16", "what": "CNAME loop not bounded"})
            p = R.guard("C16.chaining", loopcase)
        else:
            p = R.guard("C16.chaining", _check_chaining_case, *args)
        R.case("C16.chaining", key=repr(args))
        if p:
            R.violation("C16.chaining", p[0], sig=p[1],
                        replay={"kind": "chaining", "args": list(args), "clause": "C16.chaining"})
    R.sample("C16.chaining", {"chain": 15, "expect": "answer", "chain16": "ChainTooLong"})

    # ---- direct: lifetime budget
    for lifetime in (1.0, 5.0, 0.25):
        for timeout in (0.5, 2.0, 10.0):
            for d in (0.0, 0.125, lifetime - 0.5, lifetime - 0.125, lifetime, lifetime + 0.125, lifetime * 2, 1e6):
                if d < 0:
                    continue
                for via_arg in (False, True):
                    args = (lifetime, timeout, d, via_arg)
                    p = R.guard("C16.lifetime", _check_budget_case, *args)
                    R.case("C16.lifetime", key=("direct", args))
                    if p:
                        R.violation("C16.lifetime", p[0], sig=p[1],
                                    replay={"kind": "budget", "args": list(args), "clause": "C16.lifetime"})

    # ---- class scenarios: IN / CH / HS interleaved on one cache (exhaustive over the scenario grid)
    GENERAL = ("C16.trace", "C16.outcome", "C16.sync_async", "C16.broken_never_again", "C16.tcp_retry",
               "C16.lifetime", "C16.candidates")
    nclass = 0
    for tag, cfg in _class_cases(R.quick):
        if R.deadline():
            break
        res = R.guard("C16.cache_class", _eval_case, cfg, [])
        if res is None:
            continue
        problems, info = res
        nclass += 1
        key = ("class", tag)
        R.case("C16.cache_class", key=key, nontrivial=info["nq"] > 0)
        R.case("C16.cache", key=key, nontrivial=info["nq"] > 0)
        for cl in GENERAL:
            R.case(cl, key=key, nontrivial=info["nq"] > 0)
        if nclass % 263 == 1:
            R.sample("C16.cache_class", {"setting": tag[0], "steps": tag[1],
                                         "zone": [[CLS_TEXT[c], p] for c, p in tag[2]], "results": info["results"]})
        report(problems, cfg, [])

    # ---- exhaustive prefix trees
    ncases = 0
    if R.quick:
        for i, cfg in enumerate(_quick_grid()):
            if R.deadline():
                break
            # budget guard: keep the quick tier inside ~30 s
            depth = 3 if (len(cfg["servers"]) < 3 and not cfg.get("cache")) or i % 3 == 0 else 2
            ncases += _tree(R, cfg, depth, report, f"q{i}")
    else:
        grid = _full_grid()
        for i, cfg in enumerate(grid):
            if R.elapsed() > 300 or R.deadline():
                R.note(f"thorough: full grid stopped at setting {i}/{len(grid)} (time)")
                break
            ncases += _tree(R, cfg, 3, report, f"f{i}")
        for i, cfg in enumerate(_quick_grid()):
            if R.elapsed() > 440 or R.deadline():
                R.note(f"thorough: depth-4 trees stopped at setting {i} (time)")
                break
            ncases += _tree(R, cfg, 4, report, f"q{i}")

    # ---- seeded long scripts
    nseed = 0
    target = 1200 if R.quick else 10**9
    limit = 40.0 if R.quick else 530.0
    while nseed < target and R.elapsed() < limit and not R.deadline():
        cfg = _rand_cfg(R.rng)
        script = [_rand_outcome(R.rng) for _ in range(R.rng.randint(1, 14))]
        res = R.guard("C16.trace", _eval_case, cfg, script)
        if res is None:
            continue
        problems, info = res
        nseed += 1
        key = ("seeded", nseed)
        for cl in ("C16.trace", "C16.outcome", "C16.sync_async", "C16.broken_never_again", "C16.tcp_retry",
                   "C16.lifetime", "C16.candidates"):
            R.case(cl, key=key, nontrivial=info["nq"] > 0)
        if cfg.get("cache"):
            R.case("C16.cache", key=key)
        if nseed % 211 == 1:
            R.sample("C16.outcome", {"seeded": nseed, "script": [o["k"] for o in script], "results": info["results"]})
        report(problems, cfg, script)
    # ---- seeded class scenarios with fault scripts (drawn after the cases above, so those keep their draws)
    nseedc = 0
    targetc = 150 if R.quick else 6000
    limitc = 43.0 if R.quick else 565.0
    while nseedc < targetc and R.elapsed() < limitc and not R.deadline():
        cfg = _rand_class_cfg(R.rng)
        script = [_rand_outcome(R.rng) for _ in range(R.rng.randint(1, 14))]
        res = R.guard("C16.cache", _eval_case, cfg, script)
        if res is None:
            continue
        problems, info = res
        nseedc += 1
        key = ("seeded-class", nseedc)
        for cl in GENERAL + ("C16.cache",):
            R.case(cl, key=key, nontrivial=info["nq"] > 0)
        report(problems, cfg, script)
    R.note(f"class scenarios {nclass}, tree cases {ncases}, seeded cases {nseed}, seeded class cases {nseedc}")


def replay(data):
    kind = data.get("kind")
    clause = data.get("clause")
    if kind == "case":
        problems, info = _eval_case(data["cfg"], data["script"])
        hit = [p for p in problems if p[0] == clause]
        if hit:
            return True, f"{clause}: {hit[0][1]}"
        if problems:
            return True, f"{problems[0][0]}: {problems[0][1]}"
        return False, f"case passes (results {info['results']})"
    if kind == "qnames":
        a = data["args"]
        p = _check_qnames_case(*a)
        return (True, p[0]) if p else (False, "candidate list matches the search/ndots rule")
    if kind == "chaining":
        a = data["args"]
        if a[7]:
            r, _ = _chaining_msg(a[0], a[1], a[2], a[3], a[4], a[5], a[6], True)
            try:
                r.resolve_chaining()
                return True, "resolve_chaining returned on a CNAME loop"
            except dns.message.ChainTooLong:
                return False, "CNAME loop ends in ChainTooLong"
            except Exception as e:
                return True, f"CNAME loop: {type(e).__name__}"
        p = _check_chaining_case(*a)
        return (True, p[0]) if p else (False, "chaining result matches")
    if kind == "budget":
        p = _check_budget_case(*data["args"])
        return (True, p[0]) if p else (False, "budget rule holds")
    return False, "unknown replay kind"
