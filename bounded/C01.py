"""Bounded stand-in for C01 -- name text and wire codecs are exact inverses within
the DNS length limits (DESIGN.md section 4, C01, item B9).

The real ``dns.name`` / ``dns.wire`` / ``dns.wirebase`` / ``dns.tokenizer`` code is run
against a small reference model written from RFC 1035 (sections 3.1, 4.1.4, 5.1):

* ``ref_valid``      -- label <= 63, sum(len+1) <= 255, empty label only last
* ``ref_wire``       -- length octet + label, root terminator
* ``ref_parse_text`` -- master-file name syntax (``\\DDD``, ``\\X``, ``.``, ``@``)
* ``ref_decode``     -- compressed-name decoder that only follows a pointer to an offset
                        strictly below the name's start and below every earlier target

Every check is a function ``_chk_<kind>(args) -> [(clause, what, sig), ...]`` so that the
same code evaluates a case during the run and during ``replay``.
"""

from __future__ import annotations

import io
import pickle

import dns.exception
import dns.name
import dns.tokenizer
import dns.wire
import dns.wirebase

BOUNDS = (
    "Exhaustive: every label of length 0-2 over all 256 octet values (65 792 labels) as a "
    "one-label relative and as a one-label absolute name through to_text->from_text (checked "
    "against an independent RFC 1035 text parser), Tokenizer.get_name and to_wire->from_wire "
    "(checked against an independent encoder/decoder) [quick: all 257 labels of length <= 1 in "
    "every path, all 65 536 two-octet labels through text+wire in absolute form and a 1/4 "
    "stratified slice of them through the tokenizer and the relative form]; every octet embedded "
    "in a three-label name, as str and as bytes input; the \\DDD form of all 1000 three-digit "
    "escapes and the \\X form of all 128 ASCII characters; every label-length vector over "
    "{1,2,61,62,63,64} of up to 5 labels whose encoded length is 250-260 (all constructors and "
    "name-producing operations: Name(), __setstate__, copy, concatenate, + , relativize, "
    "derelativize, split, parent, canonicalize, from_text, from_wire, to_wire with origin, "
    "successor, predecessor); all byte strings over a 10-symbol alphabet "
    "{00 01 02 03 04 05 'a' 40 C0 FF} of length <= 5 (quick: 8 symbols, length <= 5; thorough: "
    "length <= 6) decoded at every offset with an instrumented parser (read counter as hang "
    "detector, seek trace) against the reference decoder.  Seeded: random legal names up to the "
    "63/255 limits (quick 3 000, thorough 20 000) through every path with random origins and "
    "relativity choices; random sequences of 2-8 names from a case-mixed vocabulary written with "
    "one compression table at message offsets 0, 12 and around 0x3FFF/0x4000 (quick 2 500, "
    "thorough 20 000 sequences) and decoded by both the library and the reference decoder; random "
    "pointer-laden buffers up to 20 000 octets (quick 3 000, thorough 60 000).  Not covered: "
    "IDNA codecs (external); from_unicode only for all-ASCII text."
)

_LOWER = bytes((c + 32 if 65 <= c <= 90 else c) for c in range(256))


# --------------------------------------------------------------------------- reference
def lower(b: bytes) -> bytes:
    return b.translate(_LOWER)


def ref_valid(labels) -> bool:
    total = 0
    last = len(labels) - 1
    for i, l in enumerate(labels):
        if len(l) > 63:
            return False
        if len(l) == 0 and i != last:
            return False
        total += len(l) + 1
    return total <= 255


def ref_is_abs(labels) -> bool:
    return len(labels) > 0 and labels[-1] == b""


def ref_wire(labels) -> bytes:
    return b"".join(bytes([len(l)]) + l for l in labels)


def ref_eqci(a, b) -> bool:
    return len(a) == len(b) and all(lower(x) == lower(y) for x, y in zip(a, b))


def ref_is_subdomain(a, b) -> bool:
    """a is a subdomain of b (same relativity, b a case-insensitive suffix of a)."""
    if ref_is_abs(a) != ref_is_abs(b):
        return False
    if len(b) > len(a):
        return False
    if len(b) == 0:
        return True
    return ref_eqci(a[len(a) - len(b):], b)


def ref_emit_text(labels, style=0) -> str:
    """An independent master-file spelling of a name.  style 0: minimal escapes,
    style 1: every octet as \\DDD, style 2: \\X for every non-digit printable."""
    if len(labels) == 0:
        return "@"
    if len(labels) == 1 and labels[0] == b"":
        return "."
    out = []
    for l in labels:
        s = ""
        for c in l:
            if style == 1:
                s += "\\%03d" % c
            elif style == 2 and 0x21 <= c <= 0x7E and not (0x30 <= c <= 0x39):
                s += "\\" + chr(c)
            elif c in b'"().;\\@$ ' or c <= 0x20 or c >= 0x7F:
                s += "\\%03d" % c
            else:
                s += chr(c)
        out.append(s)
    return ".".join(out)


def ref_parse_text(s: str):
    """RFC 1035 5.1 name syntax.  Returns a list of labels (ending in b'' when the
    text is absolute) or None when the text is malformed."""
    if s == "@":
        return []
    if s == ".":
        return [b""]
    if s == "":
        return []
    labels = []
    cur = bytearray()
    i = 0
    n = len(s)
    just_closed = False
    while i < n:
        ch = s[i]
        if ord(ch) > 0x7F:
            return None
        if ch == "\\":
            if i + 1 >= n:
                return None
            d = s[i + 1]
            if d.isdigit():
                if i + 3 >= n or not (s[i + 2].isdigit() and s[i + 3].isdigit()):
                    return None
                v = int(s[i + 1:i + 4])
                if v > 255:
                    return None
                cur.append(v)
                i += 4
            else:
                if ord(d) > 0x7F:
                    return None
                cur.append(ord(d))
                i += 2
            just_closed = False
        elif ch == ".":
            if len(cur) == 0:
                return None
            labels.append(bytes(cur))
            cur = bytearray()
            just_closed = True
            i += 1
        else:
            cur.append(ord(ch))
            just_closed = False
            i += 1
    if len(cur) > 0:
        labels.append(bytes(cur))
    elif just_closed:
        labels.append(b"")
    return labels


def ref_decode(buf: bytes, start: int):
    """Returns ("ok", labels, consumed, targets, overlap) or ("err", why).  overlap: some octet
    reached through a pointer lies at or beyond the name's start (a layout no encoder produces;
    the property text is silent about the consumed length there)."""
    n = len(buf)
    if start < 0 or start > n:
        return ("err", "start")
    pos = start
    limit = start
    consumed = None
    labels = []
    targets = []
    overlap = False
    while True:
        if pos >= n:
            return ("err", "truncated")
        c = buf[pos]
        if c == 0:
            if consumed is None:
                consumed = pos + 1 - start
            elif pos >= start:
                overlap = True
            labels.append(b"")
            break
        if c < 64:
            if pos + 1 + c > n:
                return ("err", "truncated label")
            labels.append(bytes(buf[pos + 1:pos + 1 + c]))
            pos += 1 + c
            if consumed is not None and pos > start:
                overlap = True
        elif c >= 192:
            if pos + 1 >= n:
                return ("err", "truncated pointer")
            t = ((c & 0x3F) << 8) | buf[pos + 1]
            if consumed is None:
                consumed = pos + 2 - start
            elif pos + 2 > start:
                overlap = True
            if t >= limit:
                return ("err", "pointer not strictly earlier")
            limit = t
            targets.append(t)
            pos = t
        else:
            return ("err", "label type")
    if not ref_valid(labels):
        return ("err", "too long")
    return ("ok", labels, consumed, targets, overlap)


# ----------------------------------------------------------------- instrumented parser
class _Hang(Exception):
    pass


class _CountingParser(dns.wire.Parser):
    """The real parser; only counts reads and records seek targets."""

    def __init__(self, wire, current=0):
        self._reads = 0
        self._limit = 4 * len(wire) + 1024
        self.seeks = []
        super().__init__(wire, current)
        self.seeks = []

    def get_bytes(self, size):
        self._reads += 1
        if self._reads > self._limit:
            raise _Hang()
        return super().get_bytes(size)

    def seek(self, where):
        self.seeks.append(where)
        super().seek(where)


# ------------------------------------------------------------------------------ helpers
def _mk(labels):
    return dns.name.Name(list(labels))


def _exc(e) -> str:
    t = type(e)
    m = t.__module__
    return t.__name__ if m == "builtins" else f"{m}.{t.__name__}"


def _is_dns_exc(e) -> bool:
    return isinstance(e, dns.exception.DNSException)


def _labels(x):
    return [bytes(l) for l in x]


F = list  # failures: list of (clause, what, sig)


# ------------------------------------------------------------------------- text checks
def _chk_text(a) -> F:
    """to_text -> from_text (str and bytes), independent parse of the text."""
    labels = _labels(a["labels"])
    out = []
    cl = "C01.text_roundtrip"
    try:
        n = _mk(labels)
    except Exception as e:
        return [("C01.limits", f"legal name rejected by Name(): {_exc(e)}",
                 {"site": "dns.name.Name.__init__", "class": "legal name rejected", "exc": _exc(e)})]
    try:
        t = n.to_text()
    except Exception as e:
        return [(cl, f"to_text raised {_exc(e)}", {"site": "dns.name.Name.to_text", "exc": _exc(e)})]
    if not isinstance(t, str):
        return [(cl, "to_text did not return str", {"site": "dns.name.Name.to_text", "class": "type"})]
    rp = ref_parse_text(t)
    if rp != labels:
        out.append((cl, f"to_text() gives {t!r}, which reads as {rp!r} under RFC 1035 5.1, not the name's labels",
                    {"site": "dns.name.Name.to_text", "class": "text is not a spelling of the labels"}))
    for form in ("str", "bytes"):
        try:
            arg = t if form == "str" else t.encode("latin-1")
        except Exception:
            continue
        try:
            m = dns.name.from_text(arg, None)
        except Exception as e:
            out.append((cl, f"from_text(to_text()) raised {_exc(e)} for text {t!r}",
                        {"site": "dns.name.from_text", "class": "round trip raises", "exc": _exc(e), "form": form}))
            continue
        if list(m.labels) != labels:
            out.append((cl, f"from_text(to_text()).labels == {list(m.labels)!r} != {labels!r} (text {t!r})",
                        {"site": "dns.name.from_text", "class": "round trip labels differ", "form": form}))
    # omit_final_dot + origin root restores an absolute name
    if ref_is_abs(labels) and len(labels) > 1:
        try:
            t2 = n.to_text(omit_final_dot=True)
            m = dns.name.from_text(t2, dns.name.root)
            if list(m.labels) != labels:
                out.append((cl, f"from_text(to_text(omit_final_dot=True), root) gives {list(m.labels)!r}",
                            {"site": "dns.name.Name.to_text", "class": "omit_final_dot round trip"}))
        except Exception as e:
            out.append((cl, f"omit_final_dot round trip raised {_exc(e)}",
                        {"site": "dns.name.Name.to_text", "class": "omit_final_dot round trip", "exc": _exc(e)}))
    return out


def _chk_text_origin(a) -> F:
    """relativity choices: text of the name relativized to its own suffix parses back
    with that origin; relative names get the origin appended."""
    labels = _labels(a["labels"])
    origin = _labels(a["origin"])
    cl = "C01.text_roundtrip"
    out = []
    try:
        n = _mk(labels)
        o = _mk(origin)
    except Exception as e:
        return [("C01.limits", f"legal name rejected by Name(): {_exc(e)}",
                 {"site": "dns.name.Name.__init__", "class": "legal name rejected", "exc": _exc(e)})]
    # expected result of parsing n's text with origin o
    if ref_is_abs(labels):
        exp = labels
    else:
        exp = labels + origin
    try:
        m = dns.name.from_text(n.to_text(), o)
        got = list(m.labels)
        ok = got == exp
    except Exception as e:
        got = _exc(e)
        ok = not ref_valid(exp)
    if ref_valid(exp) and not ok:
        out.append((cl, f"from_text(to_text(), origin) gives {got!r}, expected {exp!r}",
                    {"site": "dns.name.from_text", "class": "origin not appended exactly"}))
    if not ref_valid(exp) and not isinstance(got, str):
        out.append(("C01.limits", f"from_text with origin returned an illegal name {got!r}",
                    {"site": "dns.name.from_text", "class": "illegal name returned"}))
    # relativize through the style, then parse with the origin
    if ref_is_abs(labels) and ref_is_abs(origin) and ref_is_subdomain(labels, origin):
        exp2 = labels[: len(labels) - len(origin)] + origin
        try:
            t = n.to_styled_text(dns.name.NameStyle(origin=o, relativize=True))
            m = dns.name.from_text(t, o)
            if list(m.labels) != exp2:
                out.append((cl, f"relativized text {t!r} parsed with the origin gives {list(m.labels)!r}, expected {exp2!r}",
                            {"site": "dns.name.Name.to_styled_text", "class": "relativized text round trip"}))
        except Exception as e:
            out.append((cl, f"relativized text round trip raised {_exc(e)}",
                        {"site": "dns.name.Name.to_styled_text", "class": "relativized text round trip", "exc": _exc(e)}))
    return out


def _chk_text_decode(a) -> F:
    """from_text on an independently spelled text (\\DDD / \\X forms)."""
    text = a["text"]
    cl = "C01.text_decode_oracle"
    exp = ref_parse_text(text)
    legal = exp is not None and ref_valid(exp)
    out = []
    for form in a.get("forms", ("str",)):
        arg = text if form == "str" else text.encode("ascii")
        try:
            m = dns.name.from_text(arg, None)
            got = list(m.labels)
            raised = None
        except Exception as e:
            raised = e
            got = None
        if legal:
            if raised is not None:
                out.append((cl, f"from_text({text!r}) raised {_exc(raised)}; RFC 1035 reading is {exp!r}",
                            {"site": "dns.name.from_text", "class": "legal text rejected", "exc": _exc(raised)}))
            elif got != exp:
                out.append((cl, f"from_text({text!r}).labels == {got!r}, RFC 1035 reading is {exp!r}",
                            {"site": "dns.name.from_text", "class": "decoded labels differ from RFC 1035 reading"}))
        else:
            if raised is None:
                if not ref_valid(got):
                    out.append(("C01.limits", f"from_text({text!r}) returned an illegal name",
                                {"site": "dns.name.from_text", "class": "illegal name returned"}))
                else:
                    out.append((cl, f"from_text({text!r}) accepted text that denotes no legal name: {got!r}",
                                {"site": "dns.name.from_text", "class": "malformed text accepted",
                                 "why": a.get("why", "")}))
            elif not _is_dns_exc(raised):
                out.append(("C01.text_reject", f"from_text({text!r}) raised {_exc(raised)} instead of a dns.exception error",
                            {"site": "dns.name.from_text", "exc": _exc(raised), "class": a.get("why", "malformed text")}))
    return out


def _chk_unicode_ascii(a) -> F:
    """from_unicode's escape state machine on all-ASCII labels (IDNA codecs are identity there)."""
    labels = _labels(a["labels"])
    cl = "C01.text_roundtrip"
    out = []
    n = _mk(labels)
    t = n.to_text()
    for cname in ("default", "IDNA_2003_Practical"):
        codec = None if cname == "default" else dns.name.IDNA_2003_Practical
        try:
            m = dns.name.from_unicode(t, None, codec)
            if list(m.labels) != labels:
                out.append((cl, f"from_unicode(to_text()) gives {list(m.labels)!r} for {labels!r}",
                            {"site": "dns.name.from_unicode", "class": "ascii round trip labels differ", "codec": cname}))
        except Exception as e:
            out.append((cl, f"from_unicode(to_text()) raised {_exc(e)} for {labels!r}",
                        {"site": "dns.name.from_unicode", "class": "ascii round trip raises", "exc": _exc(e), "codec": cname}))
    return out


# -------------------------------------------------------------------- tokenizer checks
def _model_choose(parsed, origin, relativize):
    """choose_relativity as documented, on label lists."""
    if origin is None or len(origin) == 0:
        return parsed
    if relativize:
        if ref_is_subdomain(parsed, origin):
            return parsed[: len(parsed) - len(origin)]
        return parsed
    if not ref_is_abs(parsed):
        return parsed + origin
    return parsed


def _chk_tok(a) -> F:
    labels = _labels(a["labels"])
    origin = None if a.get("origin") is None else _labels(a["origin"])
    relativize = bool(a.get("relativize", False))
    pre = a.get("pre", "")
    post = a.get("post", "")
    cl = "C01.tokenizer_roundtrip"
    n = _mk(labels)
    o = None if origin is None else _mk(origin)
    t = n.to_text()
    # expected
    if ref_is_abs(labels) or origin is None:
        parsed = labels
    else:
        parsed = labels + origin
    if not ref_valid(parsed):
        return []
    exp = _model_choose(parsed, origin, relativize)
    src = pre + t + post
    try:
        tok = dns.tokenizer.Tokenizer(src)
        m = tok.get_name(o, relativize)
    except Exception as e:
        return [(cl, f"Tokenizer({src!r}).get_name raised {_exc(e)}",
                 {"site": "dns.tokenizer.Tokenizer.get_name", "class": "round trip raises", "exc": _exc(e)})]
    if list(m.labels) != exp:
        return [(cl, f"Tokenizer({src!r}).get_name(origin={origin!r}, relativize={relativize}) gives "
                     f"{list(m.labels)!r}, expected {exp!r}",
                 {"site": "dns.tokenizer.Tokenizer.get_name", "class": "round trip labels differ"})]
    # the same through get() + as_name()
    try:
        tok = dns.tokenizer.Tokenizer(src)
        token = tok.get()
        m2 = tok.as_name(token, o, relativize)
        if list(m2.labels) != exp:
            return [(cl, f"as_name(get()) gives {list(m2.labels)!r}, expected {exp!r}",
                     {"site": "dns.tokenizer.Tokenizer.as_name", "class": "round trip labels differ"})]
        if post.strip(" \t()") and post.strip(" \t()")[0] not in ";\n":
            # the next token must be the trailing identifier, i.e. the name did not swallow it
            nxt = tok.get()
            want = [w for w in post.replace("(", " ").replace(")", " ").split()][0]
            if not (nxt.is_identifier() and nxt.value == want):
                return [(cl, f"token after the name is {nxt.value!r}, expected {want!r} (source {src!r})",
                         {"site": "dns.tokenizer.Tokenizer.get", "class": "name token boundary"})]
    except Exception as e:
        return [(cl, f"get()/as_name raised {_exc(e)} on {src!r}",
                 {"site": "dns.tokenizer.Tokenizer.as_name", "class": "round trip raises", "exc": _exc(e)})]
    return []


# ------------------------------------------------------------------------- wire checks
def _chk_wire(a) -> F:
    labels = _labels(a["labels"])
    origin = None if a.get("origin") is None else _labels(a["origin"])
    prefix = bytes(a.get("prefix", b""))
    cl = "C01.wire_roundtrip"
    out = []
    try:
        n = _mk(labels)
        o = None if origin is None else _mk(origin)
    except Exception as e:
        return [("C01.limits", f"legal name rejected by Name(): {_exc(e)}",
                 {"site": "dns.name.Name.__init__", "class": "legal name rejected", "exc": _exc(e)})]
    if ref_is_abs(labels):
        full = labels
    elif origin is not None and ref_is_abs(origin):
        full = labels + origin
    else:
        full = None
    # ---- file=None path
    try:
        w = n.to_wire(origin=o)
        raised = None
    except Exception as e:
        w = None
        raised = e
    if full is None:
        if raised is None:
            out.append((cl, f"to_wire() of a relative name without an absolute origin returned {w!r}",
                        {"site": "dns.name.Name.to_wire", "class": "relative name encoded without origin"}))
        return out
    if not ref_valid(full):
        if raised is None:
            out.append(("C01.limits", f"to_wire(origin=...) returned an encoded name of {len(w)} octets (> 255) instead of raising",
                        {"site": "dns.name.Name.to_wire", "class": "file=None: relative name + origin over 255 octets is encoded, not rejected"}))
        # the file path must raise too
        try:
            f = io.BytesIO()
            n.to_wire(f, None, o)
            out.append(("C01.limits", f"to_wire(file, origin=...) wrote an encoded name of {len(f.getvalue())} octets (> 255)",
                        {"site": "dns.name.Name.to_wire", "class": "file: relative name + origin over 255 octets is encoded, not rejected"}))
        except Exception:
            pass
        return out
    exp = ref_wire(full)
    if raised is not None:
        out.append((cl, f"to_wire() raised {_exc(raised)} for a legal name",
                    {"site": "dns.name.Name.to_wire", "class": "legal name not encoded", "exc": _exc(raised)}))
        return out
    if w != exp:
        out.append((cl, f"to_wire() == {w!r}, RFC 1035 encoding is {exp!r}",
                    {"site": "dns.name.Name.to_wire", "class": "file=None: bytes differ from RFC 1035 encoding"}))
    # ---- file path without compression
    try:
        f = io.BytesIO()
        f.write(prefix)
        r = n.to_wire(f, None, o)
        w2 = f.getvalue()[len(prefix):]
        if w2 != exp or r is not None:
            out.append((cl, f"to_wire(file) wrote {w2!r}, RFC 1035 encoding is {exp!r}",
                        {"site": "dns.name.Name.to_wire", "class": "file: bytes differ from RFC 1035 encoding"}))
    except Exception as e:
        out.append((cl, f"to_wire(file) raised {_exc(e)} for a legal name",
                    {"site": "dns.name.Name.to_wire", "class": "file: legal name not encoded", "exc": _exc(e)}))
    # ---- decode the library's own bytes (and the reference bytes) at an offset
    for src, which in ((w, "own"), (exp, "ref")):
        if src is None or (which == "ref" and src == w):
            continue
        buf = prefix + src
        out.extend(_decode_compare(buf, len(prefix), cl, expect_labels=full, expect_consumed=len(src)))
    return out


def _decode_compare(buf, start, cl, expect_labels=None, expect_consumed=None) -> F:
    """Decode buf at start with the instrumented real parser and with dns.name.from_wire,
    compare against the reference decoder (and against expect_labels when given)."""
    out = []
    ref = ref_decode(buf, start)
    p = None
    try:
        p = _CountingParser(buf, start)
        nm = p.get_name()
        got = ("ok", list(nm.labels), p.current - start)
    except _Hang:
        return [("C01.wire_decode_terminates",
                 f"decoding did not finish within {4 * len(buf) + 1024} reads (buffer of {len(buf)} octets, offset {start})",
                 {"site": "dns.name.from_wire_parser", "class": "decoder does not terminate"})]
    except Exception as e:
        got = ("err", e)
    # seek trace: strictly earlier than the start and than every previous target
    if p is not None:
        lim = start
        for t in p.seeks:
            if t >= lim:
                out.append(("C01.wire_decode_terminates",
                            f"decoder followed a pointer to offset {t}, not strictly below {lim} (name at {start})",
                            {"site": "dns.name.from_wire_parser", "class": "pointer followed to a not strictly earlier offset"}))
                break
            lim = t
    if ref[0] == "ok":
        if got[0] != "ok":
            out.append((cl, f"decoder raised {_exc(got[1])} on a well-formed name (reference reads {ref[1]!r})",
                        {"site": "dns.name.from_wire_parser", "class": "well-formed wire rejected", "exc": _exc(got[1])}))
            return out
        if got[1] != ref[1]:
            out.append((cl, f"decoded labels {got[1]!r} differ from the reference decoder's {ref[1]!r}",
                        {"site": "dns.name.from_wire_parser", "class": "decoded labels differ from reference"}))
        if got[2] != ref[2] and not ref[4]:
            out.append((cl, f"decoder consumed {got[2]} octets, the name occupies {ref[2]}",
                        {"site": "dns.name.from_wire_parser", "class": "consumed length wrong"}))
        if not ref_valid(got[1]):
            out.append(("C01.limits", "wire decoding returned an illegal name",
                        {"site": "dns.name.from_wire_parser", "class": "illegal name returned"}))
        # plain from_wire
        try:
            nm2, used = dns.name.from_wire(buf, start)
            if list(nm2.labels) != ref[1] or (used != ref[2] and not ref[4]):
                out.append((cl, f"from_wire gives ({list(nm2.labels)!r}, {used}), reference ({ref[1]!r}, {ref[2]})",
                            {"site": "dns.name.from_wire", "class": "decoded labels/length differ from reference"}))
        except Exception as e:
            out.append((cl, f"from_wire raised {_exc(e)} on a well-formed name",
                        {"site": "dns.name.from_wire", "class": "well-formed wire rejected", "exc": _exc(e)}))
    else:
        if got[0] == "ok":
            if not ref_valid(got[1]):
                out.append(("C01.limits", f"wire decoding returned an illegal name ({len(ref_wire(got[1]))} octets)",
                            {"site": "dns.name.from_wire_parser", "class": "illegal name returned"}))
            else:
                out.append(("C01.wire_decode_terminates",
                            f"decoder accepted a malformed name ({ref[1]}) and returned {got[1]!r}",
                            {"site": "dns.name.from_wire_parser", "class": "malformed wire accepted", "why": ref[1]}))
    if expect_labels is not None and ref[0] == "ok":
        if ref[1] != expect_labels or (expect_consumed is not None and ref[2] != expect_consumed):
            out.append((cl, f"independent decoder reads {ref[1]!r} (consumed {ref[2]}), expected {expect_labels!r}",
                        {"site": "dns.name.Name.to_wire", "class": "encoded bytes do not decode to the name"}))
    elif expect_labels is not None:
        out.append((cl, f"independent decoder rejects the encoded name: {ref[1]}",
                    {"site": "dns.name.Name.to_wire", "class": "encoded bytes do not decode to the name"}))
    return out


def _chk_decode(a) -> F:
    return _decode_compare(bytes(a["buf"]), int(a["start"]), "C01.wire_decode_oracle")


def _chk_compress(a) -> F:
    """A sequence of names written into one file with one compression table."""
    names = [_labels(x) for x in a["names"]]
    origin = None if a.get("origin") is None else _labels(a["origin"])
    pad = int(a.get("pad", 0))
    cl = "C01.compressed_roundtrip"
    out = []
    o = None if origin is None else _mk(origin)
    f = io.BytesIO()
    f.write(b"\xee" * pad)
    table = {}
    starts = []
    fulls = []
    for labels in names:
        n = _mk(labels)
        full = labels if ref_is_abs(labels) else labels + (origin or [])
        if not (ref_is_abs(full) and ref_valid(full)):
            continue
        starts.append(f.tell())
        fulls.append(full)
        try:
            n.to_wire(f, table, o)
        except Exception as e:
            out.append((cl, f"to_wire(file, compress) raised {_exc(e)} at offset {starts[-1]}",
                        {"site": "dns.name.Name.to_wire", "class": "compressed encode raises", "exc": _exc(e)}))
            return out
    buf = f.getvalue()
    # table discipline
    for k, pos in table.items():
        if not (0 <= pos <= 0x3FFF):
            out.append((cl, f"compression table holds offset {pos:#x} > 0x3FFF",
                        {"site": "dns.name.Name.to_wire", "class": "table offset beyond 14 bits"}))
            break
        if len(k.labels) <= 1:
            out.append((cl, "compression table holds the root name",
                        {"site": "dns.name.Name.to_wire", "class": "root in table"}))
            break
        r = ref_decode(buf, pos)
        if r[0] != "ok" or not ref_eqci(r[1], list(k.labels)):
            out.append((cl, f"table entry {k!r} -> {pos} does not decode to that name ({r[1]!r})",
                        {"site": "dns.name.Name.to_wire", "class": "table entry does not point at its name"}))
            break
    for st, full in zip(starts, fulls):
        r = ref_decode(buf, st)
        if r[0] != "ok":
            out.append((cl, f"independent decoder rejects the compressed name at {st}: {r[1]}",
                        {"site": "dns.name.Name.to_wire", "class": "compressed bytes malformed", "why": r[1]}))
            continue
        if r[1] != full:
            if ref_eqci(r[1], full):
                out.append((cl, f"compressed name decodes to {r[1]!r}: equal but not byte-identical to {full!r}",
                            {"site": "dns.name.Name.to_wire", "class": "compression suffix matched case-insensitively, letter case of labels not preserved"}))
            else:
                out.append((cl, f"compressed name decodes to {r[1]!r}, expected {full!r}",
                            {"site": "dns.name.Name.to_wire", "class": "compressed bytes decode to a different name"}))
            continue
        # the library's decoder must agree with the reference on these bytes
        for c, w, s in _decode_compare(buf, st, cl):
            out.append((c, w, s))
    return out


# ------------------------------------------------------------------------ limit checks
def _valid_or_raise(opname, site, thunk, expect):
    """expect: list of labels (the legal result), "INVALID" (must raise) or None (unknown: only
    validity of whatever is returned is checked)."""
    cl = "C01.limits"
    try:
        r = thunk()
    except Exception as e:
        if isinstance(expect, list):
            return [(cl, f"{opname} raised {_exc(e)} although the result {expect!r} is a legal name",
                     {"site": site, "class": "legal result rejected", "exc": _exc(e)})]
        return []
    rs = r if isinstance(r, (tuple, list)) else (r,)
    for x in rs:
        if isinstance(x, dns.name.Name) and not ref_valid(list(x.labels)):
            lens = [len(l) for l in x.labels]
            return [(cl, f"{opname} returned an illegal name (label lengths {lens}, encoded {sum(lens) + len(lens)})",
                     {"site": site, "class": "illegal name returned"})]
    if expect == "INVALID":
        return [(cl, f"{opname} returned instead of raising",
                 {"site": site, "class": "illegal name returned"})]
    if isinstance(expect, list):
        x = rs[0]
        if isinstance(x, dns.name.Name) and list(x.labels) != expect:
            return [(cl, f"{opname} returned {list(x.labels)!r}, expected {expect!r}",
                     {"site": site, "class": "wrong result"})]
    return []


def _chk_limits(a) -> F:
    """All name-producing operations on one label sequence (possibly illegal) split at k."""
    labels = _labels(a["labels"])
    k = int(a.get("split", 0))
    out = []
    legal = ref_valid(labels)
    exp = labels if legal else "INVALID"
    out += _valid_or_raise("Name(labels)", "dns.name.Name.__init__", lambda: dns.name.Name(labels), exp)
    out += _valid_or_raise("Name(str labels)", "dns.name.Name.__init__",
                           lambda: dns.name.Name([l.decode("latin-1") if max(l, default=0) < 128 else l for l in labels]), exp)

    def setstate():
        x = dns.name.Name.__new__(dns.name.Name)
        x.__setstate__({"labels": tuple(labels)})
        return x

    out += _valid_or_raise("Name.__setstate__", "dns.name.Name.__setstate__", setstate, exp)
    # from_text of an independent spelling
    if all(len(l) > 0 for l in labels[:-1]) and labels and not (len(labels) == 1 and labels[0] == b""):
        txt = ref_emit_text(labels, a.get("style", 0))
        if ref_parse_text(txt) == labels:
            out += _valid_or_raise(f"from_text(<{len(txt)} chars>)", "dns.name.from_text",
                                   lambda: dns.name.from_text(txt, None), exp)
            out += _valid_or_raise(f"Tokenizer.get_name(<{len(txt)} chars>)", "dns.tokenizer.Tokenizer.get_name",
                                   lambda: dns.tokenizer.Tokenizer(txt + " x").get_name(None), exp)
    # from_wire of the reference encoding (only expressible when labels <= 63 and absolute)
    if ref_is_abs(labels) and all(0 < len(l) <= 63 for l in labels[:-1]):
        w = ref_wire(labels)
        out += _valid_or_raise("from_wire(ref encoding)", "dns.name.from_wire_parser",
                               lambda: dns.name.from_wire(w, 0)[0], exp)
        # the same name reached through a pointer: [suffix][prefix + pointer]
        if 0 < k < len(labels) - 1:
            suf = ref_wire(labels[k:])
            pre = ref_wire(labels[:k]) + b"\xc0\x00"
            buf = suf + pre
            out += _valid_or_raise("from_wire(prefix + pointer to suffix)", "dns.name.from_wire_parser",
                                   lambda: dns.name.from_wire(buf, len(suf))[0], exp)
    # operations on the two halves
    a_l, b_l = labels[:k], labels[k:]
    if ref_valid(a_l) and ref_valid(b_l):
        na, nb = dns.name.Name(a_l), dns.name.Name(b_l)
        if ref_is_abs(a_l) and len(b_l) > 0:
            cexp = "INVALID"
        else:
            cexp = exp
        out += _valid_or_raise("concatenate", "dns.name.Name.concatenate", lambda: na.concatenate(nb), cexp)
        out += _valid_or_raise("__add__", "dns.name.Name.concatenate", lambda: na + nb, cexp)
        if not ref_is_abs(a_l):
            out += _valid_or_raise("derelativize", "dns.name.Name.derelativize", lambda: na.derelativize(nb), exp)
            if ref_is_abs(b_l):
                out += _valid_or_raise("choose_relativity(origin, False)", "dns.name.Name.choose_relativity",
                                       lambda: na.choose_relativity(nb, False), exp)
                out += _valid_or_raise("from_text(text, origin)", "dns.name.from_text",
                                       lambda: dns.name.from_text(na.to_text(), nb), exp if len(a_l) else b_l)
                # to_wire with an origin: an over-long result must raise, never be encoded
                for c, w, s in _chk_wire({"labels": a_l, "origin": b_l}):
                    out.append((c, w, s))
    if legal:
        n = dns.name.Name(labels)
        out += _valid_or_raise("copy", "dns.name.Name.__copy__", lambda: __import__("copy").copy(n), labels)
        out += _valid_or_raise("deepcopy", "dns.name.Name.__deepcopy__", lambda: __import__("copy").deepcopy(n), labels)
        out += _valid_or_raise("pickle", "dns.name.Name.__setstate__", lambda: pickle.loads(pickle.dumps(n)), labels)
        out += _valid_or_raise("canonicalize", "dns.name.Name.canonicalize", lambda: n.canonicalize(),
                               [lower(l) for l in labels])
        if 0 <= k <= len(labels):
            def sp():
                p, s = n.split(len(labels) - k)
                if list(p.labels) != labels[:k] or list(s.labels) != labels[k:]:
                    raise AssertionError("split parts wrong")
                return (p, s)
            out += _valid_or_raise("split", "dns.name.Name.split", sp, None)
            if ref_is_abs(labels):
                org = dns.name.Name(labels[k:])
                out += _valid_or_raise("relativize", "dns.name.Name.relativize", lambda: n.relativize(org), labels[:k])
        if len(labels) > 0 and labels != [b""]:
            out += _valid_or_raise("parent", "dns.name.Name.parent", lambda: n.parent(), labels[1:])
        if ref_is_abs(labels):
            for org_l in ([b""], labels[k:] if 0 <= k < len(labels) else [b""]):
                org = dns.name.Name(org_l)
                for pok in (True, False):
                    out += _valid_or_raise(f"successor(prefix_ok={pok})", "dns.name._absolute_successor",
                                           lambda: n.successor(org, pok), None)
                    out += _valid_or_raise(f"predecessor(prefix_ok={pok})", "dns.name._absolute_predecessor",
                                           lambda: n.predecessor(org, pok), None)
                # relative form
                if len(org_l) < len(labels):
                    rel = dns.name.Name(labels[: len(labels) - len(org_l)])
                    out += _valid_or_raise("successor(relative)", "dns.name._absolute_successor",
                                           lambda: rel.successor(org), None)
                    out += _valid_or_raise("predecessor(relative)", "dns.name._absolute_predecessor",
                                           lambda: rel.predecessor(org), None)
    return out


_KINDS = {
    "text": _chk_text,
    "text_origin": _chk_text_origin,
    "text_decode": _chk_text_decode,
    "unicode_ascii": _chk_unicode_ascii,
    "tok": _chk_tok,
    "wire": _chk_wire,
    "decode": _chk_decode,
    "compress": _chk_compress,
    "limits": _chk_limits,
}


# ------------------------------------------------------------------------- generators
_INTERESTING = [0, 1, 9, 10, 13, 0x20, 0x21, ord('"'), ord("$"), ord("("), ord(")"), ord("*"), ord("-"), ord("."),
                ord("0"), ord("9"), ord(";"), ord("@"), ord("A"), ord("Z"), ord("["), ord("\\"), ord("]"), ord("_"),
                ord("`"), ord("a"), ord("z"), ord("{"), 0x7E, 0x7F, 0x80, 0xC0, 0xFE, 0xFF]


def _rand_label(rng, maxlen=63):
    r = rng.random()
    if r < 0.35:
        ln = rng.randint(1, min(4, maxlen))
    elif r < 0.5:
        ln = min(maxlen, rng.choice([61, 62, 63]))
    else:
        ln = rng.randint(1, maxlen)
    mode = rng.random()
    if mode < 0.4:
        return bytes(rng.choice(_INTERESTING) for _ in range(ln))
    if mode < 0.7:
        return bytes(rng.randrange(256) for _ in range(ln))
    return bytes(rng.choice(b"abcXYZ019-_") for _ in range(ln))


def _rand_name(rng, absolute=None, budget=255):
    """A legal random name; sometimes filled up to the 255 limit."""
    if absolute is None:
        absolute = rng.random() < 0.6
    room = budget - (1 if absolute else 0)
    labels = []
    fill = rng.random() < 0.25
    nl = rng.randint(0, 6)
    while room >= 2 and (fill or len(labels) < nl):
        l = _rand_label(rng, min(63, room - 1))
        labels.append(l)
        room -= len(l) + 1
        if len(labels) > 130:
            break
    if fill and room >= 2:
        labels.append(bytes([rng.randrange(256)]) * (min(63, room - 1)))
    if absolute:
        labels.append(b"")
    return labels


_VOCAB = [b"example", b"Example", b"EXAMPLE", b"com", b"COM", b"www", b"WWW", b"foo", b"FOO", b"Foo", b"a", b"A",
          b"a.b", b"\x00", b"\xff", b"@", b"xn--a", b"z" * 63, b"Z" * 63]


def _run(R, clause, kind, args, key=None, nontrivial=True, sample=False):
    """Evaluate one case, record it and its failures."""
    try:
        fails = _KINDS[kind](args)
    except Exception as e:  # harness problem, never a violation
        import traceback
        if len(R.notes) < 20:
            R.note(f"harness error in {kind}: {traceback.format_exc(limit=4)}")
        R.case(clause, key=key, nontrivial=False)
        return
    R.case(clause, key=key if key is not None else repr(args), nontrivial=nontrivial)
    if sample:
        R.sample(clause, {"kind": kind, **args})
    for c, what, sig in fails:
        R.violation(c, what, sig=sig, replay={"kind": kind, "args": args})


def replay(data):
    kind = data["kind"]
    args = data["args"]
    fails = _KINDS[kind](args)
    if fails:
        return (True, "; ".join(f"{c}: {w}" for c, w, _ in fails[:3]))
    return (False, "no clause fails on this input")


# --------------------------------------------------------------------------------- run
def run(R):
    rng = R.rng
    quick = R.quick

    # ---- 1. exhaustive short labels ---------------------------------------------------
    def short_labels():
        yield b""
        for a in range(256):
            yield bytes([a])
        for a in range(256):
            for b in range(256):
                yield bytes([a, b])

    idx = 0
    for lab in short_labels():
        idx += 1
        if (idx & 0x3FF) == 0 and R.deadline():
            R.note("deadline reached in exhaustive short labels")
            break
        full_paths = (not quick) or len(lab) <= 1 or (idx % 4 == 0)
        forms = []
        if lab == b"":
            forms = [[], [b""]]
        else:
            forms = [[lab, b""]]
            if full_paths:
                forms.append([lab])
        for labels in forms:
            smp = idx in (2, 40000)
            _run(R, "C01.text_roundtrip", "text", {"labels": labels}, sample=smp)
            if ref_is_abs(labels):
                _run(R, "C01.wire_roundtrip", "wire", {"labels": labels}, sample=smp)
            elif full_paths:
                _run(R, "C01.wire_roundtrip", "wire", {"labels": labels, "origin": [b"o", b""], "prefix": b"\x00\xc0"})
                _run(R, "C01.wire_roundtrip", "wire", {"labels": labels})
            if full_paths:
                _run(R, "C01.tokenizer_roundtrip", "tok", {"labels": labels, "post": " IN"}, sample=smp)

    # ---- 2. every octet inside a multi-label name, every path and relativity choice ----
    org = [b"Org", b""]
    posts = ["", "\n", " x", "\tx", ";c", " ( x )", ")"]
    for c in range(256):
        if R.deadline():
            break
        for labels in ([b"a", bytes([c]), b"b" + bytes([c]) + b"c", b""], [bytes([c]) * 3, b"x"],
                       [bytes([c]), b"Org", b""]):
            _run(R, "C01.text_roundtrip", "text", {"labels": labels})
            _run(R, "C01.text_roundtrip", "text_origin", {"labels": labels, "origin": org})
            _run(R, "C01.text_roundtrip", "text_origin", {"labels": labels, "origin": [b"org", b""]})
            _run(R, "C01.wire_roundtrip", "wire", {"labels": labels, "origin": org, "prefix": bytes([c]) * (c % 5)})
            for rel in (False, True):
                for o in (None, org):
                    _run(R, "C01.tokenizer_roundtrip", "tok",
                         {"labels": labels, "origin": o, "relativize": rel, "pre": " " * (c % 2),
                          "post": posts[c % len(posts)]})
            if c < 128:
                _run(R, "C01.text_roundtrip", "unicode_ascii", {"labels": labels})
    for p in posts:
        for labels in ([], [b""], [b"@"], [b"@", b""], [b"a", b""]):
            for o in (None, org):
                _run(R, "C01.tokenizer_roundtrip", "tok", {"labels": labels, "origin": o, "post": p}, sample=True)

    # ---- 3. from_text against the RFC 1035 reading: all \DDD, all \X ------------------
    for v in range(1000):
        why = "decimal escape > 255" if v > 255 else ""
        _run(R, "C01.text_reject" if v > 255 else "C01.text_decode_oracle", "text_decode",
             {"text": "a\\%03d" % v + "b.", "why": why, "forms": ["str", "bytes"]}, sample=v in (65, 256))
    for c in range(0x21, 0x7F):
        _run(R, "C01.text_decode_oracle", "text_decode", {"text": "x\\" + chr(c) + "y", "forms": ["str", "bytes"]})
    for text, why in (("a\\", "dangling escape"), ("a\\1", "short decimal escape"), ("a\\12", "short decimal escape"),
                      ("a\\1x2", "bad decimal escape"), ("a\\12x", "bad decimal escape"), ("a..b", "empty label"),
                      (".a", "empty label"), ("..", "empty label"), ("a\\..", "")):
        _run(R, "C01.text_reject" if why else "C01.text_decode_oracle", "text_decode",
             {"text": text, "why": why, "forms": ["str", "bytes"]})

    # ---- 4. limits: every length vector near the boundaries ----------------------------
    lens_alpha = (1, 2, 61, 62, 63, 64)
    vecs = []

    def rec(prefix, total):
        if len(prefix) >= 1 and 250 <= total + 1 <= 260:
            vecs.append(list(prefix))
        if len(prefix) == 5:
            return
        for ln in lens_alpha:
            if total + ln + 1 <= 262:
                rec(prefix + [ln], total + ln + 1)

    rec([], 0)
    extra = [[64], [63], [64, 1], [1, 64], [63, 64, 63], [0, 1], [1, 0, 1], [63, 63, 63, 61], [63, 63, 63, 62],
             [63, 63, 63, 63], [1] * 127, [1] * 128, [2] * 85, [1] * 126 + [2], [1] * 126 + [3]]
    if quick:
        rng.shuffle(vecs)
        vecs = vecs[:260]
    fillers = [0x61, 0xFF, 0x5A, 0x00, 0x2E]
    ci = 0
    for vec in extra + vecs:
        if R.deadline():
            break
        for absolute in (True, False):
            ci += 1
            fill = fillers[ci % len(fillers)]
            labels = [bytes([fill]) * ln for ln in vec] + ([b""] if absolute else [])
            for k in sorted({0, 1, len(labels) - 1, len(labels) - 2} & set(range(0, len(labels) + 1))):
                total = sum(len(l) + 1 for l in labels)
                _run(R, "C01.limits", "limits", {"labels": labels, "split": k, "style": ci % 3},
                     key=(tuple(vec), absolute, k, fill), nontrivial=True, sample=(total == 255 and k == 1))

    # ---- 6. seeded names through every path --------------------------------------------
    n_names = 3000 if quick else 20000
    for i in range(n_names):
        if (i & 0x3F) == 0 and R.deadline():
            R.note(f"deadline reached in seeded names at {i}")
            break
        labels = _rand_name(rng)
        _run(R, "C01.text_roundtrip", "text", {"labels": labels}, sample=i == 7)
        if all(max(l, default=0) < 128 for l in labels) and i % 4 == 0:
            _run(R, "C01.text_roundtrip", "unicode_ascii", {"labels": labels})
        origin = _rand_name(rng, absolute=True, budget=rng.choice([3, 20, 120]))
        _run(R, "C01.text_roundtrip", "text_origin", {"labels": labels, "origin": origin})
        if ref_is_abs(labels) and len(labels) > 1:
            k = rng.randint(0, len(labels) - 1)
            _run(R, "C01.text_roundtrip", "text_origin", {"labels": labels, "origin": labels[k:]})
        prefix = bytes(rng.randrange(256) for _ in range(rng.choice([0, 1, 12, 300])))
        _run(R, "C01.wire_roundtrip", "wire", {"labels": labels, "origin": rng.choice([None, origin]), "prefix": prefix})
        _run(R, "C01.tokenizer_roundtrip", "tok",
             {"labels": labels, "origin": rng.choice([None, origin, labels[-2:] if ref_is_abs(labels) else origin]),
              "relativize": rng.random() < 0.5, "pre": rng.choice(["", " ", "\t"]), "post": rng.choice(posts)})
        if i % 8 == 0:
            # a random, possibly illegal, label sequence through all operations
            ls = _rand_name(rng, budget=rng.choice([255, 258, 270]))
            if rng.random() < 0.3 and ls:
                j = rng.randrange(len(ls))
                ls[j] = ls[j] + b"q" * rng.choice([0, 1, 64 - min(64, len(ls[j]))])
            _run(R, "C01.limits", "limits", {"labels": ls, "split": rng.randint(0, len(ls)), "style": rng.randrange(3)})

    # ---- 7. seeded compression sequences -----------------------------------------------
    n_seq = 2500 if quick else 20000
    pads = [0, 12, 0x3FFF - 40, 0x3FFF - 9, 0x3FFF - 1, 0x3FFF, 0x4000, 0x4001]
    for i in range(n_seq):
        if (i & 0x1F) == 0 and R.deadline():
            R.note(f"deadline reached in compression sequences at {i}")
            break
        names = []
        base = []
        for _ in range(rng.randint(2, 8)):
            r = rng.random()
            if r < 0.55 and base:
                # share a suffix with an earlier name, possibly with different letter case
                prev = rng.choice(base)
                k = rng.randint(0, len(prev) - 1)
                suf = prev[k:]
                if rng.random() < (0.15 if i % 3 else 0.0):
                    suf = [rng.choice([l.upper(), l.lower(), l.swapcase()]) for l in suf]
                labels = [rng.choice(_VOCAB) for _ in range(rng.randint(0, 2))] + suf
            elif r < 0.85:
                labels = [rng.choice(_VOCAB) for _ in range(rng.randint(0, 4))] + [b""]
            else:
                labels = _rand_name(rng, absolute=True)
            if not ref_valid(labels):
                continue
            if rng.random() < 0.1 and len(labels) > 2:
                names.append(labels[:1])  # a relative name, completed by the origin
            else:
                names.append(labels)
            base.append(labels)
        pad = pads[i % len(pads)] if i % 2 else rng.choice(pads)
        _run(R, "C01.compressed_roundtrip", "compress",
             {"names": names, "origin": [b"Origin", b"example", b""], "pad": pad},
             sample=i == 3)

    # ---- 8. seeded pointer-laden buffers ------------------------------------------------
    n_buf = 3000 if quick else 60000
    for i in range(n_buf):
        if (i & 0x7F) == 0 and R.deadline():
            R.note(f"deadline reached in seeded buffers at {i}")
            break
        size = rng.choice([16, 40, 300, 300, 20000 if i % 50 == 0 else 600])
        buf = bytearray(rng.randrange(256) if rng.random() < 0.2 else 0 for _ in range(size)) if size <= 600 else bytearray(size)
        # lay down names and pointers
        offs = []
        pos = rng.choice([0, 0, 1, 12])
        while pos < size - 4:
            offs.append(pos)
            for _ in range(rng.randint(0, 4)):
                ln = rng.choice([1, 1, 2, 3, 20, 63])
                if pos + 1 + ln >= size - 3:
                    break
                buf[pos] = ln
                for j in range(ln):
                    buf[pos + 1 + j] = rng.choice(_INTERESTING)
                pos += 1 + ln
            r = rng.random()
            if r < 0.55 and offs:
                t = rng.choice(offs) if rng.random() < 0.8 else max(0, pos + rng.randint(-3, 3))
                t = min(t, 0x3FFF)
                buf[pos] = 0xC0 | (t >> 8)
                buf[pos + 1] = t & 0xFF
                pos += 2
            elif r < 0.9:
                buf[pos] = 0
                pos += 1
            else:
                buf[pos] = rng.choice([0x40, 0x80, 0xBF, 64])
                pos += 1
            if size > 600:
                pos += rng.choice([0, 0, 5000])
        b = bytes(buf)
        starts = offs[-3:] + [rng.randrange(size)]
        if size > 600:
            # pointers across the 14-bit boundary
            for t in (0x3FFF, 0x3FFE, 0x3F00):
                if t + 3 < size:
                    bb = bytearray(b)
                    bb[t:t + 3] = b"\x01x\x00"
                    st = size - 4
                    bb[st:st + 4] = bytes([1, 0x79, 0xC0 | (t >> 8), t & 0xFF])
                    _run(R, "C01.wire_decode_oracle", "decode", {"buf": bytes(bb), "start": st})
        for st in starts:
            r = ref_decode(b, st)
            _run(R, "C01.wire_decode_oracle", "decode", {"buf": b, "start": st}, key=(i, st),
                 nontrivial=(r[0] == "ok" or r[1] not in ("truncated",)))
            if r[0] == "ok" and r[3]:
                R.case("C01.wire_decode_terminates", key=(i, st))

    # ---- 9. exhaustive small wire buffers (last: a deadline only truncates the longest length) ----------------------------------------------
    if quick:
        alpha = [0x00, 0x01, 0x02, 0x03, 0x61, 0x40, 0xC0, 0xFF]
        maxlen = 5
    else:
        alpha = [0x00, 0x01, 0x02, 0x03, 0x04, 0x05, 0x61, 0x40, 0xC0, 0xFF]
        maxlen = 6
    import itertools
    stop = False
    cnt = 0
    for ln in range(1, maxlen + 1):
        if stop:
            break
        for tup in itertools.product(alpha, repeat=ln):
            cnt += 1
            if (cnt & 0xFFF) == 0 and R.deadline():
                R.note(f"deadline reached in exhaustive wire buffers at length {ln}")
                stop = True
                break
            buf = bytes(tup)
            for start in range(ln):
                # a start inside would be reached from elsewhere; every offset is a legitimate entry
                fails = _decode_compare(buf, start, "C01.wire_decode_oracle")
                r = ref_decode(buf, start)
                R.case("C01.wire_decode_oracle", key=(buf, start), nontrivial=True)
                if r[0] == "ok" and r[3]:
                    R.case("C01.wire_decode_terminates", key=(buf, start), nontrivial=True)
                    if len(r[3]) > 1:
                        R.sample("C01.wire_decode_terminates", {"buf": buf, "start": start, "targets": r[3]})
                for c, what, sig in fails:
                    R.violation(c, what, sig=sig, replay={"kind": "decode", "args": {"buf": buf, "start": start}})
