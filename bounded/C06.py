"""Bounded stand-in for C06 -- name comparison is the DNSSEC canonical order, coherent with
equality and hash (DESIGN.md section 4, C06, item B6).

Oracle: RFC 4034 section 6.1 written independently of dns.name: a relative name sorts before
an absolute one; otherwise names are compared label by label from the right, each label as a
left-justified unsigned octet string after mapping A-Z to a-z, a missing label sorting first.
Equality is "same number of labels, each equal after that mapping".  The relation / common
label count are defined from the longest common (case-insensitive) suffix.

Every check is a function ``_chk_<kind>(args) -> [(clause, what, sig), ...]`` used both by
``run`` and by ``replay``.
"""

from __future__ import annotations

import dns.exception
import dns.name
import dns.namedict

BOUNDS = (
    "Exhaustive: all ordered pairs over a pool of 400 names (empty name, root, every 1-label name "
    "and seeded 2-3 label names, both relativities, with case-swapped twins) whose labels have "
    "1-2 octets from {00 - @ A Z [ ` a z { FF}: fullcompare order/relation/common-label count, "
    "the six comparison operators, ==/hash, is_subdomain/is_superdomain, split at the common "
    "count, parent chains, relativize/derelativize/choose_relativity against every pool name as "
    "origin (160 000 pairs in both tiers).  Successor/predecessor: for 4 origins, every octet in "
    "a boundary set (quick: 24 octets; thorough: all 256) as the last significant octet of the "
    "least label followed by 0-2 FF octets, in 9 name shapes at and near the limits (63-octet "
    "least label; short least label in a 255-octet name; 254/253-octet names; all-FF labels that "
    "force climbing to the parent; short names), prefix_ok True and False, absolute and relative "
    "form, plus every absolute pool name under the root.  Seeded: triples from the pool for "
    "transitivity/antisymmetry/totality and sorted() agreement (quick 150 000, thorough "
    "1 500 000); random near-limit names for successor/predecessor (quick 2 000, thorough "
    "40 000); random long mixed-case pairs (quick 20 000, thorough 300 000); NameDict lookups "
    "(quick 300 dictionaries, thorough 5 000).  Not demanded: minimality of the successor / "
    "maximality of the predecessor (the property only states the strict order), behaviour of "
    "successor/predecessor for names outside the zone."
)

_LOWER = bytes((c + 32 if 65 <= c <= 90 else c) for c in range(256))
_SWAP = bytes((c + 32 if 65 <= c <= 90 else (c - 32 if 97 <= c <= 122 else c)) for c in range(256))


# --------------------------------------------------------------------------- reference
def lower(b: bytes) -> bytes:
    return b.translate(_LOWER)


def ref_valid(labels) -> bool:
    total = 0
    last = len(labels) - 1
    for i, l in enumerate(labels):
        if len(l) > 63 or (len(l) == 0 and i != last):
            return False
        total += len(l) + 1
    return total <= 255


def ref_abs(labels) -> bool:
    return len(labels) > 0 and labels[-1] == b""


def _cmp_label(x: bytes, y: bytes) -> int:
    """left-justified unsigned octet strings, absence of an octet sorts first."""
    x = lower(x)
    y = lower(y)
    n = min(len(x), len(y))
    for i in range(n):
        if x[i] != y[i]:
            return -1 if x[i] < y[i] else 1
    if len(x) != len(y):
        return -1 if len(x) < len(y) else 1
    return 0


def ref_cmp(a, b) -> int:
    aa, ba = ref_abs(a), ref_abs(b)
    if aa != ba:
        return 1 if aa else -1
    i, j = len(a) - 1, len(b) - 1
    while i >= 0 and j >= 0:
        c = _cmp_label(a[i], b[j])
        if c:
            return c
        i -= 1
        j -= 1
    if i < 0 and j < 0:
        return 0
    return -1 if i < 0 else 1


def ref_eqci(a, b) -> bool:
    return len(a) == len(b) and all(lower(x) == lower(y) for x, y in zip(a, b))


def ref_common(a, b) -> int:
    if ref_abs(a) != ref_abs(b):
        return 0
    n = 0
    i, j = len(a) - 1, len(b) - 1
    while i >= 0 and j >= 0 and lower(a[i]) == lower(b[j]):
        n += 1
        i -= 1
        j -= 1
    return n


def ref_relation(a, b) -> str:
    if ref_abs(a) != ref_abs(b):
        return "NONE"
    n = ref_common(a, b)
    if n == len(a) and n == len(b):
        return "EQUAL"
    if n == len(b):
        return "SUBDOMAIN"
    if n == len(a):
        return "SUPERDOMAIN"
    if n > 0:
        return "COMMONANCESTOR"
    return "NONE"


def ref_is_subdomain(a, b) -> bool:
    return ref_relation(a, b) in ("SUBDOMAIN", "EQUAL")


def _sign(x) -> int:
    return (x > 0) - (x < 0)


def _exc(e) -> str:
    t = type(e)
    return t.__name__ if t.__module__ == "builtins" else f"{t.__module__}.{t.__name__}"


def _labels(x):
    return [bytes(l) for l in x]


def _mk(labels):
    return dns.name.Name(list(labels))


# -------------------------------------------------------------------------- pair checks
def _chk_pair(a) -> list:
    la, lb = _labels(a["a"]), _labels(a["b"])
    A, B = _mk(la), _mk(lb)
    out = []
    try:
        rel, order, n = A.fullcompare(B)
    except Exception as e:
        return [("C06.order_oracle", f"fullcompare raised {_exc(e)}",
                 {"site": "dns.name.Name.fullcompare", "class": "raises", "exc": _exc(e)})]
    exp = ref_cmp(la, lb)
    if _sign(order) != exp:
        out.append(("C06.order_oracle",
                    f"fullcompare order {order} for {la!r} vs {lb!r}; RFC 4034 6.1 gives {exp}",
                    {"site": "dns.name.Name.fullcompare", "class": "order differs from RFC 4034 canonical order"}))
    ops = {"==": (A == B, exp == 0), "!=": (A != B, exp != 0), "<": (A < B, exp < 0), "<=": (A <= B, exp <= 0),
           ">": (A > B, exp > 0), ">=": (A >= B, exp >= 0)}
    for op, (got, want) in ops.items():
        if got is not want:
            out.append(("C06.order_oracle", f"{la!r} {op} {lb!r} is {got!r}; canonical order says {want}",
                        {"site": "dns.name.Name.__%s__" % {"==": "eq", "!=": "ne", "<": "lt", "<=": "le", ">": "gt", ">=": "ge"}[op],
                         "class": "operator disagrees with canonical order"}))
    # equality / hash
    eq = ref_eqci(la, lb)
    if (A == B) is not eq:
        out.append(("C06.eq_hash", f"{la!r} == {lb!r} is {A == B}; names differ at most in ASCII case: {eq}",
                    {"site": "dns.name.Name.__eq__", "class": "equality is not case-insensitive label equality"}))
    if eq and hash(A) != hash(B):
        out.append(("C06.eq_hash", f"equal names {la!r} and {lb!r} hash differently",
                    {"site": "dns.name.Name.__hash__", "class": "equal names hash differently"}))
    if eq and (len({A, B}) != 1 or {A: 1}.get(B) != 1):
        out.append(("C06.eq_hash", f"equal names {la!r} and {lb!r} are distinct set/dict keys",
                    {"site": "dns.name.Name.__hash__", "class": "equal names are distinct dict keys"}))
    # relation and common label count
    en = ref_common(la, lb)
    er = ref_relation(la, lb)
    if n != en:
        out.append(("C06.relation_predicates", f"common label count {n} for {la!r} vs {lb!r}; longest common suffix has {en}",
                    {"site": "dns.name.Name.fullcompare", "class": "common label count wrong"}))
    if getattr(rel, "name", str(rel)) != er:
        out.append(("C06.relation_predicates", f"relation {rel!r} for {la!r} vs {lb!r}; expected {er}",
                    {"site": "dns.name.Name.fullcompare", "class": "relation wrong"}))
    sub = A.is_subdomain(B)
    sup = A.is_superdomain(B)
    if sub is not (er in ("SUBDOMAIN", "EQUAL")):
        out.append(("C06.relation_predicates", f"is_subdomain({la!r}, {lb!r}) is {sub}; relation is {er}",
                    {"site": "dns.name.Name.is_subdomain", "class": "predicate disagrees with relation"}))
    if sup is not (er in ("SUPERDOMAIN", "EQUAL")):
        out.append(("C06.relation_predicates", f"is_superdomain({la!r}, {lb!r}) is {sup}; relation is {er}",
                    {"site": "dns.name.Name.is_superdomain", "class": "predicate disagrees with relation"}))
    if B.is_superdomain(A) is not sub:
        out.append(("C06.relation_predicates", "a.is_subdomain(b) != b.is_superdomain(a)",
                    {"site": "dns.name.Name.is_superdomain", "class": "predicates not mirror images"}))
    # split at the reported count gives the common suffix; the next labels differ
    if ref_abs(la) == ref_abs(lb) and 0 <= n <= min(len(la), len(lb)):
        try:
            pa, sa = A.split(n)
            pb, sb = B.split(n)
            if not (sa == sb) or len(sa.labels) != n:
                out.append(("C06.relation_predicates", f"suffixes of depth {n} differ: {sa!r} vs {sb!r}",
                            {"site": "dns.name.Name.split", "class": "split at common count is not the common suffix"}))
            if list(pa.labels) + list(sa.labels) != la or list(pb.labels) + list(sb.labels) != lb:
                out.append(("C06.relation_predicates", "split(prefix) ++ split(suffix) != labels",
                            {"site": "dns.name.Name.split", "class": "split loses labels"}))
            if len(pa.labels) and len(pb.labels) and lower(pa.labels[-1]) == lower(pb.labels[-1]):
                out.append(("C06.relation_predicates", f"labels beyond the reported common count {n} still agree",
                            {"site": "dns.name.Name.fullcompare", "class": "common label count wrong"}))
        except Exception as e:
            out.append(("C06.relation_predicates", f"split({n}) raised {_exc(e)}",
                        {"site": "dns.name.Name.split", "class": "raises", "exc": _exc(e)}))
    # parent chain: a is a subdomain of b iff b is reached by taking parents of a
    chain = [A]
    try:
        cur = A
        for _ in range(130):
            cur = cur.parent()
            chain.append(cur)
    except dns.name.NoParent:
        pass
    except Exception as e:
        out.append(("C06.relation_predicates", f"parent() raised {_exc(e)}",
                    {"site": "dns.name.Name.parent", "class": "raises", "exc": _exc(e)}))
    reached = any(x == B for x in chain)
    if reached is not ref_is_subdomain(la, lb):
        out.append(("C06.relation_predicates", f"parent chain of {la!r} reaches {lb!r}: {reached}; subdomain: {ref_is_subdomain(la, lb)}",
                    {"site": "dns.name.Name.parent", "class": "parent chain disagrees with subdomain relation"}))
    return out


def _chk_single(a) -> list:
    la = _labels(a["a"])
    A = _mk(la)
    out = []
    # parent
    try:
        p = A.parent()
        if la in ([], [b""]):
            out.append(("C06.relation_predicates", f"parent() of {la!r} returned {p!r}",
                        {"site": "dns.name.Name.parent", "class": "root/empty has a parent"}))
        elif list(p.labels) != la[1:]:
            out.append(("C06.relation_predicates", f"parent() of {la!r} is {list(p.labels)!r}",
                        {"site": "dns.name.Name.parent", "class": "parent is not labels[1:]"}))
        else:
            r = A.fullcompare(p)
            if not (r[0] == dns.name.NameRelation.SUBDOMAIN and r[1] > 0 and r[2] == len(la) - 1):
                out.append(("C06.relation_predicates", f"fullcompare(name, parent) == {r!r}",
                            {"site": "dns.name.Name.fullcompare", "class": "name vs parent"}))
    except dns.name.NoParent:
        if la not in ([], [b""]):
            out.append(("C06.relation_predicates", f"parent() of {la!r} raised NoParent",
                        {"site": "dns.name.Name.parent", "class": "NoParent for a name with a parent"}))
    # split at every depth, and out of range
    for d in range(-1, len(la) + 2):
        try:
            p, s = A.split(d)
            if d < 0 or d > len(la):
                out.append(("C06.relation_predicates", f"split({d}) of a {len(la)}-label name returned",
                            {"site": "dns.name.Name.split", "class": "out-of-range depth accepted"}))
            elif list(s.labels) != la[len(la) - d:] or list(p.labels) != la[: len(la) - d]:
                out.append(("C06.relation_predicates", f"split({d}) of {la!r} gives ({list(p.labels)!r}, {list(s.labels)!r})",
                            {"site": "dns.name.Name.split", "class": "split parts wrong"}))
        except ValueError:
            if 0 <= d <= len(la):
                out.append(("C06.relation_predicates", f"split({d}) of a {len(la)}-label name raised ValueError",
                            {"site": "dns.name.Name.split", "class": "in-range depth rejected"}))
    # hash is a function of the lower-cased labels; canonicalize is equal
    variants = [[l.translate(_SWAP) for l in la], [lower(l) for l in la], [l.upper() for l in la]]
    for lv in variants:
        V = _mk(lv)
        if not (V == A) or hash(V) != hash(A):
            out.append(("C06.eq_hash", f"case variant {lv!r} of {la!r}: equal {V == A}, same hash {hash(V) == hash(A)}",
                        {"site": "dns.name.Name.__hash__", "class": "case variant not equal / hashes differently"}))
    C = A.canonicalize()
    if list(C.labels) != [lower(l) for l in la] or not (C == A):
        out.append(("C06.eq_hash", f"canonicalize() of {la!r} gives {list(C.labels)!r}",
                    {"site": "dns.name.Name.canonicalize", "class": "not the lower-cased equal name"}))
    if A != A or not (A == A) or A < A or A > A or not (A <= A) or not (A >= A):
        out.append(("C06.order_laws", "reflexivity fails", {"site": "dns.name.Name.fullcompare", "class": "reflexivity"}))
    if (A == 5) or not (A != 5) or (A == la):
        out.append(("C06.eq_hash", "a name compares equal to a non-name",
                    {"site": "dns.name.Name.__eq__", "class": "equal to a non-name"}))
    return out


def _chk_triple(a) -> list:
    la, lb, lc = _labels(a["a"]), _labels(a["b"]), _labels(a["c"])
    A, B, C = _mk(la), _mk(lb), _mk(lc)
    out = []
    cl = "C06.order_laws"
    ab, bc, ac, ba = A <= B, B <= C, A <= C, B <= A
    if not (ab or ba):
        out.append((cl, f"neither {la!r} <= {lb!r} nor the converse", {"site": "dns.name.Name.fullcompare", "class": "totality"}))
    if ab and ba and not (A == B):
        out.append((cl, f"{la!r} <= {lb!r} and >= but not ==", {"site": "dns.name.Name.fullcompare", "class": "antisymmetry"}))
    if (A < B) and (B < A):
        out.append((cl, f"{la!r} < {lb!r} and the converse", {"site": "dns.name.Name.fullcompare", "class": "asymmetry"}))
    if ab and bc and not ac:
        out.append((cl, f"{la!r} <= {lb!r} <= {lc!r} but not {la!r} <= {lc!r}",
                    {"site": "dns.name.Name.fullcompare", "class": "transitivity"}))
    if (A < B) and (B < C) and not (A < C):
        out.append((cl, f"{la!r} < {lb!r} < {lc!r} but not {la!r} < {lc!r}",
                    {"site": "dns.name.Name.fullcompare", "class": "transitivity"}))
    if (A == B) and (B == C) and not (A == C and hash(A) == hash(C)):
        out.append((cl, "equality not transitive", {"site": "dns.name.Name.__eq__", "class": "transitivity of =="}))
    # the order reported for (a, b) mirrors (b, a)
    if _sign(A.fullcompare(B)[1]) != -_sign(B.fullcompare(A)[1]):
        out.append((cl, f"fullcompare({la!r}, {lb!r}) and the converse are not mirror images",
                    {"site": "dns.name.Name.fullcompare", "class": "antisymmetry"}))
    # sorted() of the three agrees with the reference order
    s = sorted([A, B, C])
    import functools
    r = sorted([la, lb, lc], key=functools.cmp_to_key(ref_cmp))
    if not all(ref_eqci(list(x.labels), y) for x, y in zip(s, r)):
        out.append((cl, f"sorted() gives {[list(x.labels) for x in s]!r}, canonical order is {r!r}",
                    {"site": "dns.name.Name.__lt__", "class": "sorted() differs from canonical order"}))
    return out


# -------------------------------------------------------------------- relativity checks
def _chk_reloc(a) -> list:
    ln, lo = _labels(a["n"]), _labels(a["o"])
    N, O = _mk(ln), _mk(lo)
    cl = "C06.relativize_roundtrip"
    out = []
    sub = ref_is_subdomain(ln, lo)
    empty_origin = len(lo) == 0

    def sig(site, klass):
        if empty_origin:
            return {"site": "dns.name.Name.relativize", "class": "empty origin: self[:-0] yields the empty name instead of the name"}
        return {"site": site, "class": klass}

    # relativize
    try:
        r = N.relativize(O)
    except Exception as e:
        return [(cl, f"relativize raised {_exc(e)}", {"site": "dns.name.Name.relativize", "class": "raises", "exc": _exc(e)})]
    exp = ln[: len(ln) - len(lo)] if sub else ln
    if list(r.labels) != exp:
        out.append((cl, f"{ln!r}.relativize({lo!r}) gives {list(r.labels)!r}, expected {exp!r}",
                    sig("dns.name.Name.relativize", "relativized labels wrong")))
    try:
        if (N - O) != r or list((N - O).labels) != list(r.labels):
            out.append((cl, "name - origin differs from relativize(origin)",
                        {"site": "dns.name.Name.__sub__", "class": "operator differs from method"}))
    except Exception as e:
        out.append((cl, f"name - origin raised {_exc(e)}", {"site": "dns.name.Name.__sub__", "class": "raises", "exc": _exc(e)}))
    # ... and derelativizing again restores it (for a name under the origin, or an absolute name)
    if sub or ref_abs(ln):
        try:
            back = r.derelativize(O)
            if not (back == N) or not ref_eqci(list(back.labels), ln):
                out.append((cl, f"{ln!r}.relativize({lo!r}).derelativize({lo!r}) gives {list(back.labels)!r}",
                            sig("dns.name.Name.derelativize", "relativize then derelativize does not restore the name")))
        except Exception as e:
            out.append((cl, f"relativize then derelativize raised {_exc(e)}",
                        sig("dns.name.Name.derelativize", "relativize then derelativize raises")))
    # derelativize, then relativize
    full = ln + lo
    if not ref_abs(ln):
        if ref_valid(full):
            try:
                d = N.derelativize(O)
                if list(d.labels) != full:
                    out.append((cl, f"{ln!r}.derelativize({lo!r}) gives {list(d.labels)!r}",
                                {"site": "dns.name.Name.derelativize", "class": "derelativized labels wrong"}))
                b2 = d.relativize(O)
                if list(b2.labels) != ln:
                    out.append((cl, f"{ln!r}.derelativize({lo!r}).relativize({lo!r}) gives {list(b2.labels)!r}",
                                sig("dns.name.Name.relativize", "derelativize then relativize does not restore the name")))
            except Exception as e:
                out.append((cl, f"derelativize/relativize raised {_exc(e)} although the concatenation is legal",
                            {"site": "dns.name.Name.derelativize", "class": "raises", "exc": _exc(e)}))
    else:
        try:
            d = N.derelativize(O)
            if list(d.labels) != ln:
                out.append((cl, f"derelativize changed an absolute name: {list(d.labels)!r}",
                            {"site": "dns.name.Name.derelativize", "class": "absolute name changed"}))
        except Exception as e:
            out.append((cl, f"derelativize of an absolute name raised {_exc(e)}",
                        {"site": "dns.name.Name.derelativize", "class": "raises", "exc": _exc(e)}))
    # choose_relativity
    if not empty_origin:
        try:
            c1 = N.choose_relativity(O, True)
            if list(c1.labels) != exp:
                out.append((cl, f"choose_relativity(origin, True) gives {list(c1.labels)!r}, expected {exp!r}",
                            {"site": "dns.name.Name.choose_relativity", "class": "relativize branch wrong"}))
            if ref_abs(ln) or ref_valid(full):
                c2 = N.choose_relativity(O, False)
                e2 = ln if ref_abs(ln) else full
                if list(c2.labels) != e2:
                    out.append((cl, f"choose_relativity(origin, False) gives {list(c2.labels)!r}, expected {e2!r}",
                                {"site": "dns.name.Name.choose_relativity", "class": "derelativize branch wrong"}))
        except Exception as e:
            out.append((cl, f"choose_relativity raised {_exc(e)}",
                        {"site": "dns.name.Name.choose_relativity", "class": "raises", "exc": _exc(e)}))
    try:
        for flag in (True, False):
            c0 = N.choose_relativity(None, flag)
            if list(c0.labels) != ln:
                out.append((cl, "choose_relativity(None) changed the name",
                            {"site": "dns.name.Name.choose_relativity", "class": "origin None changes the name"}))
    except Exception as e:
        out.append((cl, f"choose_relativity(None) raised {_exc(e)}",
                    {"site": "dns.name.Name.choose_relativity", "class": "raises", "exc": _exc(e)}))
    return out


# ------------------------------------------------------------- successor / predecessor
def _later_name_exists(full, lo, prefix_ok):
    """An independent witness: a legal name inside the zone that sorts strictly after ``full``
    (and is not below it when prefix_ok is False), or None."""
    cands = []
    if prefix_ok:
        cands.append([b"\x00"] + full)
    for i in range(0, len(full) - len(lo)):
        m = full[i:]
        l = m[0]
        cands.append([l + b"\x00"] + m[1:])
        ll = bytearray(lower(l))
        for j in range(len(ll) - 1, -1, -1):
            if ll[j] != 0xFF:
                ll[j] += 1
                cands.append([bytes(ll[: j + 1])] + m[1:])
                break
    for c in cands:
        if not ref_valid(c) or not ref_is_subdomain(c, lo):
            continue
        if ref_cmp(c, full) <= 0:
            continue
        if not prefix_ok and ref_is_subdomain(c, full):
            continue
        return c
    return None


def _chk_succ(a) -> list:
    ln, lo = _labels(a["n"]), _labels(a["o"])
    prefix_ok = bool(a["prefix_ok"])
    which = a["which"]
    N, O = _mk(ln), _mk(lo)
    relative = not ref_abs(ln)
    full = ln + lo if relative else ln
    out = []
    cl = "C06.successor" if which == "succ" else "C06.predecessor"
    site = "dns.name._absolute_successor" if which == "succ" else "dns.name._absolute_predecessor"
    try:
        r = N.successor(O, prefix_ok) if which == "succ" else N.predecessor(O, prefix_ok)
    except Exception as e:
        return [(cl, f"{which} raised {_exc(e)} for a name inside the zone",
                 {"site": site, "class": "raises", "exc": _exc(e)})]
    lr = list(r.labels)
    if not ref_valid(lr):
        return [(cl, f"{which} returned an illegal name", {"site": site, "class": "illegal name returned"})]
    if ref_abs(lr) == relative:
        out.append((cl, f"{which} of a {'relative' if relative else 'absolute'} name returned {lr!r}",
                    {"site": "dns.name._handle_relativity_and_call", "class": "relativity not preserved"}))
        return out
    rfull = lr + lo if relative else lr
    if not ref_is_subdomain(rfull, lo):
        out.append((cl, f"{which} {rfull!r} is outside the zone {lo!r}", {"site": site, "class": "result outside the zone"}))
        return out
    c = ref_cmp(rfull, full)
    if which == "succ":
        if ref_eqci(rfull, lo):
            w = _later_name_exists(full, lo, prefix_ok)
            if w is not None:
                out.append((cl, f"successor wrapped to the origin although {w!r} is in the zone and sorts after the name",
                            {"site": site, "class": "wraps to the origin although a later name exists"}))
        elif c <= 0:
            # classify: which octet was touched
            klass = "successor does not sort strictly after the name"
            k = len(full) - len(rfull)
            if k >= 0 and rfull[1:] == full[k + 1:] and len(rfull[0]) > 0:
                l0, r0 = full[k], rfull[0]
                j = len(r0) - 1
                if j < len(l0) and r0[:j] == l0[:j] and l0[j] == 0x5A and r0[j] == 0x5B:
                    klass = "upper-case octet incremented as a raw octet (Z -> [), result sorts before the name"
            out.append((cl, f"successor {rfull!r} of {full!r} (prefix_ok={prefix_ok}) compares {c} to the name, expected > 0",
                        {"site": site, "class": klass}))
        elif not prefix_ok and ref_is_subdomain(rfull, full):
            out.append((cl, f"successor with prefix_ok=False is below the name: {rfull!r}",
                        {"site": site, "class": "prefix_ok=False result is a subdomain of the name"}))
    else:
        if ref_eqci(full, lo):
            pass  # wraps to the last name of the zone; the property states nothing more
        elif c >= 0:
            out.append((cl, f"predecessor {rfull!r} of {full!r} (prefix_ok={prefix_ok}) compares {c} to the name, expected < 0",
                        {"site": site, "class": "predecessor does not sort strictly before the name"}))
    # the library's own comparison must tell the same story
    try:
        R2 = _mk(rfull)
        F2 = _mk(full)
        lib = _sign(R2.fullcompare(F2)[1])
        if lib != c:
            out.append(("C06.order_oracle", f"fullcompare({rfull!r}, {full!r}) sign {lib}, canonical order {c}",
                        {"site": "dns.name.Name.fullcompare", "class": "order differs from RFC 4034 canonical order"}))
    except Exception:
        pass
    return out


# ------------------------------------------------------------------------------ NameDict
def _chk_namedict(a) -> list:
    keys = [_labels(k) for k in a["keys"]]
    queries = [_labels(q) for q in a["queries"]]
    cl = "C06.namedict"
    out = []
    d = dns.namedict.NameDict()
    model = []  # list of (labels, value), later assignment to an equal key replaces the value
    for i, k in enumerate(keys):
        d[_mk(k)] = i
        for j, (mk_, _) in enumerate(model):
            if ref_eqci(mk_, k):
                model[j] = (mk_, i)
                break
        else:
            model.append((k, i))
    if len(d) != len(model):
        out.append((cl, f"{len(keys)} assignments give {len(d)} entries, {len(model)} distinct names",
                    {"site": "dns.namedict.NameDict.__setitem__", "class": "equal names stored as distinct keys"}))
    for q in queries:
        Q = _mk(q)
        hit = [v for (k, v) in model if ref_eqci(k, q)]
        got = d.get(Q, None)
        if (Q in d) is not bool(hit) or (hit and got != hit[0]):
            out.append((cl, f"lookup of {q!r}: found {Q in d} value {got!r}; model {hit!r}",
                        {"site": "dns.namedict.NameDict.__getitem__", "class": "lookup disagrees with case-insensitive equality"}))
        sups = [(k, v) for (k, v) in model if ref_is_subdomain(q, k) and len(k) > 0]
        if sups:
            best = max(sups, key=lambda kv: len(kv[0]))
            try:
                k2, v2 = d.get_deepest_match(Q)
                if not ref_eqci(list(k2.labels), best[0]) or v2 != best[1]:
                    out.append((cl, f"get_deepest_match({q!r}) gives {list(k2.labels)!r}; deepest superdomain key is {best[0]!r}",
                                {"site": "dns.namedict.NameDict.get_deepest_match", "class": "not the deepest superdomain"}))
            except Exception as e:
                out.append((cl, f"get_deepest_match({q!r}) raised {_exc(e)} although {best[0]!r} is a key",
                            {"site": "dns.namedict.NameDict.get_deepest_match", "class": "raises", "exc": _exc(e)}))
    return out


_KINDS = {"pair": _chk_pair, "single": _chk_single, "triple": _chk_triple, "reloc": _chk_reloc,
          "succ": _chk_succ, "namedict": _chk_namedict}


def replay(data):
    fails = _KINDS[data["kind"]](data["args"])
    if fails:
        return (True, "; ".join(f"{c}: {w}" for c, w, _ in fails[:3]))
    return (False, "no clause fails on this input")


# ----------------------------------------------------------------------------- generators
_OCTS = [0x00, ord("-"), ord("@"), ord("A"), ord("Z"), ord("["), ord("`"), ord("a"), ord("z"), ord("{"), 0xFF]


def _build_pool(rng, size=400):
    singles = [bytes([c]) for c in _OCTS]
    doubles = [b"aA", b"Aa", b"a\x00", b"a-", b"az", b"aZ", b"AZ", b"Az", b"a\xff", b"\xff\xff", b"\x00\x00", b"[[",
               b"@@", b"``", b"{{", b"Z[", b"z{", b"Za", b"zA", b"@A", b"`a", b"Z\x00", b"z\xff", b"\x00a", b"-A"]
    labs = singles + doubles
    seen = set()
    pool = []

    def add(labels):
        t = tuple(labels)
        if t not in seen and ref_valid(labels):
            seen.add(t)
            pool.append(list(labels))

    add([])
    add([b""])
    for l in labs:
        add([l])
        add([l, b""])
    guard = 0
    while len(pool) < size and guard < 100000:
        guard += 1
        k = rng.choice([2, 2, 3])
        labels = [rng.choice(labs) for _ in range(k)]
        if rng.random() < 0.5 and pool:
            # share a suffix with an existing name so that relations other than NONE are common
            base = rng.choice(pool)
            nb = [l for l in base if l != b""]
            labels = labels[: rng.randint(1, 2)] + nb[-2:]
            labels = labels[-3:]
        absolute = rng.random() < 0.5
        full = labels + ([b""] if absolute else [])
        add(full)
        if rng.random() < 0.3:
            add([l.translate(_SWAP) for l in full])
    return pool[:size]


def _shape(kind, c, t, lo, filler):
    """Names at and near the limits whose least label ends in octet c followed by t FF octets.
    Returns absolute label lists inside zone lo."""
    tail = bytes([c]) + b"\xff" * t
    room = 255 - sum(len(l) + 1 for l in lo)  # octets available below the origin

    def pad(least, total_below):
        # least label + 63-octet filler labels so that the labels below the origin use total_below octets
        rest = total_below - (len(least) + 1)
        mids = []
        while rest > 0:
            if rest == 1:
                return None
            ln = min(63, rest - 1)
            if rest - (ln + 1) == 1:
                ln -= 1
            mids.append(bytes([filler]) * ln)
            rest -= ln + 1
        return [least] + mids + lo

    if kind == 0:   # 63-octet least label, short name
        return [bytes([filler]) * (63 - len(tail)) + tail] + lo
    if kind == 1:   # 63-octet least label, full name
        return pad(bytes([filler]) * (63 - len(tail)) + tail, room)
    if kind == 2:   # short least label, full name (cannot extend, cannot prefix)
        return pad(tail, room)
    if kind == 3:   # short least label, one octet of room
        return pad(tail, room - 1)
    if kind == 4:   # short least label, two octets of room
        return pad(tail, room - 2)
    if kind == 5:   # short name
        return [tail] + lo
    if kind == 6:   # all-FF least labels above a label ending in c: forces climbing to the parent
        base = pad(bytes([filler]) * (20 - len(tail)) + tail, room - 128)
        if base is None:
            return None
        return [b"\xff" * 63, b"\xff" * 63] + base
    if kind == 7:   # two-label short name with a 62-octet least label
        return [bytes([filler]) * (62 - len(tail)) + tail, b"x"] + lo
    if kind == 8:   # least label is exactly the tail after a 1-octet sibling label, full name
        return pad(bytes([filler]) + tail, room)
    return None


def _run(R, clause, kind, args, key=None, sample=False, nontrivial=True):
    try:
        fails = _KINDS[kind](args)
    except Exception:
        import traceback
        if len(R.notes) < 20:
            R.note(f"harness error in {kind}: {traceback.format_exc(limit=4)}")
        R.case(clause, key=key, nontrivial=False)
        return
    R.case(clause, key=key if key is not None else repr(args), nontrivial=nontrivial)
    if sample:
        R.sample(clause, {"kind": kind, **args})
    for c, what, sig in fails:
        R.violation(c, what, sig=sig, replay={"kind": kind, "args": args})


def run(R):
    rng = R.rng
    quick = R.quick
    pool = _build_pool(rng, 400)

    # ---- 1. singles ---------------------------------------------------------------------
    for i, la in enumerate(pool):
        _run(R, "C06.relation_predicates", "single", {"a": la}, sample=i == 50)
        R.case("C06.eq_hash", key=("single", i))

    # ---- 2. successor / predecessor at the limits ----------------------------------------
    origins = [[b""], [b"example", b""], [b"Zz", b"EXAMPLE", b""], [b"\xff" * 63, b"z" * 60, b""]]
    if quick:
        octs = sorted(set(_OCTS + [0x01, 0x2F, 0x3F, 0x41, 0x42, 0x59, 0x5A, 0x5C, 0x5F, 0x61, 0x62, 0x79, 0x7F, 0x80, 0xFE]))
    else:
        octs = list(range(256))
    fillers = [ord("m"), ord("Z"), 0xFF, ord("A")]
    ci = 0
    for lo in origins:
        for c in octs:
            if R.deadline():
                break
            for t in (0, 1, 2):
                for kind in range(9):
                    ci += 1
                    filler = fillers[(ci // 7) % len(fillers)]
                    full = _shape(kind, c, t, lo, filler)
                    if full is None or not ref_valid(full):
                        continue
                    for which in ("succ", "pred"):
                        cl = "C06.successor" if which == "succ" else "C06.predecessor"
                        for pok in (True, False):
                            _run(R, cl, "succ", {"n": full, "o": lo, "prefix_ok": pok, "which": which},
                                 key=(kind, c, t, len(lo), filler, pok), sample=(c == 0x5A and kind == 2 and t == 0))
                        if kind in (2, 5, 7) and len(full) > len(lo):
                            rel = full[: len(full) - len(lo)]
                            _run(R, cl, "succ", {"n": rel, "o": lo, "prefix_ok": True, "which": which},
                                 key=("rel", kind, c, t, len(lo), filler))
    for lo in origins:
        for which in ("succ", "pred"):
            cl = "C06.successor" if which == "succ" else "C06.predecessor"
            for pok in (True, False):
                _run(R, cl, "succ", {"n": lo, "o": lo, "prefix_ok": pok, "which": which})
                _run(R, cl, "succ", {"n": [], "o": lo, "prefix_ok": pok, "which": which})
    for la in pool:
        if ref_abs(la):
            for which in ("succ", "pred"):
                cl = "C06.successor" if which == "succ" else "C06.predecessor"
                for pok in (True, False):
                    _run(R, cl, "succ", {"n": la, "o": [b""], "prefix_ok": pok, "which": which})
                if len(la) >= 3:
                    _run(R, cl, "succ", {"n": la, "o": la[-2:], "prefix_ok": True, "which": which})
        elif ref_valid(la + [b"Org", b""]):
            for which in ("succ", "pred"):
                cl = "C06.successor" if which == "succ" else "C06.predecessor"
                _run(R, cl, "succ", {"n": la, "o": [b"Org", b""], "prefix_ok": True, "which": which})

    # ---- 3. seeded near-limit names for successor / predecessor ---------------------------
    n_succ = 2000 if quick else 40000
    alpha = bytes(_OCTS) + b"\xff\xff\xffZZz@[\x00"
    for i in range(n_succ):
        if (i & 0x3F) == 0 and R.deadline():
            R.note(f"deadline reached in seeded successor names at {i}")
            break
        lo = rng.choice(origins[:3])
        room = 255 - sum(len(l) + 1 for l in lo) - rng.choice([0, 0, 0, 1, 2, 3, 64, 100, 200])
        labels = []
        while room >= 2:
            ln = min(room - 1, rng.choice([63, 63, 62, 1, 2, 3, 10]))
            if room - (ln + 1) == 1:
                ln -= 1
                if ln == 0:
                    break
            lab = bytes(rng.choice(alpha) for _ in range(ln))
            labels.append(lab)
            room -= ln + 1
            if rng.random() < 0.15:
                break
        rng.shuffle(labels)
        full = labels + lo
        if not ref_valid(full):
            continue
        for which in ("succ", "pred"):
            cl = "C06.successor" if which == "succ" else "C06.predecessor"
            pok = rng.random() < 0.5
            n = full
            if rng.random() < 0.25 and labels:
                n = labels
            _run(R, cl, "succ", {"n": n, "o": lo, "prefix_ok": pok, "which": which}, key=("seed", i, which))

    # ---- 4. NameDict -------------------------------------------------------------------------
    n_nd = 300 if quick else 5000
    for i in range(n_nd):
        if (i & 0x1F) == 0 and R.deadline():
            break
        keys = [rng.choice(pool) for _ in range(rng.randint(1, 12))]
        if rng.random() < 0.5:
            keys += [[l.translate(_SWAP) for l in rng.choice(keys)]]
        queries = [rng.choice(pool) for _ in range(6)] + [[l.translate(_SWAP) for l in k] for k in keys[:3]]
        queries += [[rng.choice([b"a", b"Z", b"\x00"])] + k for k in keys[:3] if ref_valid([b"a"] + k)]
        _run(R, "C06.namedict", "namedict", {"keys": keys, "queries": queries}, key=("nd", i), sample=i == 1)

    # ---- 5. random long mixed-case pairs ----------------------------------------------------
    n_long = 20000 if quick else 300000
    for i in range(n_long):
        if (i & 0xFF) == 0 and R.deadline():
            R.note(f"deadline reached in seeded long pairs at {i}")
            break
        k = rng.randint(0, 5)
        base = [bytes(rng.choice(b"aAbBzZ@[`{\x00\xff-09") for _ in range(rng.choice([1, 2, 3, 8, 63]))) for _ in range(k)]
        absolute = rng.random() < 0.7
        a_l = base + ([b""] if absolute else [])
        mode = rng.random()
        b_l = [l for l in base]
        if mode < 0.3:
            b_l = [l.translate(_SWAP) if rng.random() < 0.5 else l for l in b_l]
        elif mode < 0.7 and b_l:
            j = rng.randrange(len(b_l))
            l = bytearray(b_l[j])
            p = rng.randrange(len(l))
            l[p] = rng.choice([l[p] ^ 0x20, (l[p] + 1) & 0xFF, (l[p] - 1) & 0xFF, rng.randrange(256)])
            b_l[j] = bytes(l) if rng.random() < 0.8 else bytes(l)[: p + 1]
            if rng.random() < 0.3:
                b_l = b_l[rng.randint(0, len(b_l) - 1):]
        else:
            b_l = b_l[rng.randint(0, len(b_l)):] if b_l else b_l
            if rng.random() < 0.5:
                b_l = [bytes([rng.choice(_OCTS)])] + b_l
        b_l = b_l + ([b""] if (absolute if rng.random() < 0.9 else not absolute) else [])
        if not (ref_valid(a_l) and ref_valid(b_l)):
            continue
        _run(R, "C06.order_oracle", "pair", {"a": a_l, "b": b_l}, key=("long", i))
        if i % 4 == 0:
            _run(R, "C06.relativize_roundtrip", "reloc", {"n": a_l, "o": b_l}, key=("longr", i))

    # ---- 6. seeded triples --------------------------------------------------------------------
    n_tri = 150000 if quick else 1500000
    np_ = len(pool)
    for i in range(n_tri):
        if (i & 0x3FF) == 0 and R.deadline():
            R.note(f"deadline reached in seeded triples at {i}")
            break
        ia, ib, ic = rng.randrange(np_), rng.randrange(np_), rng.randrange(np_)
        args = {"a": pool[ia], "b": pool[ib], "c": pool[ic]}
        fails = _chk_triple(args)
        R.case("C06.order_laws", key=(ia, ib, ic))
        if i == 5:
            R.sample("C06.order_laws", args)
        for c, what, sig in fails:
            R.violation(c, what, sig=sig, replay={"kind": "triple", "args": args})

    # ---- 7. all ordered pairs of the pool -------------------------------------------------------
    for ia, la in enumerate(pool):
        if R.deadline():
            R.note(f"deadline reached in exhaustive pairs at row {ia}")
            break
        for ib, lb in enumerate(pool):
            args = {"a": la, "b": lb}
            fails = _chk_pair(args)
            R.case("C06.order_oracle", key=(ia, ib))
            R.case("C06.eq_hash", key=(ia, ib), nontrivial=ref_eqci(la, lb) or ref_common(la, lb) > 0)
            R.case("C06.relation_predicates", key=(ia, ib))
            fails += _chk_reloc({"n": la, "o": lb})
            R.case("C06.relativize_roundtrip", key=(ia, ib),
                   nontrivial=ref_is_subdomain(la, lb) or not ref_abs(la))
            if ia == 7 and ib in (9, 300):
                R.sample("C06.order_oracle", args)
                R.sample("C06.relativize_roundtrip", {"n": la, "o": lb})
            for c, what, sig in fails:
                kind = "reloc" if c == "C06.relativize_roundtrip" else "pair"
                R.violation(c, what, sig=sig,
                            replay={"kind": kind, "args": {"n": la, "o": lb} if kind == "reloc" else args})

    # sorted() of the whole pool agrees with the reference order
    import functools
    names = [_mk(l) for l in pool]
    s = sorted(names)
    r = sorted(pool, key=functools.cmp_to_key(ref_cmp))
    R.case("C06.order_laws", key="sorted-pool")
    if not all(ref_eqci(list(x.labels), y) for x, y in zip(s, r)):
        R.violation("C06.order_laws", "sorted(pool) differs from the canonical order of the pool",
                    sig={"site": "dns.name.Name.__lt__", "class": "sorted() differs from canonical order"},
                    replay={"kind": "triple", "args": {"a": pool[0], "b": pool[1], "c": pool[2]}})
