"""Overflow / rollback family of the bounded stand-in C03.

A record set that does not fit below ``max_size`` raises ``dns.exception.TooBig`` and is
rolled back by the Renderer; rendering then *continues* with further record sets, the OPT
record and the TSIG record.  The compression table must not keep any entry made while the
removed record set was written: a later name that ends in a suffix first mentioned by the
removed set would otherwise be emitted as a pointer into octets that are gone (or into
itself, or into whatever was written there afterwards).

Scenarios are described by the model classes of ``_c03_model`` (names are label tuples,
rdata octets are built here from the RFC layouts).  Two routes run the real code:

``renderer``  the low-level ``dns.renderer.Renderer`` with ``max_size`` given to the
              constructor: ``add_question``, then ``add_rrset`` / ``add_rdataset`` for every
              record set *catching TooBig and carrying on*, ``add_edns``, ``write_header``,
              ``add_tsig``.  Several record sets are rolled back in one message, each one
              the first mention of a fresh owner name; later sets (and the TSIG key name)
              reuse that name or names ending in it.
``message``   ``Message.to_wire(max_size=L, prefer_truncation=True)`` with EDNS and a TSIG key
              whose name equals or lies under the owner of the record set that overflows.

The verdict comes from the independent decoder (strict pointer rules, exact names), the
model's frames, and ``dns.message.from_wire`` of the result.  Which record sets were
rejected is *observed* (TooBig raised), never predicted: the property under test says
nothing about sizes (that is C08); sizes computed here only steer the generator so that
the intended overflow happens whatever the compression achieves.
"""

from __future__ import annotations

import random
import struct

from bounded import _c03_model as M

TC = 0x0200

_ALGS = (
    ((b"hmac-sha256", b""), 32),
    ((b"hmac-sha256", b""), 32),
    ((b"hmac-sha1", b""), 20),
    ((b"hmac-sha512", b""), 64),
    ((b"hmac-sha384", b""), 48),
    ((b"hmac-sha224", b""), 28),
)

# record types whose rdata names a renderer may compress (RFC 3597 section 4: the types of
# RFC 1035 only); used for the generator's bookkeeping of "suffix first mentioned by"
_COMPRESSIBLE = (2, 5, 6, 12, 15)

BIG_KINDS = ("txt", "ns", "mx", "srv", "ns_other_owner")
BIG_OWNERS = ("x", "sub_x", "deep_x")
FRESH_KINDS = ("under_zone", "new_branch", "under_previous", "long_label")
FOLLOWER_KINDS = (
    "a_x",
    "a_www_x",
    "aaaa_deep_x",
    "ns_zone_to_x",
    "mx_x_mail_x",
    "cname_alias_to_x",
    "ptr_to_sub_x",
    "soa_x",
    "txt_sub_x",
    "ns_x_ns_x",
)
TSIG_KINDS = ("none", "x", "k_x", "k_sub_x", "unrelated")


class Step:
    __slots__ = ("section", "rr", "api", "role", "episode")

    def __init__(self, section, rr, api, role, episode):
        self.section = section
        self.rr = rr
        self.api = api
        self.role = role
        self.episode = episode


class Scenario:
    __slots__ = ("m", "steps", "L", "route", "tsig", "origin", "mode", "desc")


# ----------------------------------------------------------------------------- sizes (generator only)


def _max_size(rr):
    """Octets of the record set with no compression at all."""
    o = len(M.name_wire(rr.owner_abs))
    return sum(o + 10 + len(rd.wire()) for rd in rr.rdatas)


def _min_size(rr, known):
    """A lower bound of the octets of the record set under *any* sound compression:
    the owner costs at least a pointer; a name in the rdata whose full spelling has not
    occurred before costs at least its first label plus a pointer."""
    seen = set(known)
    total = 0
    for rd in rr.rdatas:
        total += 2 + 10
        for k, v in rd.fields:
            if k == "b":
                total += len(v)
            else:
                key = M.lower_labels(v)
                if key in seen or len(v) == 1:
                    total += 1 if len(v) == 1 else 2
                else:
                    total += 1 + len(v[0]) + (1 if len(v) == 2 else 2)
                    seen.add(key)
    return total


def _suffixes(labels):
    low = M.lower_labels(labels)
    return {low[i:] for i in range(len(low) - 1)}


def _set_suffixes(rr):
    out = _suffixes(rr.owner_abs)
    if rr.rdtype in _COMPRESSIBLE:
        for rd in rr.rdatas:
            for k, v in rd.fields:
                if k == "n":
                    out |= _suffixes(v)
    return out


def _set_names(rr):
    out = {M.lower_labels(rr.owner_abs)}
    for rd in rr.rdatas:
        for k, v in rd.fields:
            if k == "n":
                out.add(M.lower_labels(v))
    return out


# ----------------------------------------------------------------------------- record templates


def _a(rng):
    return M.MRdata([("b", bytes(rng.getrandbits(8) for _ in range(4)))])


def _aaaa(rng):
    return M.MRdata([("b", bytes(rng.getrandbits(8) for _ in range(16)))])


def _ns(target):
    return M.MRdata([("n", target)])


def _mx(pref, target):
    return M.MRdata([("b", struct.pack("!H", pref)), ("n", target)])


def _srv(i, target):
    return M.MRdata([("b", struct.pack("!HHH", i, 10, 5060)), ("n", target)])


def _soa(mname, rname, rng):
    return M.MRdata([("n", mname), ("n", rname), ("b", struct.pack("!IIIII", rng.getrandbits(32), 7200, 900, 1209600, 300))])


def _txt(n, fill):
    chunks = []
    while n > 0:
        k = min(255, n - 1)
        chunks.append(bytes([k]) + bytes([fill]) * k)
        n -= k + 1
    return M.MRdata([("b", b"".join(chunks) or b"\x00")])


class _Builder:
    """Collects the steps of one scenario, keeping record-set keys unique per section."""

    def __init__(self, rng, origin):
        self.rng = rng
        self.origin = origin
        self.steps = []
        self.keys = [set(), set(), set(), set()]

    def given(self, name):
        o = self.origin
        if o is not None and len(name) >= len(o) and tuple(name[len(name) - len(o) :]) == tuple(o) and self.rng.random() < 0.6:
            return tuple(name[: len(name) - len(o)])
        return tuple(name)

    def add(self, section, owner_abs, rdtype, rdatas, role, episode, ttl=None):
        key = (M.lower_labels(owner_abs), rdtype)
        if key in self.keys[section] or len(M.name_wire(owner_abs)) > 255:
            return None
        for rd in rdatas:
            for k, v in rd.fields:
                if k == "n" and len(M.name_wire(v)) > 255:
                    return None
        self.keys[section].add(key)
        if ttl is None:
            ttl = self.rng.choice((0, 1, 60, 300, 3600, 86400))
        rr = M.MRRset(self.given(owner_abs), owner_abs, 1, rdtype, ttl, rdatas)
        api = "rdataset" if self.rng.random() < 0.35 else "rrset"
        st = Step(section, rr, api, role, episode)
        self.steps.append(st)
        return st


def _follower(b, rng, kind, section, X, zone, ep):
    """A small record set that mentions X or a name ending in X."""
    if kind == "a_x":
        return b.add(section, X, 1, [_a(rng)], "follower", ep)
    if kind == "a_www_x":
        return b.add(section, (b"www",) + X, 1, [_a(rng), _a(rng)][: rng.randint(1, 2)], "follower", ep)
    if kind == "aaaa_deep_x":
        return b.add(section, (b"a", b"b") + X, 28, [_aaaa(rng)], "follower", ep)
    if kind == "ns_zone_to_x":
        return b.add(section, zone, 2, [_ns(X), _ns((b"ns0",) + X)][: rng.randint(1, 2)], "follower", ep)
    if kind == "mx_x_mail_x":
        return b.add(section, X, 15, [_mx(10, (b"mail",) + X)], "follower", ep)
    if kind == "cname_alias_to_x":
        return b.add(section, (b"alias%d" % ep,) + zone, 5, [_ns(X)], "follower", ep)
    if kind == "ptr_to_sub_x":
        return b.add(section, (b"4", b"3", b"in-addr", b"arpa", b""), 12, [_ns((b"sub",) + X)], "follower", ep)
    if kind == "soa_x":
        return b.add(section, X, 6, [_soa((b"ns",) + X, (b"admin",) + X, rng)], "follower", ep)
    if kind == "txt_sub_x":
        return b.add(section, (b"sub",) + X, 16, [_txt(rng.randint(1, 20), 0x66)], "follower", ep)
    if kind == "ns_x_ns_x":
        return b.add(section, X, 2, [_ns((b"ns1",) + X), _ns((b"ns2",) + X)], "follower", ep)
    raise ValueError(kind)


def _fresh_name(rng, kind, i, zone, previous):
    e = b"e%d" % i
    if kind == "under_zone":
        return (e,) + zone
    if kind == "new_branch":
        return (e, b"n%d" % i, b"")
    if kind == "under_previous" and previous:
        return (e,) + rng.choice(previous)
    if kind == "long_label":
        return ((b"l%d" % i) + b"o" * (63 - len(b"l%d" % i)),) + zone
    return (e,) + zone


def _big_plan(kind, owner_kind, X, zone, i):
    """(owner, rdtype, record factory j -> MRdata) of a record set that first mentions X."""
    if kind == "ns_other_owner":
        owner = zone
    elif owner_kind == "sub_x":
        owner = (b"sub",) + X
    elif owner_kind == "deep_x":
        owner = (b"p", b"q") + X
    else:
        owner = X

    def lab(prefix, j):
        s = b"%s%02d-" % (prefix, j)
        return s + b"y" * (60 - len(s))

    if kind == "txt":
        return owner, 16, None
    if kind in ("ns", "ns_other_owner"):
        return owner, 2, lambda j: _ns((lab(b"ns", j),) + X)
    if kind == "mx":
        return owner, 15, lambda j: _mx(j, (lab(b"mx", j),) + X)
    if kind == "srv":
        return owner, 33, lambda j: _srv(j, (lab(b"sv", j),) + X)
    raise ValueError(kind)


def _make_big(b, rng, kind, owner_kind, section, X, zone, ep, need):
    """Add a record set whose size is above ``need`` octets under any compression
    (need is None: a moderate size that may or may not fit)."""
    owner, rdtype, fac = _big_plan(kind, owner_kind, X, zone, ep)
    if fac is None:
        n = (need + 1 + rng.randint(0, 40)) if need is not None else rng.randint(30, 300)
        rds = [_txt(n, 0x41 + ep % 26)]
    else:
        rds = []
        if need is None:
            rds = [fac(j) for j in range(rng.randint(1, 5))]
        else:
            j = 0
            while True:
                rds.append(fac(j))
                j += 1
                probe = M.MRRset(owner, owner, 1, rdtype, 0, rds)
                if _min_size(probe, ()) > need or j > 400:
                    break
            for _ in range(rng.randint(0, 2)):
                rds.append(fac(j))
                j += 1
    return b.add(section, owner, rdtype, rds, "big", ep)


def _tsig_name(kind, X, zone):
    if kind == "x":
        return X
    if kind == "k_x":
        return (b"k",) + X
    if kind == "k_sub_x":
        return (b"key", b"sub") + X
    return (b"tsig-key", b"elsewhere", b"")


def _tsig_size(t):
    """RFC 8945 4.2, owner and algorithm name written in full."""
    return len(M.name_wire(t["name"])) + 10 + len(M.name_wire(t["alg"])) + 16 + t["mac"] + len(t["other"])


def _opt_size(m):
    if m.edns < 0:
        return 0
    return 11 + sum(4 + len(v) for _, v in m.options)


def _new_message(rng, origin, want_edns):
    m = M.MMessage()
    m.notes = []
    m.kind = "response"
    m.id = rng.choice((0, 1, 0xFFFF, rng.getrandbits(16)))
    m.flags = 0x8000 | rng.choice((0, 0x0400, 0x0100, 0x0180, 0x0480, 0x0030))
    m.origin = origin
    m.abs_only = origin is None
    m.case_mix = False
    m.zone = m.zone_class = m.ops = None
    if want_edns:
        m.edns = rng.choice((0, 0, 0, 1))
        m.ednsflags = rng.choice((0, 0x8000, 0x8000, 0x0001))
        m.payload = rng.choice((512, 1232, 4096))
        m.options = M.gen_options(rng, maxn=2, maxlen=12) if rng.random() < 0.4 else []
        m.rcode = rng.choice((0, 0, 3, 16, 23, 4095))
    else:
        m.edns, m.ednsflags, m.payload, m.options = -1, 0, 0, []
        m.rcode = rng.choice((0, 0, 2, 3))
    m.sections = [[], [], [], []]
    return m


def _finish(sc, b, m, rng, tsig_kind, tsig_X, zone):
    sc.steps = sorted(b.steps, key=lambda s: s.section)  # stable: creation order within a section
    for st in sc.steps:
        m.sections[st.section].append(st.rr)
    m.all_absolute = m.abs_only and all(M.is_abs(r.owner) for s in m.sections for r in s)
    sc.m = m
    sc.origin = m.origin
    sc.tsig = None
    if tsig_kind != "none":
        alg, mac = rng.choice(_ALGS)
        other, err = b"", 0
        if rng.random() < 0.1:
            err, other = 18, struct.pack("!HI", 0, 1700000000)
        sc.tsig = {
            "name": _tsig_name(tsig_kind, tsig_X, zone),
            "alg": alg,
            "mac": mac,
            "secret": bytes(rng.getrandbits(8) for _ in range(rng.choice((16, 32)))),
            "fudge": rng.choice((300, 600)),
            "error": err,
            "other": other,
        }


def _zone(rng):
    return rng.choice(((b"example", b"com", b""), (b"example", b"net", b""), (b"z", b""), (b"corp", b"example", b"org", b"")))


def _question(rng, b, zone):
    qname = rng.choice((zone, (b"www",) + zone, (b"host", b"dept") + zone))
    rr = M.MRRset(b.given(qname), qname, 1, rng.choice((1, 2, 15, 255)), 0, [])
    return rr


def gen_renderer_scenario(sub, grid=None):
    """Several overflow episodes in one message, low-level Renderer route."""
    rng = random.Random(("c03-overflow-r", sub, repr(grid)).__repr__())
    zone = _zone(rng)
    origin = zone if rng.random() < 0.25 else None
    sc = Scenario()
    sc.route = "renderer"
    m = _new_message(rng, origin, rng.random() < 0.5)
    b = _Builder(rng, origin)
    if rng.random() < 0.9:
        m.sections[0].append(_question(rng, b, zone))
    if grid is not None:
        fresh_kind, big_kind, big_owner, fol_kind, tsig_kind, n_ep = grid
        plan = [(fresh_kind, big_kind, big_owner, [fol_kind]) for _ in range(n_ep)]
        mode = "guaranteed"
    else:
        n_ep = rng.choice((1, 2, 2, 3, 3, 4))
        plan = [
            (
                rng.choice(FRESH_KINDS),
                rng.choice(BIG_KINDS),
                rng.choice(BIG_OWNERS),
                [rng.choice(FOLLOWER_KINDS) for _ in range(rng.choice((0, 1, 1, 2, 2, 3)))],
            )
            for _ in range(n_ep)
        ]
        tsig_kind = rng.choice(TSIG_KINDS)
        mode = rng.choice(("guaranteed",) * 13 + ("tight",) * 4 + ("maybe",) * 3)
    sc.mode = mode
    # pass 1: everything except the big sets (their size depends on the limit)
    section = 1
    pending = []  # (episode, section, position in b.steps, fresh name, kinds)
    previous = []
    for ep, (fresh_kind, big_kind, big_owner, fols) in enumerate(plan):
        section = min(3, section + rng.choice((0, 0, 1)))
        for _ in range(rng.choice((0, 0, 1, 2)) if grid is None else (1 if ep == 0 else 0)):
            fo = rng.choice((zone, (b"www",) + zone, (b"mail",) + zone, (b"f%d" % ep,) + zone))
            ft = rng.choice((1, 28, 16, 2))
            frd = {1: _a(rng), 28: _aaaa(rng), 16: _txt(rng.randint(1, 12), 0x7A), 2: _ns((b"ns",) + zone)}[ft]
            b.add(section, fo, ft, [frd], "filler", ep)
        X = _fresh_name(rng, fresh_kind, ep, zone, previous)
        previous.append(X)
        pending.append((ep, section, len(b.steps), X, big_kind, big_owner))
        for fk in fols:
            fsec = section if rng.random() < 0.7 else rng.randint(section, 3)
            _follower(b, rng, fk, fsec, X, zone, ep)
    tsig_X = previous[-1] if (grid is not None or rng.random() < 0.6) else rng.choice(previous)
    _finish_tmp = Scenario()
    _finish(_finish_tmp, b, m, rng, tsig_kind, tsig_X, zone)
    tsig = _finish_tmp.tsig
    # the limit: everything that is not a big set fits even without any compression
    q = sum(len(M.name_wire(r.owner_abs)) + 4 for r in m.sections[0])
    small = sum(_max_size(st.rr) for st in b.steps)
    U = 12 + q + small + _opt_size(m) + (_tsig_size(tsig) if tsig else 0)
    if mode == "tight":
        L = rng.randint(min(U, 12 + q + 20), U)
    else:
        L = U + rng.choice((0, 0, 1, 2, 3, 5, rng.randint(0, 30)))
    sc.L = L
    # pass 2: the big sets, inserted where their episode starts
    for ep, sec, pos, X, big_kind, big_owner in reversed(pending):
        tail = b.steps[pos:]
        del b.steps[pos:]
        need = None if mode == "maybe" else L - 12
        st = _make_big(b, rng, big_kind, big_owner, sec, X, zone, ep, need)
        if st is None:  # key taken by a filler: fall back to the plain owner
            _make_big(b, rng, "txt", "deep_x", sec, X, zone, ep, need)
        b.steps.extend(tail)
    if mode == "maybe":
        bigs = sum(_max_size(st.rr) for st in b.steps if st.role == "big")
        sc.L = L + int(bigs * rng.random())
    for s in (1, 2, 3):
        m.sections[s] = []
    _finish(sc, b, m, rng, "none", tsig_X, zone)
    sc.tsig = tsig
    return sc


def gen_message_scenario(sub, grid=None):
    """Message.to_wire(max_size, prefer_truncation=True): small sets that fit, then a set that
    first mentions X and overflows, then sets that are never reached; OPT and a TSIG whose
    key name is X or lies under it are appended after the rollback."""
    rng = random.Random(("c03-overflow-m", sub, repr(grid)).__repr__())
    zone = _zone(rng)
    origin = zone if rng.random() < 0.25 else None
    sc = Scenario()
    sc.route = "message"
    sc.mode = "guaranteed"
    m = _new_message(rng, origin, rng.random() < 0.6)
    b = _Builder(rng, origin)
    if rng.random() < 0.9:
        m.sections[0].append(_question(rng, b, zone))
    if grid is not None:
        fresh_kind, big_kind, big_owner, fol_kind, tsig_kind, _n = grid
    else:
        fresh_kind = rng.choice(FRESH_KINDS)
        big_kind = rng.choice(BIG_KINDS)
        big_owner = rng.choice(BIG_OWNERS)
        fol_kind = rng.choice(FOLLOWER_KINDS)
        tsig_kind = rng.choice(("x", "k_x", "k_sub_x", "x", "k_x", "unrelated", "none"))
    section = rng.choice((1, 1, 2, 3))
    for i in range(rng.randint(0, 5)):
        fs = rng.randint(1, section)
        fo = rng.choice((zone, (b"www",) + zone, (b"mail",) + zone, (b"f%d" % i,) + zone))
        ft = rng.choice((1, 28, 16, 2, 15))
        frd = {
            1: _a(rng),
            28: _aaaa(rng),
            16: _txt(rng.randint(1, 90), 0x7A),
            2: _ns((b"ns",) + zone),
            15: _mx(5, (b"mx",) + zone),
        }[ft]
        b.add(fs, fo, ft, [frd], "filler", 0)
    X = _fresh_name(rng, fresh_kind, 0, zone, [])
    tmp = Scenario()
    _finish(tmp, b, m, rng, tsig_kind, X, zone)
    tsig = tmp.tsig
    q = sum(len(M.name_wire(r.owner_abs)) + 4 for r in m.sections[0])
    U = 12 + q + sum(_max_size(st.rr) for st in b.steps) + _opt_size(m) + (_tsig_size(tsig) if tsig else 0)
    L = max(512, U + rng.choice((0, 0, 1, 2, 3, rng.randint(0, 40))))
    sc.L = L
    st = _make_big(b, rng, big_kind, big_owner, section, X, zone, 0, L - 12)
    if st is None:
        _make_big(b, rng, "txt", "deep_x", section, X, zone, 0, L - 12)
    # never reached, but part of the message
    for fk in [fol_kind] + [rng.choice(FOLLOWER_KINDS) for _ in range(rng.randint(0, 2))]:
        _follower(b, rng, fk, rng.randint(section, 3), X, zone, 0)
    for s in (1, 2, 3):
        m.sections[s] = []
    _finish(sc, b, m, rng, "none", X, zone)
    # sections are rendered in order: the big set must be the first that does not fit, which
    # holds because every set before it (in section order) is a filler
    sc.tsig = tsig
    return sc


def build_scenario(desc):
    grid = tuple(desc["grid"]) if desc.get("grid") is not None else None
    if desc["route"] == "renderer":
        sc = gen_renderer_scenario(desc["sub"], grid)
    else:
        sc = gen_message_scenario(desc["sub"], grid)
    sc.desc = desc
    return sc


def grid_points():
    """The enumerated axes: fresh-name pattern x kind of the overflowing set x its owner
    pattern x kind of the set that reuses the name x TSIG key name x number of episodes."""
    out = []
    for fresh in FRESH_KINDS:
        for big in BIG_KINDS:
            for owner in BIG_OWNERS:
                if big == "ns_other_owner" and owner != "x":
                    continue
                for fol in FOLLOWER_KINDS:
                    for ts in TSIG_KINDS:
                        for n in (1, 2, 3):
                            if fresh == "under_previous" and n == 1:
                                continue
                            out.append((fresh, big, owner, fol, ts, n))
    return out


# ----------------------------------------------------------------------------- running the real code


def _lib_sets(sc):
    """dns.rrset / dns.rdataset objects for the steps (public constructors only)."""
    import dns.name
    import dns.rdata
    import dns.rdataset
    import dns.rrset

    origin = dns.name.Name(sc.origin) if sc.origin is not None else None
    out = []
    for st in sc.steps:
        r = st.rr
        name = dns.name.Name(r.owner)
        rds = []
        for rd in r.rdatas:
            w = rd.wire()
            rds.append(dns.rdata.from_wire(r.rdclass, r.rdtype, w, 0, len(w), origin))
        if st.api == "rrset":
            rrset = dns.rrset.RRset(name, r.rdclass, r.rdtype, r.covers)
            for rd in rds:
                rrset.add(rd, r.ttl)
            out.append((name, rrset))
        else:
            rdataset = dns.rdataset.Rdataset(r.rdclass, r.rdtype, r.covers)
            for rd in rds:
                rdataset.add(rd, r.ttl)
            out.append((name, rdataset))
    return origin, out


def run_renderer(sc):
    """Returns (wire, accepted flags per step, question_ok, opt_ok, tsig_ok, key).
    Exceptions other than TooBig propagate to the caller."""
    import dns.exception
    import dns.name
    import dns.renderer
    import dns.tsig

    m = sc.m
    origin, sets = _lib_sets(sc)
    r = dns.renderer.Renderer(id=m.id, flags=m.wire_flags(), max_size=sc.L, origin=origin)
    q_ok = []
    for q in m.sections[0]:
        try:
            r.add_question(dns.name.Name(q.owner), q.rdtype, q.rdclass)
            q_ok.append(True)
        except dns.exception.TooBig:
            q_ok.append(False)
    accepted = []
    for st, (name, obj) in zip(sc.steps, sets):
        try:
            if st.api == "rrset":
                r.add_rrset(st.section, obj, want_shuffle=False)
            else:
                r.add_rdataset(st.section, name, obj, want_shuffle=False)
            accepted.append(True)
        except dns.exception.TooBig:
            accepted.append(False)
    opt_ok = False
    if m.edns >= 0:
        import dns.edns

        opts = [dns.edns.option_from_wire(c, v, 0, len(v)) for c, v in m.options]
        try:
            r.add_edns(m.edns, ((m.rcode >> 4) << 24) | m.ednsflags, m.payload, opts)
            opt_ok = True
        except dns.exception.TooBig:
            pass
    r.write_header()
    tsig_ok = False
    key = None
    if sc.tsig is not None:
        t = sc.tsig
        kname = dns.name.Name(t["name"])
        key = dns.tsig.Key(kname, t["secret"], dns.name.Name(t["alg"]))
        try:
            r.add_tsig(kname, key, t["fudge"], m.id, t["error"], t["other"], b"", dns.name.Name(t["alg"]))
            tsig_ok = True
        except dns.exception.TooBig:
            pass
    return r.get_wire(), accepted, q_ok, opt_ok, tsig_ok, key


def run_message(sc):
    import dns.name
    import dns.tsig

    m = sc.m
    msg, origin = M.build_library_message(m)
    key = None
    if sc.tsig is not None:
        t = sc.tsig
        key = dns.tsig.Key(dns.name.Name(t["name"]), t["secret"], dns.name.Name(t["alg"]))
        msg.use_tsig(key, fudge=t["fudge"], tsig_error=t["error"], other_data=t["other"])
    kw = {"want_shuffle": False}
    if origin is not None:
        kw["origin"] = origin
    wire = msg.to_wire(max_size=sc.L, prefer_truncation=True, **kw)
    return wire, key


# ----------------------------------------------------------------------------- the check


def _f(out, clause, what, sig):
    out.append({"clause": clause, "what": what, "sig": sig})


def _tsig_frame_ok(got, t, msg_id):
    if not (got.rdtype == 250 and got.rdclass == 255 and got.ttl == 0):
        return False
    f = got.fields
    if not (len(f) == 2 and f[0][0] == "n" and M.lower_labels(f[0][1]) == M.lower_labels(t["alg"]) and f[1][0] == "b"):
        return False
    rest = f[1][1]
    if len(rest) != 16 + t["mac"] + len(t["other"]):
        return False
    fudge, macsize = struct.unpack("!HH", rest[6:10])
    if macsize != t["mac"]:
        return False
    oid, err, olen = struct.unpack("!HHH", rest[10 + macsize : 16 + macsize])
    return fudge == t["fudge"] and oid == msg_id and err == t["error"] and olen == len(t["other"]) and rest[16 + macsize :] == t["other"]


def _names_only_diff(groups, frames):
    """True when the decoded frames are the expected ones except for the *names* they
    carry (owner or names inside the rdata): the framing and every opaque octet agree, so
    the difference was made by the expansion of a compression pointer."""
    flat = [f for g in groups for f in g]
    if len(flat) != len(frames):
        return False
    differs = False
    for e, g in zip(flat, frames):
        if (e.rdtype, e.rdclass, e.ttl) != (g.rdtype, g.rdclass, g.ttl):
            return False
        if e.owner != g.owner:
            differs = True
        ef, gf = e.fields, g.fields
        if (ef is None) != (gf is None):
            return False
        if ef is None:
            continue
        if len(ef) != len(gf):
            return False
        for (ek, ev), (gk, gv) in zip(ef, gf):
            if ek != gk:
                return False
            if ek == "b":
                if ev != gv:
                    return False
            elif ev != gv:
                differs = True
    return differs


def _sig_pointer(fam):
    return dict(
        fam,
        site="Renderer._rollback/compress",
        **{"class": "a pointer emitted after a rolled-back record set does not target an earlier occurrence of that name suffix"},
    )


def check_scenario(sc):
    """Run one scenario on the real code and evaluate the clauses.  Returns (findings, info)."""
    import dns.exception
    import dns.message

    out = []
    info = {"len": 0, "pointers": 0, "records": 0, "rollbacks": 0, "reuse": 0, "tsig_reuse": False, "edns": False, "tsig": False}
    m = sc.m
    route = sc.route
    fam = {"family": "overflow", "route": route}
    try:
        if route == "renderer":
            wire, accepted, q_ok, opt_ok, tsig_ok, key = run_renderer(sc)
        else:
            wire, key = run_message(sc)
            accepted = None
    except Exception as e:
        _f(
            out,
            "C03.render_parse_total",
            f"rendering with limit {sc.L} and carrying on after TooBig raised {type(e).__name__}: {e}",
            dict(fam, site="Renderer after TooBig" if route == "renderer" else "Message.to_wire(prefer_truncation)", exc=type(e).__name__),
        )
        return out, info
    info["len"] = len(wire)
    info["wire"] = wire

    # ---------------------------------------------------------------- independent decode
    dec = M.WireDecoder(wire)
    try:
        d = dec.message()
    except M.DecodeError as e:
        if dec.problems:
            _f(
                out,
                "C03.compression_sound",
                f"after a rolled-back record set (limit {sc.L}) the independent decoder finds: {dec.problems[0]}",
                _sig_pointer(fam),
            )
        else:
            _f(
                out,
                "C03.header_counts",
                f"after a rolled-back record set (limit {sc.L}) the independent decoder cannot walk the message: {e}",
                dict(fam, site="Renderer._rollback/counts", **{"class": "framing/count mismatch after rollback"}),
            )
        return out, info
    info["pointers"] = len(d.pointers)
    info["records"] = sum(len(s) for s in d.sections)
    if d.problems:
        # everything else that goes wrong with this message follows from the bad pointer
        _f(
            out,
            "C03.compression_sound",
            f"after a rolled-back record set (limit {sc.L}) the independent decoder finds: {d.problems[0]}",
            _sig_pointer(fam),
        )
        return out, info
    got_sections = [list(s) for s in d.sections]

    # ---------------------------------------------------------------- which sets are present
    if route == "renderer":
        present_q = [q for q, ok in zip(m.sections[0], q_ok) if ok]
        present = [st for st, ok in zip(sc.steps, accepted) if ok]
        has_opt = opt_ok
        has_tsig = tsig_ok
        truncated = not all(accepted)
    else:
        present_q = list(m.sections[0])
        has_opt = m.edns >= 0
        has_tsig = sc.tsig is not None
        # the records present must be whole leading record sets, in order
        n_tail = (1 if has_opt else 0) + (1 if has_tsig else 0)
        n_rec = sum(d.counts[1:]) - n_tail
        present = []
        acc = 0
        for st in sc.steps:
            if acc + len(st.rr.rdatas) > n_rec:
                break
            acc += len(st.rr.rdatas)
            present.append(st)
        if acc != n_rec:
            _f(
                out,
                "C03.header_counts",
                f"limit {sc.L}: the header counts {d.counts} hold {n_rec} records, which is not a whole number of leading record sets",
                dict(fam, site="Message.to_wire(prefer_truncation)", **{"class": "partial record set"}),
            )
            return out, info
        accepted = [i < len(present) for i in range(len(sc.steps))]
        truncated = len(present) < len(sc.steps)
    info["edns"] = has_opt
    info["tsig"] = has_tsig

    # generator bookkeeping: was a suffix first mentioned by a removed set used again?
    seen = set()
    for q in present_q:
        seen |= _suffixes(q.owner_abs)
    stale = set()
    for st, ok in zip(sc.steps, accepted):
        sfx = _set_suffixes(st.rr)
        if ok:
            if sfx & stale:
                info["reuse"] += 1
            seen |= sfx
        else:
            info["rollbacks"] += 1
            stale |= sfx - seen
        if route == "message" and not ok:
            break
    if has_tsig and (_suffixes(sc.tsig["name"]) & stale):
        info["tsig_reuse"] = True

    # ---------------------------------------------------------------- header
    exp_flags = m.wire_flags()
    flags_ok = d.flags == exp_flags
    if route == "message" and truncated:
        flags_ok = (d.flags | TC) == (exp_flags | TC)  # whether TC is due is C08's clause
    if d.id != m.id or not flags_ok:
        _f(
            out,
            "C03.header_fields",
            f"rendered header id/flags {d.id}/{d.flags:#06x}, expected {m.id}/{exp_flags:#06x}",
            dict(fam, site="Renderer.write_header", **{"class": "id/flags"}),
        )
    ecounts = [len(present_q), 0, 0, 0]
    for st in present:
        ecounts[st.section] += len(st.rr.rdatas)
    ecounts[3] += (1 if has_opt else 0) + (1 if has_tsig else 0)
    if tuple(d.counts) != tuple(ecounts):
        _f(
            out,
            "C03.header_counts",
            f"limit {sc.L}: header counts {d.counts}, records accepted {tuple(ecounts)} ({sum(1 for a in accepted if not a)} record sets were rejected with TooBig)",
            dict(fam, site="Renderer.counts", **{"class": "count != records accepted"}),
        )

    # ---------------------------------------------------------------- records, exact names
    got_tsig = got_opt = None
    if has_tsig and got_sections[3]:
        got_tsig = got_sections[3].pop()
    if has_opt and got_sections[3]:
        got_opt = got_sections[3].pop()
    groups = [[q.frames(question=True) for q in present_q], [], [], []]
    for st in present:
        groups[st.section].append(st.rr.frames())
    for s in range(4):
        status, detail = M.compare_frames(groups[s], got_sections[s], ordered=True)
        if status != "ok":
            detail = detail or "a name differs in ASCII case although one spelling per label was used"
            if _names_only_diff(groups[s], got_sections[s]):
                # a pointer that lands on a label start of some *other* name
                _f(
                    out,
                    "C03.compression_sound",
                    f"limit {sc.L}: after a rolled-back record set the independent decoder recovers a different name in section {s}: {detail}",
                    _sig_pointer(fam),
                )
                return out, info
            _f(
                out,
                "C03.records_same",
                f"limit {sc.L}: section {s} of the message rendered around rolled-back sets differs from the accepted sets: {detail}",
                dict(fam, site="Renderer after rollback", **{"class": "rendered records differ"}),
            )
    if has_opt:
        exp = m.expected_opt_frame()
        if got_opt is None or got_opt.key() != exp.key():
            _f(
                out,
                "C03.edns_state",
                f"rendered OPT {None if got_opt is None else got_opt.describe()} expected {exp.describe()}",
                dict(fam, site="Renderer.add_opt", **{"class": "OPT record differs"}),
            )
    if has_tsig:
        t = sc.tsig
        if got_tsig is None or got_tsig.rdtype != 250:
            _f(
                out,
                "C03.records_same",
                f"limit {sc.L}: a TSIG was added without TooBig but the last record is {None if got_tsig is None else got_tsig.describe()}",
                dict(fam, site="TSIG record after rollback", **{"class": "TSIG missing"}),
            )
        elif got_tsig.owner != tuple(t["name"]):
            _f(
                out,
                "C03.compression_sound",
                f"limit {sc.L}: the TSIG owner decodes to {None if got_tsig is None else got_tsig.describe()['owner']}, the key name is {[l.decode('latin-1') for l in t['name']]}",
                _sig_pointer(fam),
            )
            return out, info
        elif not _tsig_frame_ok(got_tsig, t, m.id):
            _f(
                out,
                "C03.records_same",
                f"limit {sc.L}: the last record {got_tsig.describe()} is not the TSIG that was configured",
                dict(fam, site="TSIG record after rollback", **{"class": "rendered records differ"}),
            )

    # ---------------------------------------------------------------- parse
    from bounded import C03 as _C

    try:
        kr = None
        if has_tsig:
            kr = key if sc.tsig["error"] == 0 else False
        p = dns.message.from_wire(wire, keyring=kr)
    except Exception as e:
        _f(
            out,
            "C03.render_parse_total",
            f"limit {sc.L}: from_wire of the message rendered around rolled-back sets raised {type(e).__name__}: {e}",
            dict(fam, site="dns.message.from_wire", exc=type(e).__name__),
        )
        return out, info
    # an extended rcode needs the OPT record; when add_edns itself was rejected only id and
    # flags can be compared
    rcode_known = has_opt or m.rcode < 16
    try:
        got = (p.id, int(p.flags) & 0xFFFF, int(p.rcode()) if rcode_known else None)
    except Exception as e:
        got = ("exception", type(e).__name__)
    exp = (m.id, d.flags, m.rcode if rcode_known else None)
    if got != exp:
        _f(
            out,
            "C03.header_fields",
            f"parsed message (id, flags, rcode) = {got}, rendered {exp}",
            dict(fam, site="Message.rcode/flags", **{"class": "parsed header value"}),
        )
    if has_opt:
        try:
            gote = (int(p.edns), int(p.ednsflags), int(p.payload), [(int(o.otype), o.to_wire()) for o in p.options])
        except Exception as e:
            gote = ("exception", type(e).__name__)
        expe = (m.edns, m.expected_opt_frame().ttl, m.payload, [(c, v) for c, v in m.options])
        if gote != expe:
            _f(
                out,
                "C03.edns_state",
                f"parsed message EDNS state {gote!r}, expected {expe!r}",
                dict(fam, site="Message.edns/ednsflags/payload/options", **{"class": "parsed EDNS state"}),
            )
    if bool(p.had_tsig) != bool(has_tsig):
        _f(
            out,
            "C03.records_same",
            f"parsed message had_tsig={p.had_tsig}, a TSIG was {'added' if has_tsig else 'not added'}",
            dict(fam, site="dns.message.from_wire", **{"class": "TSIG presence"}),
        )
    origin = None
    for s in range(4):
        exp_groups = []
        src = present_q if s == 0 else [st.rr for st in present if st.section == s]
        for r in src:
            if s == 0:
                exp_groups.append([(r.owner_abs, r.rdtype, r.wire_class, None, None)])
            else:
                exp_groups.append([(r.owner_abs, r.rdtype, r.wire_class, r.ttl, rd.wire()) for rd in r.rdatas])
        try:
            gotr = _C._lib_records(p, origin, s)
        except Exception as e:
            _f(
                out,
                "C03.records_same",
                f"cannot read back parsed section {s}: {type(e).__name__}: {e}",
                dict(fam, site="dns.message.from_wire", **{"class": "parsed record unusable"}),
            )
            continue
        status, detail = _C._cmp_records(exp_groups, gotr, ordered=True, regroup=False)
        if status != "ok":
            _f(
                out,
                "C03.records_same",
                f"limit {sc.L}: parsed section {s} differs from the accepted record sets: {detail or 'letter case'}",
                dict(fam, site="dns.message.from_wire", **{"class": "parsed records differ"}),
            )
        try:
            scount = p.section_count(s)
        except Exception as e:
            scount = type(e).__name__
        if scount != d.counts[s]:
            _f(
                out,
                "C03.header_counts",
                f"section_count({s}) of the parsed message is {scount}, header says {d.counts[s]}",
                dict(fam, site="Message.section_count", **{"class": "count != header"}),
            )
    # ---------------------------------------------------------------- re-render
    if not has_tsig:
        try:
            again = p.to_wire(max_size=65535, want_shuffle=False)
        except Exception as e:
            _f(
                out,
                "C03.rerender_exact",
                f"re-rendering the parsed message raised {type(e).__name__}: {e}",
                dict(fam, site="Message.to_wire(parsed)", exc=type(e).__name__),
            )
        else:
            if again != wire:
                k = next((i for i, (a, c) in enumerate(zip(again, wire)) if a != c), min(len(again), len(wire)))
                _f(
                    out,
                    "C03.rerender_exact",
                    f"limit {sc.L}: the message rendered around rolled-back sets and its second rendering differ at octet {k} (lengths {len(wire)} -> {len(again)})",
                    dict(fam, site="Message.to_wire(parsed)", **{"class": "bytes differ"}),
                )
    return out, info


def check_desc(desc):
    return check_scenario(build_scenario(desc))
