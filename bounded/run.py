import sys
from bounded.common import main
if __name__ == "__main__":
    sys.exit(main())
