"""Field-extreme generator for the C04 bounded stand-in (helper of bounded/C04.py).

For every record type implemented by the library this module holds one or more *wire
layouts* written from the defining RFCs (not from the library): a specimen RDATA as a
sequence of fields

    ("u8"|"u16"|"u32"|"u48", value, label[, extra values])   fixed-width big-endian integer
    ("name", "host.example.")                                uncompressed domain name
    ("c8", bytes) / ("c16", bytes)                           octets behind an 8/16-bit length
    ("raw", bytes)                                           opaque octets
    ("fix", bytes, label)                                    opaque fixed-size field (address,
                                                             EUI, locator): swept 00.. / ff..

``cases()`` (the BASE set, identical in both tiers) yields, per layout, the unmodified
specimen and then the specimen in which exactly one integer field takes each value of its
sweep set (0, 1, max-1, max of its width plus the interior boundaries of the code spaces stored
in such fields: 4095/4096 for extended RCODEs, 127/128, 2**31-1/2**31, ...), the length octets
of counted fields likewise, every fixed-size opaque field all-zeros / all-ones, and all integer
fields at 0 / 1 / max-1 / max together.  ``extra_cases()`` (thorough tier) adds the interior:
every octet value, 16-bit neighbourhoods and, for the "full" code-point fields, all 65 536
values.  ``wrap_message`` puts such an RDATA into a response message (answer section; OPT and
TSIG in the additional section, TSIG last, class ANY) with the independent encoder of _c04_gen.

Nothing here is seeded: the generator is systematic and identical in every run of a tier.
"""

from __future__ import annotations

import struct

from bounded._c04_gen import enc_header, enc_name, enc_q, enc_rr

WIDTH = {"u8": 1, "u16": 2, "u32": 4, "u48": 6}

# ---------------------------------------------------------------------------- sweep sets
_U8_EDGE = [0, 1, 2, 3, 4, 5, 9, 10, 15, 16, 17, 127, 128, 129, 153, 154, 253, 254, 255]
# quick tier, code-point octets: the small registry values and the nibble boundaries
_U8_DENSE = set(range(0, 24)) | {0x19, 0x1A, 0x20, 0x21, 0x3F, 0x40, 0x41, 0x7E, 0x80, 0x81, 0x82, 0x83, 0x84, 0x8F,
                                 0x90, 0x91, 0x99, 0x9A, 0xA0, 0xA9, 0xAA, 0xF0, 0xF9, 0xFA}
_U16_EDGE = [0, 1, 2, 3, 15, 16, 22, 23, 24, 41, 249, 250, 251, 252, 254, 255, 256, 257, 4094, 4095, 4096, 4097,
             32767, 32768, 65279, 65280, 65534, 65535]
_U32_EDGE = [0, 1, 2, 255, 256, 65535, 65536, 0x7FFFFFFE, 0x7FFFFFFF, 0x80000000, 0x80000001, 0xFFFFFFFE, 0xFFFFFFFF]
_U48_EDGE = [0, 1, 0x7FFFFFFF, 0x80000000, 0xFFFFFFFF, 0x100000000, (1 << 47) - 1, 1 << 47, (1 << 48) - 2, (1 << 48) - 1]


def _pow2_neighbours(bits):
    out = set()
    for k in range(bits + 1):
        for d in (-1, 0, 1):
            v = (1 << k) + d
            if 0 <= v < (1 << bits):
                out.add(v)
    return out


def sweep(kind, dense=False):
    """BASE set (both tiers): values an integer field of *kind* takes.  *dense*: the field is
    a code point of a registry (type, error, mode, algorithm ...) or nibble-coded: more
    interior values ("full": every value of an octet)."""
    if kind == "u8":
        if dense == "full":
            return list(range(256))
        return sorted(set(_U8_EDGE) | _U8_DENSE) if dense else list(_U8_EDGE)
    if kind == "u16":
        s = set(_U16_EDGE)
        if dense:
            s |= set(range(0, 70)) | set(range(240, 262))
        return sorted(s)
    if kind == "u32":
        return list(_U32_EDGE)
    if kind == "u48":
        return list(_U48_EDGE)
    raise ValueError(kind)


def sweep_extra(kind, dense=False):
    """THOROUGH additions to sweep(): every octet value; for 16-bit fields 0..299, the
    neighbourhood of every power of two, of 4096 and of the private-use range, and for the
    "full" code-point fields all 65 536 values; powers of two +-1 for the wider fields."""
    if kind == "u8":
        s = set(range(256))
    elif kind == "u16":
        if dense == "full":
            s = set(range(65536))
        else:
            s = _pow2_neighbours(16) | set(range(0, 300)) | set(range(4090, 4102)) | set(range(65270, 65536))
    elif kind == "u32":
        s = _pow2_neighbours(32)
    elif kind == "u48":
        s = _pow2_neighbours(48)
    else:
        raise ValueError(kind)
    return sorted(s - set(sweep(kind, dense)))


def edge(kind):
    return {"u8": _U8_EDGE, "u16": _U16_EDGE, "u32": _U32_EDGE, "u48": _U48_EDGE}[kind]


# ---------------------------------------------------------------------------- encoding
def _enc_int(kind, v):
    return int(v).to_bytes(WIDTH[kind], "big")


def _enc_field(f):
    k = f[0]
    if k in WIDTH:
        return _enc_int(k, f[1])
    if k == "name":
        return enc_name(f[1])
    if k == "c8":
        return bytes([len(f[1])]) + f[1]
    if k == "c16":
        return struct.pack("!H", len(f[1])) + f[1]
    if k in ("raw", "fix"):
        return f[1]
    raise ValueError(k)


def build(fields, subst=None):
    """Wire of the layout; subst = {field index: replacement octets for that field}."""
    out = b""
    for i, f in enumerate(fields):
        out += subst[i] if subst and i in subst else _enc_field(f)
    return out


# ---------------------------------------------------------------------------- layouts
def U8(v, label, *extra, dense=False):
    return ("u8", v, label, list(extra), dense)


def U16(v, label, *extra, dense=False):
    return ("u16", v, label, list(extra), dense)


def U32(v, label, *extra):
    return ("u32", v, label, list(extra), False)


def U48(v, label, *extra):
    return ("u48", v, label, list(extra), False)


def N(t):
    return ("name", t)


def C8(b):
    return ("c8", b)


def C16(b):
    return ("c16", b)


def RAW(b):
    return ("raw", b)


def FIX(b, label):
    return ("fix", b, label)


_KEY = bytes.fromhex("030100019b7d3c1e") + bytes(range(16, 48))
_SIG = bytes(range(1, 41))
_SHA1 = bytes(range(20))
_SHA256 = bytes(range(32))
_V4 = bytes([192, 0, 2, 38])
_V6 = bytes.fromhex("20010db8000000000000000000000015")
# RFC 4034 4.1.2 type bitmap: window 0 {A, MX, RRSIG, NSEC}, window 4 {TYPE1234}
_BITMAP0 = bytes.fromhex("40010000000003")  # A(1) MX(15) RRSIG(46) NSEC(47)
_LAT = 0x80000000 + 60 * 3600000
_LON = 0x80000000 - 24 * 3600000
_D90 = 90 * 3600000
_D180 = 180 * 3600000

IN, CH, NONE_, ANY = 1, 3, 254, 255

# (rdclass, rdtype, label, fields)
LAYOUTS = [
    (IN, 1, "A", [("u32", 0x0A350001, "address", [], False)]),
    (CH, 1, "CH-A", [N("host.example."), U16(0o177777, "address")]),
    (NONE_, 1, "NONE-A", [("u32", 0x0A350001, "address", [], False)]),
    (IN, 2, "NS", [N("ns1.example.")]),
    (IN, 5, "CNAME", [N("target.example.")]),
    (IN, 6, "SOA", [N("ns1.example."), N("hostmaster.example."), U32(2024010101, "serial"), U32(7200, "refresh"),
                    U32(3600, "retry"), U32(1209600, "expire"), U32(300, "minimum")]),
    (IN, 11, "WKS", [FIX(_V4, "address"), U8(6, "protocol"), RAW(bytes.fromhex("0000046000"))]),
    (IN, 12, "PTR", [N("foo.example.")]),
    (IN, 13, "HINFO", [C8(b"Generic PC"), C8(b"NetBSD-1.4")]),
    (IN, 15, "MX", [U16(10, "preference"), N("mail.example.")]),
    (IN, 16, "TXT", [C8(b"foo bar"), C8(b"baz")]),
    (IN, 17, "RP", [N("mbox.example."), N("txt.example.")]),
    (IN, 18, "AFSDB", [U16(1, "subtype"), N("afs.example.")]),
    (IN, 19, "X25", [C8(b"311061700956")]),
    (IN, 20, "ISDN", [C8(b"150862028003217"), C8(b"004")]),
    (IN, 21, "RT", [U16(2, "preference"), N("relay.example.")]),
    (IN, 22, "NSAP", [RAW(bytes.fromhex("47000580005a0000000001e133ffffff00016100"))]),
    (IN, 23, "NSAP-PTR", [N("foo.example.")]),
    (IN, 24, "SIG", [U16(30, "type_covered", dense=True), U8(1, "algorithm"), U8(3, "labels", dense=True), U32(3600, "original_ttl"),
                     U32(1577836800, "expiration"), U32(1041379200, "inception"), U16(2143, "key_tag"),
                     N("example."), RAW(_SIG)]),
    (IN, 25, "KEY", [U16(512, "flags", dense=True), U8(255, "protocol"), U8(1, "algorithm"), RAW(_KEY)]),
    (IN, 26, "PX", [U16(10, "preference"), N("map822.example."), N("mapx400.example.")]),
    (IN, 27, "GPOS", [C8(b"-22.6882"), C8(b"116.8652"), C8(b"250.0")]),
    (IN, 28, "AAAA", [FIX(_V6, "address")]),
    # RFC 1876: size/precision octets are base/exponent nibbles (each 0..9)
    (IN, 29, "LOC", [U8(0, "version", dense=True), U8(0x12, "size", dense="full"), U8(0x16, "horiz_pre", dense="full"), U8(0x13, "vert_pre", dense="full"),
                     U32(_LAT, "latitude", 0x80000000 + _D90, 0x80000000 + _D90 + 1, 0x80000000 - _D90, 0x80000000 - _D90 - 1,
                         0x80000000 + _D90 - 1, 0x80000000 + 3600000, 0x80000000 + 999, 0x80000000 - 999),
                     U32(_LON, "longitude", 0x80000000 + _D180, 0x80000000 + _D180 + 1, 0x80000000 - _D180,
                         0x80000000 - _D180 - 1, 0x80000000 + _D90 + 1, 0x80000000 + 59999, 0x80000000 - 60001),
                     U32(10000000 + 1000, "altitude", 10000000, 9999999, 10000001, 9999901, 10000099, 10000100)]),
    (IN, 33, "SRV", [U16(0, "priority"), U16(5, "weight"), U16(5060, "port"), N("sip.example.")]),
    (IN, 35, "NAPTR", [U16(100, "order"), U16(50, "preference"), C8(b"s"), C8(b"SIP+D2U"), C8(b""), N("sip.example.")]),
    (IN, 36, "KX", [U16(10, "preference"), N("kdc.example.")]),
    (IN, 37, "CERT", [U16(1, "certificate_type", dense=True), U16(12345, "key_tag"), U8(8, "algorithm"), RAW(_SIG)]),
    (IN, 39, "DNAME", [N("dname-target.example.")]),
    # RFC 6891 6.1.2: {code u16, length u16, data}
    (IN, 41, "OPT-nsid", [U16(3, "option_code", dense="full"), C16(b"test")]),
    (IN, 41, "OPT-ecs", [U16(8, "option_code", dense=True), U16(7, "option_length"), U16(1, "ecs_family", dense=True),
                         U8(24, "ecs_source_prefix", dense=True), U8(0, "ecs_scope_prefix", dense=True), RAW(bytes([10, 0, 0]))]),
    (IN, 41, "OPT-ecs6", [U16(8, "option_code"), U16(11, "option_length"), U16(2, "ecs_family"),
                          U8(56, "ecs_source_prefix", dense=True), U8(0, "ecs_scope_prefix", dense=True), RAW(bytes.fromhex("20010db8000000"))]),
    (IN, 41, "OPT-ede", [U16(15, "option_code", dense=True), U16(6, "option_length"), U16(3, "ede_info_code", dense="full"),
                         RAW(b"blah")]),
    (IN, 41, "OPT-cookie", [U16(10, "option_code"), C16(bytes(range(1, 9))), U16(12, "option_code2"), C16(bytes(4))]),
    # RFC 3123: {family u16, prefix u8, N|afdlength u8, afdpart}
    (IN, 42, "APL", [U16(1, "family", dense=True), U8(21, "prefix", dense=True), U8(3, "n_afdlength", dense=True), RAW(bytes([192, 168, 32])),
                     U16(2, "family2"), U8(8, "prefix2", dense=True), U8(0x81, "n_afdlength2", dense=True), RAW(b"\xff")]),
    (IN, 43, "DS", [U16(12345, "key_tag"), U8(8, "algorithm"), U8(1, "digest_type", dense=True), RAW(_SHA1)]),
    (IN, 43, "DS-sha256", [U16(12345, "key_tag"), U8(13, "algorithm"), U8(2, "digest_type", dense=True), RAW(_SHA256)]),
    (IN, 44, "SSHFP", [U8(1, "algorithm"), U8(1, "fp_type", dense=True), RAW(_SHA1)]),
    # RFC 4025: precedence, gateway type, algorithm, gateway, key
    (IN, 45, "IPSECKEY-v4", [U8(10, "precedence"), U8(1, "gateway_type", dense=True), U8(2, "algorithm"), FIX(_V4, "gateway"), RAW(_KEY)]),
    (IN, 45, "IPSECKEY-none", [U8(10, "precedence"), U8(0, "gateway_type", dense=True), U8(2, "algorithm"), RAW(_KEY)]),
    (IN, 45, "IPSECKEY-v6", [U8(10, "precedence"), U8(2, "gateway_type", dense=True), U8(2, "algorithm"), FIX(_V6, "gateway"), RAW(_KEY)]),
    (IN, 45, "IPSECKEY-name", [U8(10, "precedence"), U8(3, "gateway_type", dense=True), U8(2, "algorithm"), N("gw.example."), RAW(_KEY)]),
    (IN, 46, "RRSIG", [U16(1, "type_covered", dense="full"), U8(8, "algorithm"), U8(2, "labels", dense=True), U32(300, "original_ttl"),
                       U32(1577836800, "expiration"), U32(1041379200, "inception"), U16(4660, "key_tag"),
                       N("example."), RAW(_SIG)]),
    (IN, 47, "NSEC", [N("next.example."), U8(0, "window", dense=True), U8(7, "bitmap_length", dense=True), RAW(_BITMAP0),
                      U8(4, "window2", dense=True), U8(27, "bitmap_length2", dense=True), RAW(bytes(26) + b"\x20")]),
    (IN, 48, "DNSKEY", [U16(257, "flags", dense=True), U8(3, "protocol"), U8(8, "algorithm"), RAW(_KEY)]),
    (IN, 49, "DHCID", [RAW(bytes.fromhex("0002016362c0b8271c82825bb1ac5c41cf5351aa69b4febd94e8f17cdb95000da48c40"))]),
    (IN, 50, "NSEC3", [U8(1, "hash_algorithm", dense=True), U8(1, "flags"), U16(12, "iterations"), C8(bytes.fromhex("aabbccdd")),
                       C8(_SHA1), U8(0, "window", dense=True), U8(7, "bitmap_length", dense=True), RAW(_BITMAP0)]),
    (IN, 51, "NSEC3PARAM", [U8(1, "hash_algorithm", dense=True), U8(0, "flags"), U16(12, "iterations"), C8(bytes.fromhex("aabbccdd"))]),
    (IN, 52, "TLSA", [U8(3, "usage", dense=True), U8(1, "selector", dense=True), U8(1, "mtype", dense=True), RAW(_SHA256)]),
    (IN, 53, "SMIMEA", [U8(1, "usage", dense=True), U8(0, "selector", dense=True), U8(1, "mtype", dense=True), RAW(_SHA256)]),
    # RFC 8005: HIT length u8, PK algorithm u8, PK length u16, HIT, PK, servers
    (IN, 55, "HIP", [U8(16, "hit_length", dense=True), U8(2, "pk_algorithm"), U16(len(_KEY), "pk_length"),
                     RAW(bytes.fromhex("200100107b1a74df365639cc39f1d578")), RAW(_KEY), N("rvs1.example."), N("rvs2.example.")]),
    (IN, 56, "NINFO", [C8(b"info one"), C8(b"two")]),
    (IN, 59, "CDS", [U16(12345, "key_tag"), U8(8, "algorithm"), U8(2, "digest_type", dense=True), RAW(_SHA256)]),
    (IN, 59, "CDS-delete", [U16(0, "key_tag"), U8(0, "algorithm"), U8(0, "digest_type", dense=True), RAW(b"\x00")]),
    (IN, 60, "CDNSKEY", [U16(256, "flags", dense=True), U8(3, "protocol"), U8(13, "algorithm"), RAW(_KEY)]),
    (IN, 61, "OPENPGPKEY", [RAW(_KEY)]),
    (IN, 62, "CSYNC", [U32(12345, "serial"), U16(3, "flags", dense=True), U8(0, "window", dense=True), U8(7, "bitmap_length", dense=True), RAW(_BITMAP0)]),
    (IN, 63, "ZONEMD", [U32(2018031900, "serial"), U8(1, "scheme", dense=True), U8(1, "hash_algorithm", dense=True), RAW(bytes(range(48)))]),
    (IN, 63, "ZONEMD-priv", [U32(2018031900, "serial"), U8(1, "scheme", dense=True), U8(240, "hash_algorithm", dense=True), RAW(bytes(range(16)))]),
    # RFC 9460: priority, target, {key u16, length u16, value} in ascending key order
    (IN, 64, "SVCB", [U16(1, "priority"), N("svc.example."),
                      U16(0, "key_mandatory", dense=True), C16(b"\x00\x01\x00\x03"),
                      U16(1, "key_alpn", dense=True), C16(b"\x02h2\x02h3"),
                      U16(3, "key_port", dense=True), U16(2, "port_length"), U16(8443, "port"),
                      U16(4, "key_ipv4hint", dense=True), C16(_V4),
                      U16(6, "key_ipv6hint", dense=True), C16(_V6),
                      U16(12345, "key_unknown", dense=True), C16(b"foo")]),
    (IN, 64, "SVCB-alias", [U16(0, "priority"), N("svc.example.")]),
    (IN, 65, "HTTPS", [U16(1, "priority"), N("."), U16(1, "key_alpn", dense=True), C16(b"\x02h2"),
                       U16(2, "key_no_default_alpn", dense=True), C16(b""),
                       U16(5, "key_ech", dense=True), C16(b"abcd"), U16(7, "key_dohpath", dense=True), C16(b"/dns-query{?dns}")]),
    # RFC 9859: rrtype u16, scheme u8, port u16, target
    (IN, 66, "DSYNC", [U16(59, "rrtype", dense=True), U8(1, "scheme", dense=True), U16(5300, "port"), N("notify.example.")]),
    (IN, 67, "HHIT", [RAW(bytes(range(48)))]),
    (IN, 68, "BRID", [RAW(bytes(range(48)))]),
    (IN, 99, "SPF", [C8(b"v=spf1 mx -all")]),
    (IN, 104, "NID", [U16(10, "preference"), FIX(bytes.fromhex("00144fffff20ee64"), "nodeid")]),
    (IN, 105, "L32", [U16(10, "preference"), FIX(bytes([10, 1, 2, 0]), "locator32")]),
    (IN, 106, "L64", [U16(10, "preference"), FIX(bytes.fromhex("20010db811401000"), "locator64")]),
    (IN, 107, "LP", [U16(10, "preference"), N("l64-subnet1.example.")]),
    (IN, 108, "EUI48", [FIX(bytes.fromhex("00005e00532a"), "eui48")]),
    (IN, 109, "EUI64", [FIX(bytes.fromhex("00005eef1000002a"), "eui64")]),
    # RFC 2930 2: algorithm, inception, expiration, mode, error, key size+data, other size+data
    (ANY, 249, "TKEY", [N("gss-tsig."), U32(1041379200, "inception"), U32(1577836800, "expiration"), U16(3, "mode", dense=True),
                        U16(0, "error", dense="full"), C16(bytes(range(1, 9))), C16(b"\x01\x02\x03")]),
    (ANY, 249, "TKEY-noother", [N("gss-tsig."), U32(0, "inception"), U32(0xFFFFFFFF, "expiration"), U16(2, "mode", dense=True),
                                U16(17, "error", dense=True), C16(b"\x00"), C16(b"")]),
    # RFC 8945 4.2: algorithm, time signed u48, fudge, MAC size+MAC, original id, error, other len+data
    (ANY, 250, "TSIG", [N("hmac-sha256."), U48(1577836800, "time_signed"), U16(300, "fudge"), C16(bytes(32)),
                        U16(0x1234, "original_id"), U16(0, "error", dense="full"), C16(b"")]),
    (ANY, 250, "TSIG-badtime", [N("hmac-sha256."), U48(1577836800, "time_signed"), U16(300, "fudge"), C16(bytes(32)),
                                U16(0x1234, "original_id"), U16(18, "error", dense=True), C16(bytes.fromhex("00005e0b8e01"))]),
    (IN, 256, "URI", [U16(10, "priority"), U16(1, "weight"), RAW(b"ftp://ftp1.example.com/public")]),
    (IN, 257, "CAA", [U8(0, "flags"), C8(b"issue"), RAW(b"ca.example.net; account=230123")]),
    (IN, 258, "AVC", [C8(b"app-name:WOLFGANG|app-class:OAM|business=yes")]),
    # RFC 8777 4.2: precedence u8, D|type u8, relay
    (IN, 260, "AMTRELAY-none", [U8(0, "precedence"), U8(0, "d_type", dense=True)]),
    (IN, 260, "AMTRELAY-v4", [U8(10, "precedence"), U8(1, "d_type", dense=True), FIX(bytes([203, 0, 113, 15]), "relay")]),
    (IN, 260, "AMTRELAY-v6", [U8(10, "precedence"), U8(2, "d_type", dense=True), FIX(_V6, "relay")]),
    (IN, 260, "AMTRELAY-name", [U8(128, "precedence"), U8(0x83, "d_type", dense=True), N("amtrelays.example.")]),
    (IN, 261, "RESINFO", [C8(b"qnamemin"), C8(b"exterr=15,16,17"), C8(b"infourl=https://resolver.example.com/guide")]),
    (IN, 262, "WALLET", [C8(b"EXAMPLE"), C8(b"01234567890abcdef")]),
    (IN, 32769, "DLV", [U16(12345, "key_tag"), U8(8, "algorithm"), U8(1, "digest_type", dense=True), RAW(_SHA1)]),
    (IN, 65280, "TYPE65280", [RAW(bytes.fromhex("0a0000010a000001"))]),
    (IN, 0, "TYPE0", [RAW(b"\x00\x01")]),
]


def covered_types():
    return {(c, t) for c, t, _, _ in LAYOUTS}


# ---------------------------------------------------------------------------- case generator
def _int_cases(base, fields, i, vals, edges):
    kind, val, label = fields[i][0], fields[i][1], fields[i][2]
    for v in vals:
        if v == val:
            continue
        yield dict(base, field=label, kind=kind, value=v, wire=build(fields, {i: _enc_int(kind, v)}), edge=v in edges)


def _edges(f):
    kind, val, label, extra, dense = f
    top = (1 << (8 * WIDTH[kind])) - 1
    return {v for v in set(edge(kind)) | set(extra) | {val - 1, val + 1} if 0 <= v <= top}


def cases():
    """BASE set, identical in both tiers.  Yields dicts: rdclass, rdtype, layout, field (label
    or None), kind, value, wire, edge.  *edge*: the value belongs to the edge set of its width
    (or is a per-field boundary): such cases are additionally wrapped into messages."""
    for cls, t, lname, fields in LAYOUTS:
        base = {"rdclass": cls, "rdtype": t, "layout": lname}
        yield dict(base, field=None, kind="specimen", value=None, wire=build(fields), edge=True)
        int_idx = [i for i, f in enumerate(fields) if f[0] in WIDTH]
        for i in int_idx:
            edges = _edges(fields[i])
            vals = sorted(set(sweep(fields[i][0], fields[i][4])) | edges)
            yield from _int_cases(base, fields, i, vals, edges)
        # the length prefixes of counted fields are fixed-width integers too
        for i, f in enumerate(fields):
            if f[0] in ("c8", "c16"):
                w = 1 if f[0] == "c8" else 2
                top = (1 << (8 * w)) - 1
                n = len(f[1])
                for v in sorted({0, 1, n - 1, n + 1, top - 1, top}):
                    if v == n or not (0 <= v <= top):
                        continue
                    yield dict(base, field=f"len#{i}", kind="len" + str(8 * w), value=v,
                               wire=build(fields, {i: v.to_bytes(w, "big") + f[1]}), edge=True)
                # the counted data itself at its extreme sizes (honest length)
                for data in (b"", bytes([0xFF]) * (255 if w == 1 else 300)):
                    if data != f[1]:
                        yield dict(base, field=f"data#{i}", kind="size", value=len(data),
                                   wire=build(fields, {i: len(data).to_bytes(w, "big") + data}), edge=True)
            elif f[0] == "fix":
                for fill in (0x00, 0xFF):
                    rep = bytes([fill]) * len(f[1])
                    if rep != f[1]:
                        yield dict(base, field=f[2], kind="fix", value=fill, wire=build(fields, {i: rep}), edge=True)
        if len(int_idx) > 1:
            for name, pick in (("all-zero", lambda k: 0), ("all-max", lambda k: (1 << (8 * WIDTH[k])) - 1),
                               ("all-max-1", lambda k: (1 << (8 * WIDTH[k])) - 2), ("all-one", lambda k: 1)):
                sub = {i: _enc_int(fields[i][0], pick(fields[i][0])) for i in int_idx}
                yield dict(base, field=name, kind="all", value=None, wire=build(fields, sub), edge=True)


def extra_cases():
    """THOROUGH additions (never edge: rdata.from_wire only), cheapest classes first so that a
    budget cut removes the 65 536-value sweeps last-in-first."""
    for full_pass in (False, True):
        for cls, t, lname, fields in LAYOUTS:
            base = {"rdclass": cls, "rdtype": t, "layout": lname}
            for i, f in enumerate(fields):
                if f[0] not in WIDTH:
                    continue
                is_full = f[0] == "u16" and f[4] == "full"
                if is_full != full_pass:
                    continue
                have = set(sweep(f[0], f[4])) | _edges(f)
                vals = [v for v in sweep_extra(f[0], f[4]) if v not in have]
                yield from _int_cases(base, fields, i, vals, ())


# ---------------------------------------------------------------------------- message wrapper
_OWNER = enc_name("www.example.")


def wrap_message(rdclass, rdtype, rdata, ttl=None, flags=0x8180, payload=1232):
    """A response carrying exactly one record with this RDATA (independent encoder)."""
    if rdtype == 41:
        # OPT: owner root, CLASS = payload size, TTL = ext-rcode/version/flags; additional section
        q = enc_q(_OWNER, 1, 1)
        return enc_header(0x1234, flags, 1, 0, 0, 1) + q + enc_rr(b"\x00", 41, payload, 0x00008000 if ttl is None else ttl, rdata)
    if rdtype == 250:
        q = enc_q(_OWNER, 1, 1)
        return enc_header(0x1234, flags, 1, 0, 0, 1) + q + enc_rr(enc_name("key."), 250, 255, 0 if ttl is None else ttl, rdata)
    q = enc_q(_OWNER, rdtype if rdtype != 0 else 255, rdclass if rdclass != 254 else 1)
    return enc_header(0x1234, flags, 1, 1, 0, 0) + q + enc_rr(b"\xc0\x0c", rdtype, rdclass, 300 if ttl is None else ttl, rdata)


def message_opts(rdtype):
    """Option sets under which a wrapped record is parsed."""
    if rdtype == 250:
        # TSIG: without keyring=False the record is rejected (UnknownTSIGKey) before the
        # message is returned; with a keyring it is validated (and fails: the MAC is bogus)
        return [{"keyring": "false"}, {"keyring": "false", "continue_on_error": True},
                {"keyring": "false", "origin": "example."}, {"continue_on_error": True},
                {"keyring": "dict"}, {"keyring": "dict", "continue_on_error": True}]
    return [{}, {"continue_on_error": True}, {"origin": "example."}, {"one_rr_per_rrset": True, "continue_on_error": True}]
