"""Bounded stand-in for C18 -- a network exchange returns only a genuine response; stream
framing is exact.

The real ``dns.query`` / ``dns.asyncquery`` functions (``udp``, ``receive_udp``, ``tcp``,
``receive_tcp``, ``send_tcp``, ``_net_read``, ``_net_write``, ``_read_exactly``,
``_matches_destination``, ``_addresses_equal``) and ``Message.is_response`` are run on
scripted sockets (DESIGN section 4 C18-B5).  Sockets are the external objects of the design:
the sync fakes offer ``recvfrom/sendto/recv/send`` (raising ``BlockingIOError`` /
``ssl.SSLWantReadError`` for would-block) and ``dns.query._wait_for`` is replaced by a shim
that either returns (ready) or raises ``dns.exception.Timeout`` as scripted; the async fakes
implement the ``dns.asyncbackend`` socket interface.  Datagrams and frames are produced by a
small independent wire encoder (``_msg``) so that the oracle does not depend on dns.message.
"""

from __future__ import annotations

import contextlib
import socket
import ssl
import struct
import time as _time

import dns.asyncquery
import dns.exception
import dns.flags
import dns.message
import dns.name
import dns.opcode
import dns.query
import dns.rcode

BOUNDS = (
    "Scripted sockets under the real sync and async query functions.  Exhaustive: (a) the prefix "
    "tree of datagram sequences over 17 datagram kinds {genuine, genuine SERVFAIL with empty question, "
    "forged source address, forged source port, garbage from a forged source, wrong id, wrong qname, "
    "wrong qtype, wrong opcode, QR clear, short garbage, matching header + garbage question, corrupt "
    "RDLENGTH after a matching header/question, TC set (clean), TC set (cut mid-record), forged TC "
    "(wrong id), trailing bytes} pruned at the first datagram that is not skipped, to depth 3 (quick; "
    "depth 2 for option sets that do not skip) / depth 4 (thorough), x all 16 combinations of "
    "ignore_unexpected / ignore_errors / raise_on_truncation / ignore_trailing x {udp(), "
    "receive_udp(destination, query), receive_udp(no destination), receive_udp(no query)} x {sync, "
    "async}, plus would-block events between datagrams and an IPv6 (textual variants of one address) "
    "and a multicast destination sub-grid; (b) Message.is_response against the spec predicate on "
    "QR x id x 5 opcodes^2 x 12 rcodes x 9 question relations; (c) _matches_destination / "
    "_addresses_equal on an address/port/flow/scope grid incl. multicast and unparsable text; (d) all "
    "3136 fragmentations of a 14-octet frame into recv chunks of 1-3 octets, without and with a "
    "would-block before every chunk (and at each single position, thorough), for _net_read/receive_tcp "
    "(sync) and _read_exactly/receive_tcp (async); 2-message streams with one message exhaustively "
    "fragmented and the other in {1,2,3,unbounded}-octet chunks; EOF and deadline expiry at every "
    "offset of the 2-message stream; all 3136 send() acceptance patterns of a 14-octet frame for "
    "_net_write/send_tcp with would-block variants; send_tcp o receive_tcp round trip; tcp() with 11 "
    "reply kinds x 4 chunkings x {sync, async}.  Seeded: random fragmentations (chunks 1-40, blocks, "
    "SSLWantRead) of 1-4 realistic messages (1500 quick / 10000 thorough), random datagram sequences "
    "of length 5-8 (2000 quick / 20000 thorough).  _wait_for itself (selectors) is replaced by its "
    "contract except for the expired-deadline check, which is run on a real socketpair; TLS/QUIC/HTTPS "
    "transports and the asyncio/trio backends' own socket code are outside this stand-in; TSIG is off."
)

QNAME = (b"www", b"example")
OTHER = (b"ftp", b"example")
T_A, T_AAAA, T_TXT = 1, 28, 16
QID = 0x1234
QR, TC, RD, RA = 0x8000, 0x0200, 0x0100, 0x0080

# --------------------------------------------------------------------------------------
# independent wire encoder
# --------------------------------------------------------------------------------------


def _name(labels):
    return b"".join(bytes([len(l)]) + l for l in labels) + b"\x00"


def _rr(labels, rdtype, ttl, rdata, rdlen=None):
    return _name(labels) + struct.pack("!HHIH", rdtype, 1, ttl, len(rdata) if rdlen is None else rdlen) + rdata


def _q(labels, rdtype, rdclass=1):
    return _name(labels) + struct.pack("!HH", rdtype, rdclass)


def _msg(mid, flags, qs=(), an=(), au=(), ad=(), counts=None):
    c = counts or (len(qs), len(an), len(au), len(ad))
    return struct.pack("!HHHHHH", mid, flags, *c) + b"".join(qs) + b"".join(an) + b"".join(au) + b"".join(ad)


def _marker(pos):
    t = b"p%d" % pos
    return _rr((b"marker",), T_TXT, 0, bytes([len(t)]) + t)


def _a(pos, labels=QNAME):
    return _rr(labels, T_A, 300, bytes([192, 0, 2, 1 + pos % 200]))


def _query_wire(opcode=0):
    return _msg(QID, RD | (opcode << 11), [_q(QNAME, T_A)])


def _dgram(kind, pos):
    """wire bytes of datagram *kind*; every datagram of a sequence is distinct (marker)."""
    m = [_marker(pos)]
    q = [_q(QNAME, T_A)]
    if kind in ("G", "F", "Fp"):
        return _msg(QID, QR | RD | RA, q, [_a(pos)], ad=m)
    if kind == "Gs":
        return _msg(QID, QR | RD | RA | 2, [], [], ad=m)
    if kind == "I":
        return _msg(QID ^ 0x0101, QR | RD | RA, q, [_a(pos)], ad=m)
    if kind == "Q":
        return _msg(QID, QR | RD | RA, [_q(OTHER, T_A)], [_a(pos, OTHER)], ad=m)
    if kind == "Qt":
        return _msg(QID, QR | RD | RA, [_q(QNAME, T_AAAA)], [], ad=m)
    if kind == "O":
        return _msg(QID, QR | RD | RA | (4 << 11), q, [_a(pos)], ad=m)
    if kind == "N":
        return _msg(QID, RD, q, [], ad=m)
    if kind in ("X", "Fx"):
        return bytes([0x12, 0x34, 0x81, pos & 0xFF, 7])
    if kind == "Xs":
        # matching header, rcode SERVFAIL, one question announced, question is a pointer loop
        return struct.pack("!HHHHHH", QID, QR | RD | RA | 2, 1, 0, 0, 0) + b"\xc0\x0c" + bytes([pos & 0xFF])
    if kind == "M":
        # A record announcing 3 octets of RDATA
        bad = _rr(QNAME, T_A, 300, bytes([192, 0, 2]), rdlen=3)
        return _msg(QID, QR | RD | RA, q, [bad], ad=m)
    if kind == "Tc":
        return _msg(QID, QR | RD | RA | TC, q, [], ad=m)
    if kind == "Tm":
        full = _rr(QNAME, T_A, 300 + pos, bytes([192, 0, 2, 9]))
        return _msg(QID, QR | RD | RA | TC, q, [full[: len(full) - 3]], counts=(1, 1, 0, 0))
    if kind == "Ti":
        return _msg(QID ^ 0x0101, QR | RD | RA | TC, q, [], ad=m)
    if kind == "J":
        return _msg(QID, QR | RD | RA, q, [_a(pos)], ad=m) + b"\x00\x01junk"
    raise AssertionError(kind)


KINDS = ["G", "Gs", "F", "Fp", "Fx", "I", "Q", "Qt", "O", "N", "X", "Xs", "M", "Tc", "Tm", "Ti", "J"]
# Tm must differ per position as well: vary the address octet (done through _a(pos)).

DEST4 = ("10.0.0.1", 53)


def _src(kind, dest):
    if kind in ("F", "Fx"):
        if len(dest) == 2:
            return ("10.0.0.66", dest[1])
        return ("2001:db8::66",) + tuple(dest[1:])
    if kind == "Fp":
        return (dest[0], dest[1] + 1) + tuple(dest[2:])
    return dest


def _parse_class(kind, it, rt):
    if kind in ("G", "Gs", "F", "Fp"):
        return "genuine"
    if kind in ("I", "Q", "Qt", "O", "N"):
        return "mismatch"
    if kind in ("X", "Xs", "M", "Fx"):
        return "malformed"
    if kind == "J":
        return "genuine" if it else "malformed"
    if kind == "Tc":
        return "trunc-genuine" if rt else "genuine"
    if kind == "Tm":
        return "trunc-genuine" if rt else "malformed"
    if kind == "Ti":
        return "trunc-forged" if rt else "mismatch"
    raise AssertionError(kind)


def _model_udp(fn, opts, seq, dest_given=True, multicast=False):
    """Reference decision procedure written from the documentation of udp()/receive_udp().
    seq: list of kinds or ('block',).  Returns ('ret', pos) | ('raise', {categories}) and the
    position/kind that decided."""
    iu, ie, rt, it = opts
    has_query = fn != "receive_udp_noquery"
    for pos, kind in enumerate(seq):
        if kind == "block":
            continue
        if dest_given:
            forged = kind in ("F", "Fx") and not multicast or kind == "Fp"
            if forged:
                if iu:
                    continue
                return ("raise", {"source"}), pos
        pc = _parse_class(kind, it, rt)
        if pc == "malformed":
            if ie:
                continue
            return ("raise", {"format"}), pos
        if pc == "trunc-genuine":
            return ("raise", {"truncated"}), pos
        if pc == "trunc-forged":
            if ie and has_query:
                continue
            if fn == "udp":
                return ("raise", {"truncated", "badresponse"}), pos
            return ("raise", {"truncated"}), pos
        if pc == "mismatch":
            if ie and has_query:
                continue
            if fn == "udp":
                return ("raise", {"badresponse"}), pos
            return ("ret", pos), pos  # receive_udp alone does not verify (documented)
        return ("ret", pos), pos
    return ("raise", {"timeout"}), len(seq)


# --------------------------------------------------------------------------------------
# scripted sockets
# --------------------------------------------------------------------------------------


class _Runaway(Exception):
    pass


class _UdpSock:
    """sync datagram socket: events are (wire, addr) or 'block'."""

    def __init__(self, events, family=socket.AF_INET):
        self.events = list(events)
        self.family = family
        self.sent = []
        self.pending = None
        self.calls = 0

    def sendto(self, data, dest):
        self.sent.append((bytes(data), dest))
        return len(data)

    def send(self, data):
        self.sent.append((bytes(data), None))
        return len(data)

    def recvfrom(self, n):
        self.calls += 1
        if self.calls > 10000:
            raise _Runaway()
        if not self.events:
            self.pending = "timeout"
            raise BlockingIOError()
        ev = self.events.pop(0)
        if ev == "block":
            self.pending = "ready"
            raise BlockingIOError()
        return ev

    def wait(self):
        p, self.pending = self.pending, None
        if p == "timeout":
            raise dns.exception.Timeout(timeout=0)

    def close(self):
        pass


class _AUdpSock:
    def __init__(self, events, family=socket.AF_INET):
        self.events = [e for e in events if e != "block"]
        self.family = family
        self.sent = []

    async def sendto(self, what, destination, timeout):
        self.sent.append((bytes(what), destination))
        return len(what)

    async def recvfrom(self, size, timeout):
        if not self.events:
            raise dns.exception.Timeout(timeout=0)
        return self.events.pop(0)

    async def close(self):
        pass

    async def getpeername(self):
        return DEST4


class _Stream:
    """sync stream socket.  recv schedule: ints (max chunk), 'B' (BlockingIOError then ready),
    'W' (ssl.SSLWantReadError then ready), 'T' (would-block, then the deadline expires).  After
    the schedule: unbounded chunks.  At end of data: b'' (EOF) unless stall=True (then 'T')."""

    def __init__(self, data, schedule=(), wschedule=(), stall=False):
        self.data = data
        self.pos = 0
        self.schedule = list(schedule)
        self.wschedule = list(wschedule)
        self.stall = stall
        self.pending = None
        self.written = b""
        self.calls = 0

    def _tick(self):
        self.calls += 1
        if self.calls > 4 * (len(self.data) + len(self.written)) + 2000:
            raise _Runaway()

    def recv(self, count):
        self._tick()
        ev = self.schedule.pop(0) if self.schedule else 1 << 20
        if ev == "B":
            self.pending = "ready"
            raise BlockingIOError()
        if ev == "W":
            self.pending = "ready"
            raise ssl.SSLWantReadError()
        if ev == "T" or (self.pos >= len(self.data) and self.stall):
            self.pending = "timeout"
            raise BlockingIOError()
        k = min(count, ev, len(self.data) - self.pos)
        out = self.data[self.pos : self.pos + k]
        self.pos += k
        return out

    def send(self, data):
        self._tick()
        ev = self.wschedule.pop(0) if self.wschedule else 1 << 20
        if ev == "B":
            self.pending = "ready"
            raise BlockingIOError()
        if ev == "W":
            self.pending = "ready"
            raise ssl.SSLWantWriteError()
        if ev == "T":
            self.pending = "timeout"
            raise BlockingIOError()
        k = min(ev, len(data))
        self.written += bytes(data[:k])
        return k

    def wait(self):
        p, self.pending = self.pending, None
        if p == "timeout":
            raise dns.exception.Timeout(timeout=0)

    def getpeername(self):
        return DEST4

    def close(self):
        pass


class _AStream:
    def __init__(self, data, schedule=(), stall=False):
        self.data = data
        self.pos = 0
        self.schedule = [e for e in schedule if e not in ("B", "W")]
        self.stall = stall
        self.written = b""
        self.calls = 0

    async def recv(self, size, timeout):
        self.calls += 1
        if self.calls > 4 * (len(self.data) + len(self.written)) + 2000:
            raise _Runaway()
        ev = self.schedule.pop(0) if self.schedule else 1 << 20
        if ev == "T" or (self.pos >= len(self.data) and self.stall):
            raise dns.exception.Timeout(timeout=0)
        k = min(size, ev, len(self.data) - self.pos)
        out = self.data[self.pos : self.pos + k]
        self.pos += k
        return out

    async def sendall(self, what, timeout):
        self.written += bytes(what)

    async def getpeername(self):
        return DEST4

    async def close(self):
        pass


def _fake_wait_for(fd, readable, writable, _, expiration):
    fd.wait()


@contextlib.contextmanager
def _shim():
    saved = dns.query._wait_for
    dns.query._wait_for = _fake_wait_for
    try:
        yield
    finally:
        dns.query._wait_for = saved


def _drive(coro):
    """Run a coroutine that never really suspends (all awaited objects are our fakes)."""
    try:
        coro.send(None)
    except StopIteration as e:
        return e.value
    coro.close()
    raise RuntimeError("coroutine suspended on a real awaitable")


def _category(e):
    if isinstance(e, _Runaway):
        return "runaway"
    if isinstance(e, dns.query.UnexpectedSource):
        return "source"
    if isinstance(e, dns.message.Truncated):
        return "truncated"
    if isinstance(e, dns.query.BadResponse):
        return "badresponse"
    if isinstance(e, dns.exception.Timeout):
        return "timeout"
    if isinstance(e, EOFError):
        return "eof"
    return "format"


_QUERY = None


def _the_query():
    global _QUERY
    if _QUERY is None:
        _QUERY = dns.message.from_wire(_query_wire())
    return _QUERY


# --------------------------------------------------------------------------------------
# UDP exchange cases
# --------------------------------------------------------------------------------------


def _run_udp(fn, twin, opts, seq, dest=DEST4, where="10.0.0.1", family=socket.AF_INET, srcmap=None):
    """Run one scripted UDP case.  Returns ('ret', pos|None, extra) | ('raise', category, text)."""
    iu, ie, rt, it = opts
    q = _the_query()
    events = []
    wires = {}
    for pos, kind in enumerate(seq):
        if kind == "block":
            events.append("block")
            continue
        w = _dgram(kind, pos)
        wires[w] = pos
        src = srcmap(kind, pos, dest) if srcmap else _src(kind, dest)
        events.append((w, src))
    sock = (_UdpSock if twin == "sync" else _AUdpSock)(events, family)
    try:
        with _shim():
            if fn == "udp":
                kw = dict(timeout=5.0, port=dest[1], ignore_unexpected=bool(iu), ignore_trailing=bool(it),
                          raise_on_truncation=bool(rt), sock=sock, ignore_errors=bool(ie))
                if twin == "sync":
                    r = dns.query.udp(q, where, **kw)
                else:
                    r = _drive(dns.asyncquery.udp(q, where, **kw))
                from_addr = None
            else:
                d = None if fn == "receive_udp_nodest" else dest
                qq = None if fn == "receive_udp_noquery" else q
                kw = dict(destination=d, expiration=_time.time() + 5.0, ignore_unexpected=bool(iu),
                          ignore_trailing=bool(it), raise_on_truncation=bool(rt), ignore_errors=bool(ie), query=qq)
                if twin == "sync":
                    t = dns.query.receive_udp(sock, **kw)
                    want_len = 2 if d else 3
                else:
                    t = _drive(dns.asyncquery.receive_udp(sock, **kw))
                    want_len = 3
                if len(t) != want_len:
                    return ("raise", "shape", f"tuple of {len(t)}")
                r = t[0]
                from_addr = t[2] if len(t) == 3 else None
    except Exception as e:  # the verdict is taken by comparison with the model
        return ("raise", _category(e), type(e).__name__)
    w = getattr(r, "wire", None)
    pos = wires.get(bytes(w)) if w is not None else None
    if pos is None:
        # fall back on the marker record
        for rrset in r.additional:
            for rd in rrset:
                txt = rd.to_text().strip('"')
                if txt.startswith("p") and txt[1:].isdigit():
                    pos = int(txt[1:])
    extra = {"errors": len(getattr(r, "errors", []) or []), "from": from_addr,
             "sent": sock.sent[0][0] if sock.sent else None, "sent_to": sock.sent[0][1] if sock.sent else None}
    return ("ret", pos, extra)


def _judge_udp(fn, twin, opts, seq, **kw):
    """Returns (problem|None, decided_pos, all_skipped)."""
    multicast = kw.pop("multicast", False)
    expected, dpos = _model_udp(fn, opts, seq, dest_given=(fn != "receive_udp_nodest"), multicast=multicast)
    got = _run_udp(fn, twin, opts, seq, **kw)
    all_skipped = expected == ("raise", {"timeout"})
    iu, ie, rt, it = opts
    kind = seq[dpos] if dpos < len(seq) else "end"
    optstr = f"ignore_unexpected={bool(iu)} ignore_errors={bool(ie)} raise_on_truncation={bool(rt)} ignore_trailing={bool(it)}"
    site = ("dns.query." if twin == "sync" else "dns.asyncquery.") + ("udp" if fn == "udp" else "receive_udp")

    def prob(what, got_s, exp_s, gkind):
        cls = _parse_class(gkind, it, rt) if gkind not in ("end", "block") else gkind
        if gkind in ("F", "Fp", "Fx"):
            cls = "forged-source"
        return (
            "C18.udp_exchange" if fn == "udp" else "C18.receive_udp",
            f"{site}({optstr}) on datagrams {seq}: {what}",
            {"prop": "C18", "site": site, "dgram_class": cls, "expected": exp_s, "got": got_s,
             "ignore_errors": bool(ie), "ignore_unexpected": bool(iu) if cls == "forged-source" else "any"},
        )

    if got[0] == "ret":
        gpos = got[1]
        if expected[0] == "ret" and gpos == expected[1]:
            ex = got[2]
            if ex["errors"]:
                return prob("returned message carries parse errors", "return-with-errors", "return", kind), dpos, all_skipped
            if fn == "udp" and (ex["sent"] != _query_wire() or ex["sent_to"] != kw.get("dest", DEST4)):
                return prob("query not sent as given", "bad-send", "send", "end"), dpos, all_skipped
            if fn == "receive_udp_nodest" and ex["from"] != _src(kind, kw.get("dest", DEST4)):
                return prob("from_address of the returned datagram is wrong", "bad-from", "from", kind), dpos, all_skipped
            return None, dpos, all_skipped
        gkind = seq[gpos] if gpos is not None and gpos < len(seq) else "end"
        if (gpos is not None and gpos < dpos) or all_skipped:
            exp_s = "skip"
        elif expected[0] == "ret":
            exp_s = "return-other"
        else:
            exp_s = "raise:" + "|".join(sorted(expected[1]))
        if gpos is not None and gpos < dpos:
            what = f"returned datagram #{gpos} ({gkind}) which must be skipped, never returned"
        elif gpos == dpos:
            what = f"returned datagram #{gpos} ({gkind}) which must raise {sorted(expected[1])}"
        else:
            what = f"returned datagram #{gpos} ({gkind}), documented outcome is {expected} at #{dpos} ({kind})"
            gkind = kind
        return prob(what, "return", exp_s, gkind), dpos, all_skipped
    # raised
    cat = got[1]
    if expected[0] == "raise" and cat in expected[1]:
        return None, dpos, all_skipped
    exp_s = "return" if expected[0] == "ret" else "raise:" + "|".join(sorted(expected[1]))
    return (
        prob(f"raised {got[2]} ({cat}); documented outcome is {expected} decided by datagram #{dpos} ({kind})",
             "raise:" + cat, exp_s, kind),
        dpos,
        all_skipped,
    )


# --------------------------------------------------------------------------------------
# is_response / source check
# --------------------------------------------------------------------------------------


def _check_is_response(qop, rop, qr, same_id, rcode, qrel):
    qflags = RD | (qop << 11)
    rflags = (QR if qr else 0) | RD | (rop << 11) | (rcode & 0xF)
    qq = [_q(QNAME, T_A)]
    rel = {
        "same": [_q(QNAME, T_A)],
        "case": [_q((b"WWW", b"Example"), T_A)],
        "name": [_q(OTHER, T_A)],
        "type": [_q(QNAME, T_AAAA)],
        "class": [_q(QNAME, T_A, 3)],
        "empty": [],
        "superset": [_q(QNAME, T_A), _q(OTHER, T_A)],
        "two-same-order": None,
        "two-swapped": None,
    }
    if qrel in ("two-same-order", "two-swapped"):
        qq = [_q(QNAME, T_A), _q(OTHER, T_AAAA)]
        rq = list(qq) if qrel == "two-same-order" else list(reversed(qq))
    else:
        rq = rel[qrel]
    qw = _msg(QID, qflags, qq)
    rw = _msg(QID if same_id else QID ^ 0x4000, rflags, rq)
    try:
        q = dns.message.from_wire(qw)
        r = dns.message.from_wire(rw)
    except Exception as e:
        return "skip", f"harness: {type(e).__name__}"
    # spec predicate (DESIGN P1 / RFC 1035 4.1.1 matching rules + the documented rcode exception)
    if not qr or not same_id or qop != rop:
        want = False
    elif rcode in (1, 2, 4, 5) and qrel == "empty":
        want = True
    elif qop == 5:
        want = True
    else:
        want = qrel in ("same", "case", "two-same-order", "two-swapped")
    got = q.is_response(r)
    if bool(got) != want:
        why = "qr" if not qr else ("id" if not same_id else ("opcode" if qop != rop else "question:" + qrel))
        return (
            f"is_response(query opcode {qop}, response opcode {rop} qr={qr} same_id={same_id} rcode={rcode} question={qrel})"
            f" = {got}, spec predicate = {want}",
            {"prop": "C18", "site": "Message.is_response", "differs_on": why, "want": want},
        )
    return None


def _oracle_addr_equal(af, a1, a2):
    try:
        n1 = socket.inet_pton(af, a1[0])
        n2 = socket.inet_pton(af, a2[0])
    except (OSError, ValueError, TypeError):
        return False
    return n1 == n2 and tuple(a1[1:]) == tuple(a2[1:])


def _oracle_multicast(af, text):
    try:
        b = socket.inet_pton(af, text)
    except (OSError, ValueError):
        return False
    if af == socket.AF_INET:
        return 224 <= b[0] <= 239
    return b[0] == 255


def _check_source(af, frm, dest, iu):
    if dest is None:
        want = True
    elif _oracle_addr_equal(af, frm, dest):
        want = True
    elif _oracle_multicast(af, dest[0]) and tuple(frm[1:]) == tuple(dest[1:]):
        want = True
    else:
        want = False if iu else "raise"
    try:
        got = dns.query._matches_destination(af, frm, dest, iu)
        if got not in (True, False):
            got = bool(got)
    except dns.query.UnexpectedSource:
        got = "raise"
    except Exception as e:
        got = "exc:" + type(e).__name__
    if got != want:
        cls = ("multicast" if dest and _oracle_multicast(af, dest[0]) else
               "same-address-different-text" if dest and frm[0] != dest[0] and want is True else
               "port/flow/scope" if dest and frm[0] == dest[0] else "address")
        return (
            f"_matches_destination({af}, {frm}, {dest}, ignore_unexpected={iu}) -> {got}, expected {want}",
            {"prop": "C18", "site": "dns.query._matches_destination", "class": cls, "want": str(want), "got": str(got)},
        )
    if dest is not None:
        w2 = _oracle_addr_equal(af, frm, dest)
        try:
            g2 = bool(dns.query._addresses_equal(af, frm, dest))
        except Exception as e:
            g2 = "exc:" + type(e).__name__
        if g2 != w2:
            return (
                f"_addresses_equal({af}, {frm}, {dest}) -> {g2}, binary comparison gives {w2}",
                {"prop": "C18", "site": "dns.query._addresses_equal", "want": str(w2), "got": str(g2)},
            )
    return None


# --------------------------------------------------------------------------------------
# stream framing
# --------------------------------------------------------------------------------------


def _tiny(mid):
    """12-octet message (header only, a response)."""
    return _msg(mid, QR | RD | RA)


def _frame(w):
    return struct.pack("!H", len(w)) + w


def _frame_ok(written, what_kind, payload):
    """Is *written* the length-prefixed form of the message?  For raw bytes the frame is known
    exactly; for a Message object the rendering may legitimately differ from our hand-made
    wire (name compression), so the prefix must equal the length of what follows and what
    follows must parse back to the same message."""
    if what_kind != "message":
        return written == _frame(payload)
    if len(written) < 2 or struct.unpack("!H", written[:2])[0] != len(written) - 2:
        return False
    try:
        a = dns.message.from_wire(written[2:])
        b = dns.message.from_wire(payload)
    except Exception:
        return False
    return a.id == b.id and a.flags == b.flags and a == b and a.to_wire() == b.to_wire()


def _compositions(n, parts=(1, 2, 3)):
    out = []

    def rec(rem, acc):
        if rem == 0:
            out.append(tuple(acc))
            return
        for p in parts:
            if p <= rem:
                acc.append(p)
                rec(rem - p, acc)
                acc.pop()

    rec(n, [])
    return out


_COMP14 = None


def _comp14():
    global _COMP14
    if _COMP14 is None:
        _COMP14 = _compositions(14)
    return _COMP14


def _with_blocks(sched, mode):
    if mode == "none":
        return list(sched)
    if mode == "all":
        out = []
        for s in sched:
            out.extend(["B", s])
        return out
    if mode == "ssl":
        out = []
        for i, s in enumerate(sched):
            out.extend(["W" if i % 2 else "B", s])
        return out
    if isinstance(mode, int):
        out = list(sched)
        out.insert(mode, "B")
        return out
    raise AssertionError(mode)


def _recv_stream(twin, data, schedule, nmsgs, stall=False, via="receive_tcp"):
    """Read *nmsgs* messages (or raw reads) from a scripted stream.  Returns list of results:
    ('msg', wire_of_reencoded, id) | ('raise', category)."""
    results = []
    sock = (_Stream if twin == "sync" else _AStream)(data, schedule, stall=stall)
    with _shim():
        for _ in range(nmsgs):
            try:
                if twin == "sync":
                    r, _t = dns.query.receive_tcp(sock, _time.time() + 5)
                else:
                    r, _t = _drive(dns.asyncquery.receive_tcp(sock, _time.time() + 5))
                results.append(("msg", r.id, bytes(getattr(r, "wire", b"")), r))
            except Exception as e:
                results.append(("raise", _category(e), type(e).__name__))
                break
    return results, sock


def _check_recv_case(twin, wires, schedule, cut=None, stall=False):
    """wires: list of payloads; stream = concat(frames)[:cut].  Expected: every frame wholly
    inside the stream is returned intact and in order; then EOFError (cut, not stalled),
    Timeout (stalled / 'T' in schedule)."""
    stream = b"".join(_frame(w) for w in wires)
    data = stream if cut is None else stream[:cut]
    has_t = "T" in schedule
    results, sock = _recv_stream(twin, data, list(schedule), len(wires) + (1 if cut is not None or stall else 0), stall)
    site = ("dns.query" if twin == "sync" else "dns.asyncquery") + ".receive_tcp"
    # expected
    exp = []
    off = 0
    if has_t:
        # bytes delivered before the deadline expires
        avail = 0
        req_left = None
        # simulate the documented read discipline to learn how many octets arrive before 'T'
        avail = _bytes_before_timeout(wires, data, schedule)
        limit = avail
    else:
        limit = len(data)
    for w in wires:
        if off + 2 + len(w) <= limit:
            exp.append(("msg", w))
            off += 2 + len(w)
        else:
            break
    complete = len(exp) == len(wires)
    if has_t and not complete:
        exp.append(("raise", "timeout"))
    elif cut is not None and not stall:
        exp.append(("raise", "eof"))
    elif stall:
        exp.append(("raise", "timeout"))
    for i, e in enumerate(exp):
        if i >= len(results):
            return (f"{site}: stopped after {len(results)} results, expected {len(exp)}", {"prop": "C18", "site": site, "what": "missing result"})
        g = results[i]
        if e[0] == "msg":
            if g[0] != "msg":
                return (
                    f"{site}: message {i} of stream (chunks {_short(schedule)}, cut={cut}) raised {g[2]} instead of being reassembled",
                    {"prop": "C18", "site": site, "what": "complete frame not returned", "got": g[1]},
                )
            want = dns.message.from_wire(e[1])
            if g[1] != want.id or (g[2] and g[2] != e[1]) or g[3].to_wire() != want.to_wire():
                return (
                    f"{site}: message {i} reassembled wrongly under chunks {_short(schedule)}",
                    {"prop": "C18", "site": site, "what": "reassembled message differs from the frame payload"},
                )
        else:
            if g[0] == "msg":
                return (
                    f"{site}: returned a message from an incomplete frame (cut={cut}, stall={stall}, chunks {_short(schedule)});"
                    f" expected {e[1]}",
                    {"prop": "C18", "site": site, "what": "short message returned", "expected": e[1]},
                )
            if g[1] != e[1]:
                return (
                    f"{site}: incomplete frame (cut={cut}, stall={stall}) raised {g[2]} ({g[1]}), expected {e[1]}",
                    {"prop": "C18", "site": site, "what": "wrong error for incomplete frame", "expected": e[1], "got": g[1]},
                )
    return None


def _bytes_before_timeout(wires, data, schedule):
    """Independent simulation of 'read 2, then read L' against the schedule: number of stream
    octets delivered before the 'T' event fires."""
    sched = list(schedule)
    pos = 0
    for w in wires:
        for need in (2, len(w)):
            while need > 0:
                ev = sched.pop(0) if sched else 1 << 20
                if ev in ("B", "W"):
                    continue
                if ev == "T":
                    return pos
                k = min(need, ev, len(data) - pos)
                if k == 0:
                    return pos
                pos += k
                need -= k
    return pos


def _short(schedule):
    s = list(schedule)
    return s if len(s) <= 16 else s[:16] + ["..."]


def _check_net_read(twin, count, data, schedule, stall=False):
    site = "dns.query._net_read" if twin == "sync" else "dns.asyncquery._read_exactly"
    sock = (_Stream if twin == "sync" else _AStream)(data, list(schedule), stall=stall)
    try:
        with _shim():
            if twin == "sync":
                got = dns.query._net_read(sock, count, _time.time() + 5)
            else:
                got = _drive(dns.asyncquery._read_exactly(sock, count, _time.time() + 5))
        res = ("ret", bytes(got))
    except Exception as e:
        res = ("raise", _category(e))
    # oracle
    avail = len(data)
    if count <= avail and "T" not in schedule:
        want = ("ret", data[:count])
    elif "T" in schedule:
        want = None  # covered by receive_tcp cases
    else:
        want = ("raise", "timeout" if stall else "eof")
    if want is not None and res != want:
        return (
            f"{site}(count={count}) on {len(data)} octets, chunks {_short(schedule)}: {res[0]} {res[1] if res[0]=='raise' else len(res[1])}"
            f", expected {want[0]} {want[1] if want[0]=='raise' else len(want[1])}",
            {"prop": "C18", "site": site, "what": "short/wrong read" if res[0] == "ret" else "wrong error", "want": want[0]},
        )
    return None


def _check_send_case(what_kind, payload, wschedule, via="send_tcp"):
    site = "dns.query." + via
    sock = _Stream(b"", wschedule=list(wschedule))
    has_t = "T" in wschedule
    frame = _frame(payload)
    try:
        with _shim():
            if via == "send_tcp":
                what = dns.message.from_wire(payload) if what_kind == "message" else payload
                n, _t = dns.query.send_tcp(sock, what, _time.time() + 5)
            else:
                dns.query._net_write(sock, frame, _time.time() + 5)
                n = len(frame)
        res = ("ret", n)
    except Exception as e:
        res = ("raise", _category(e))
    if has_t:
        # octets accepted before the deadline
        acc = 0
        for ev in wschedule:
            if ev == "T":
                break
            if isinstance(ev, int):
                acc += min(ev, len(frame) - acc)
        if acc < len(frame):
            if res != ("raise", "timeout"):
                return (f"{site}: deadline expired after {acc}/{len(frame)} octets but result {res}",
                        {"prop": "C18", "site": site, "what": "expired deadline not an error"})
            if sock.written != frame[:acc]:
                return (f"{site}: octets on the wire before the deadline are not a prefix of the frame",
                        {"prop": "C18", "site": site, "what": "written octets out of order"})
            return None
    if res[0] != "ret":
        return (f"{site}: raised {res[1]} with accept pattern {_short(wschedule)}", {"prop": "C18", "site": site, "what": "send raised"})
    if not _frame_ok(sock.written, what_kind if via == "send_tcp" else "bytes", payload):
        return (
            f"{site}: wire octets {sock.written.hex()[:60]} != u16 length prefix + message {frame.hex()[:60]} under accept pattern"
            f" {_short(wschedule)}",
            {"prop": "C18", "site": site, "what": "stream octets differ from length-prefixed message"},
        )
    if via == "send_tcp" and res[1] != len(frame):
        return (f"{site}: reported {res[1]} octets sent, frame has {len(frame)}", {"prop": "C18", "site": site, "what": "reported length"})
    return None


def _check_async_send(what_kind, payload):
    sock = _AStream(b"")
    what = dns.message.from_wire(payload) if what_kind == "message" else payload
    try:
        n, _t = _drive(dns.asyncquery.send_tcp(sock, what, _time.time() + 5))
    except Exception as e:
        return (f"dns.asyncquery.send_tcp raised {type(e).__name__}", {"prop": "C18", "site": "dns.asyncquery.send_tcp", "what": "send raised"})
    if not _frame_ok(sock.written, what_kind, payload) or n != len(sock.written):
        return (
            "dns.asyncquery.send_tcp: octets handed to sendall differ from u16 length prefix + message",
            {"prop": "C18", "site": "dns.asyncquery.send_tcp", "what": "stream octets differ from length-prefixed message"},
        )
    return None


def _check_tcp_exchange(twin, kind, chunk, it):
    """tcp() with one scripted reply."""
    site = ("dns.query" if twin == "sync" else "dns.asyncquery") + ".tcp"
    q = _the_query()
    if kind == "EOF0":
        data = b""
    elif kind == "EOFmid":
        data = _frame(_dgram("G", 0))[:-5]
    elif kind == "EOFlen":
        data = _frame(_dgram("G", 0))[:1]
    elif kind == "STALL":
        data = _frame(_dgram("G", 0))[:9]
    else:
        data = _frame(_dgram(kind, 0))
    sched = [chunk] * 400 if chunk else []
    if twin == "sync":
        sched = _with_blocks(sched[:200], "all") if chunk == 1 else sched
    sock = (_Stream if twin == "sync" else _AStream)(data, sched, stall=(kind == "STALL"))
    if twin == "sync":
        sock.wschedule = [chunk] * 400 if chunk else []
    try:
        with _shim():
            if twin == "sync":
                r = dns.query.tcp(q, "10.0.0.1", timeout=5.0, sock=sock, ignore_trailing=bool(it))
            else:
                r = _drive(dns.asyncquery.tcp(q, "10.0.0.1", timeout=5.0, sock=sock, ignore_trailing=bool(it)))
        got = ("ret", bytes(getattr(r, "wire", b"")))
    except Exception as e:
        got = ("raise", _category(e), type(e).__name__)
    if kind in ("EOF0", "EOFmid", "EOFlen"):
        want = ("raise", {"eof"})
    elif kind == "STALL":
        want = ("raise", {"timeout"})
    else:
        pc = _parse_class(kind, it, False)
        if pc == "genuine":
            want = ("ret",)
        elif pc == "mismatch":
            want = ("raise", {"badresponse"})
        else:
            want = ("raise", {"format"})
    if sock.written != _frame(_query_wire()):
        return (f"{site}: the query was not written as one length-prefixed frame", {"prop": "C18", "site": site, "what": "query frame"})
    ok = (got[0] == "ret" and want[0] == "ret") or (got[0] == "raise" and want[0] == "raise" and got[1] in want[1])
    if not ok:
        return (
            f"{site}(ignore_trailing={bool(it)}) reply {kind} in chunks of {chunk or 'any'}: got {got[:2] if got[0]=='raise' else 'return'},"
            f" expected {want}",
            {"prop": "C18", "site": site, "reply_class": kind if kind.startswith(("EOF", "STALL")) else _parse_class(kind, it, False),
             "got": got[0] if got[0] == "ret" else "raise:" + got[1], "expected": want[0] if want[0] == "ret" else "raise:" + "|".join(sorted(want[1]))},
        )
    return None


def _check_deadline():
    """_wait_for with an expiration in the past must raise Timeout (real socketpair)."""
    a, b = socket.socketpair()
    try:
        a.setblocking(False)
        b.send(b"x")
        try:
            dns.query._wait_for(a, True, False, True, _time.time() - 1.0)
            return ("dns.query._wait_for returned although the deadline had expired",
                    {"prop": "C18", "site": "dns.query._wait_for", "what": "expired deadline not an error"})
        except dns.exception.Timeout:
            pass
        try:
            dns.query._wait_for(a, True, False, True, _time.time() + 30.0)
        except dns.exception.Timeout:
            return ("dns.query._wait_for timed out on a readable socket with 30 s left",
                    {"prop": "C18", "site": "dns.query._wait_for", "what": "spurious timeout"})
        try:
            dns.query._wait_for(a, True, False, True, None)
        except dns.exception.Timeout:
            return ("dns.query._wait_for timed out with no deadline", {"prop": "C18", "site": "dns.query._wait_for", "what": "spurious timeout"})
    finally:
        a.close()
        b.close()
    return None


# --------------------------------------------------------------------------------------
# driver
# --------------------------------------------------------------------------------------

ALL_OPTS = [(iu, ie, rt, it) for iu in (0, 1) for ie in (0, 1) for rt in (0, 1) for it in (0, 1)]
FNS = ["udp", "receive_udp", "receive_udp_nodest", "receive_udp_noquery"]


def _udp_tree(R, fn, twin, opts, depth, kinds, **kw):
    clause = "C18.udp_exchange" if fn == "udp" else "C18.receive_udp"
    frontier = [[]]
    n = 0
    for level in range(depth + 1):
        nxt = []
        for prefix in frontier:
            if R.deadline():
                return n
            p, dpos, all_skipped = _judge_udp(fn, twin, opts, prefix, **dict(kw))
            n += 1
            R.case(clause, key=(fn, twin, opts, tuple(prefix), tuple(sorted(kw))), nontrivial=True)
            if p:
                R.violation(p[0], p[1], sig=p[2], replay={"kind": "udp", "fn": fn, "twin": twin, "opts": list(opts),
                                                         "seq": list(prefix), "kw": {k: v for k, v in kw.items() if k != "srcmap"}})
            if all_skipped and level < depth:
                for k in kinds:
                    nxt.append(prefix + [k])
        frontier = nxt
    return n


def _report(R, clause, p, replay):
    if p and p != "skip" and not (isinstance(p, tuple) and p[0] == "skip"):
        R.violation(clause, p[0], sig=p[1], replay=replay)


def run(R):
    # ---- is_response
    for qop in (0, 1, 2, 4, 5):
        for rop in (0, 1, 2, 4, 5):
            for qr in (1, 0):
                for same_id in (1, 0):
                    for rcode in range(0, 12):
                        for qrel in ("same", "case", "name", "type", "class", "empty", "superset", "two-same-order", "two-swapped"):
                            if (qop != rop or not qr or not same_id) and rcode > 5 and qrel not in ("same", "empty"):
                                continue
                            if 5 in (qop, rop):
                                # UPDATE messages: the question section is the zone section (one SOA-typed
                                # entry); keep to shapes that parse
                                if qrel not in ("same", "name", "empty"):
                                    continue
                            args = (qop, rop, qr, same_id, rcode, qrel)
                            p = R.guard("C18.is_response", _check_is_response, *args)
                            nontriv = not (isinstance(p, tuple) and p[0] == "skip")
                            R.case("C18.is_response", key=args, nontrivial=nontriv)
                            if nontriv:
                                _report(R, "C18.is_response", p, {"kind": "is_response", "args": list(args)})
    R.sample("C18.is_response", {"qop": 0, "rop": 0, "qr": 1, "same_id": 1, "rcode": 2, "question": "empty", "spec": True})

    # ---- source check
    v4 = [("10.0.0.1", 53), ("10.0.0.1", 54), ("10.0.0.2", 53), ("10.0.0.66", 5353), ("224.0.0.251", 5353),
          ("239.255.255.250", 5353), ("223.255.255.255", 5353), ("240.0.0.1", 5353), ("10.0.0.1", 5353)]
    bad4, bad6 = [("not-an-address", 53)], [("bogus", 53, 0, 0)]
    v6 = [("::1", 53, 0, 0), ("0:0:0:0:0:0:0:1", 53, 0, 0), ("::1", 53, 0, 2), ("::1", 53, 1, 0), ("::1", 54, 0, 0),
          ("2001:db8::1", 53, 0, 0), ("2001:DB8:0::1", 53, 0, 0), ("ff02::fb", 5353, 0, 0), ("fe80::1", 5353, 0, 0),
          ("fe80::2", 5353, 0, 3), ("feff::1", 5353, 0, 0)]
    for af, addrs, bad in ((socket.AF_INET, v4, bad4), (socket.AF_INET6, v6, bad6)):
        # an unparsable *source* text is possible input (it comes from the socket layer); the
        # destination is always derived from a validated address, so it is not varied that way
        for frm in addrs + bad:
            for dest in addrs + [None]:
                for iu in (False, True):
                    p = R.guard("C18.source", _check_source, af, frm, dest, iu)
                    R.case("C18.source", key=(af, frm, dest, iu))
                    _report(R, "C18.source", p, {"kind": "source", "args": [int(af), list(frm), list(dest) if dest else None, iu]})
    R.sample("C18.source", {"from": ["0:0:0:0:0:0:0:1", 53, 0, 0], "dest": ["::1", 53, 0, 0], "expected": True})

    # ---- deadline contract of _wait_for
    p = R.guard("C18.deadline", _check_deadline)
    R.case("C18.deadline", key="wait_for")
    _report(R, "C18.deadline", p, {"kind": "deadline"})

    # ---- UDP exchanges: exhaustive prefix trees
    nudp = 0
    for twin in ("sync", "async"):
        for fn in FNS:
            for opts in ALL_OPTS:
                if R.deadline():
                    break
                iu, ie, rt, it = opts
                if R.quick:
                    depth = 3 if (iu and ie and fn == "udp") else 2
                    if fn != "udp" and not (iu and ie):
                        depth = 1 if (it or rt) else 2
                else:
                    depth = 4 if (iu and ie and fn in ("udp", "receive_udp")) else 3
                nudp += _udp_tree(R, fn, twin, opts, depth, KINDS)
    R.sample("C18.udp_exchange", {"seq": ["F", "I", "X", "G"], "opts": "ignore_unexpected+ignore_errors", "expected": "return #3"})
    # would-block between datagrams, IPv6 destination with textual variants, multicast destination
    dest6 = ("2001:db8::1", 53, 0, 0)

    def src6(kind, pos, dest):
        if kind in ("F", "Fx"):
            return ("2001:db8::66", 53, 0, 0)
        if kind == "Fp":
            return ("2001:db8::1", 54, 0, 0)
        return (["2001:db8:0:0:0:0:0:1", "2001:DB8::1", "2001:db8::1"][pos % 3], 53, 0, 0)

    destm = ("224.0.0.251", 5353)
    for twin in ("sync", "async"):
        for opts in ALL_OPTS:
            if R.deadline():
                break
            d = 2 if R.quick else 3
            nudp += _udp_tree(R, "udp", twin, opts, d if opts[0] and opts[1] else 1, KINDS, dest=dest6, where="2001:db8::1",
                              family=socket.AF_INET6, srcmap=src6)
            nudp += _udp_tree(R, "udp", twin, opts, d if opts[0] and opts[1] else 1, KINDS, dest=destm, where="224.0.0.251",
                              multicast=True)
            for seq in (["block", "G"], ["I", "block", "block", "G"], ["block"], ["F", "block", "Tc"], ["block", "X", "block", "J"]):
                p, _, _ = _judge_udp("udp", twin, opts, seq)
                R.case("C18.udp_exchange", key=("blocks", twin, opts, tuple(seq)))
                if p:
                    R.violation(p[0], p[1], sig=p[2], replay={"kind": "udp", "fn": "udp", "twin": twin, "opts": list(opts), "seq": seq, "kw": {}})

    # ---- stream framing: exhaustive fragmentations
    m1, m2 = _tiny(0x0101), _tiny(0x0202)
    comps = _comp14()
    nfrag = 0
    modes = ["none", "all"] if R.quick else ["none", "all", "ssl"]
    for twin in ("sync", "async"):
        for ci, comp in enumerate(comps):
            if R.deadline():
                break
            for mode in (modes if twin == "sync" else ["none"]):
                sched = _with_blocks(comp, mode)
                p = _check_recv_case(twin, [m1], sched)
                R.case("C18.stream_framing", key=("recv1", twin, comp, mode))
                nfrag += 1
                _report(R, "C18.stream_framing", p, {"kind": "recv", "twin": twin, "wires": [m1], "schedule": sched, "cut": None, "stall": False})
            # raw reader on the same schedule
            p = _check_net_read(twin, 14, _frame(m1), list(comp))
            R.case("C18.stream_framing", key=("read", twin, comp))
            _report(R, "C18.stream_framing", p, {"kind": "read", "twin": twin, "count": 14, "data": _frame(m1), "schedule": list(comp), "stall": False})
            if not R.quick and twin == "sync":
                for i in range(len(comp) + 1):
                    sched = _with_blocks(comp, i)
                    p = _check_recv_case(twin, [m1], sched)
                    R.case("C18.stream_framing", key=("recv1", twin, comp, i))
                    nfrag += 1
                    _report(R, "C18.stream_framing", p, {"kind": "recv", "twin": twin, "wires": [m1], "schedule": sched, "cut": None, "stall": False})
            # two-message stream: this message exhaustively fragmented, the other in fixed chunks
            step = 1 if not R.quick else 4
            if ci % step == 0:
                for other in ((1, 2, 3, 1 << 20) if not R.quick else (1, 3)):
                    n_other = 14 if other < 14 else 1
                    for first in (True, False):
                        sched = (list(comp) + [other] * n_other) if first else ([other] * (-(-2 // other) + -(-12 // other)) + list(comp))
                        p = _check_recv_case(twin, [m1, m2], sched)
                        R.case("C18.stream_framing", key=("recv2", twin, comp, other, first))
                        nfrag += 1
                        _report(R, "C18.stream_framing", p, {"kind": "recv", "twin": twin, "wires": [m1, m2], "schedule": sched, "cut": None, "stall": False})
    # EOF and expiry at every offset of the 2-message stream (and of a realistic pair)
    real1, real2 = _dgram("G", 1), _dgram("Q", 2)
    for twin in ("sync", "async"):
        for wires in ([m1, m2], [real1, real2]):
            total = sum(len(w) + 2 for w in wires)
            for cut in range(0, total + 1):
                for chunk in (1, 2, 3, 1 << 20):
                    for stall in (False, True):
                        sched = [chunk] * (total + 2) if chunk < 100 else []
                        if twin == "sync" and chunk == 2:
                            sched = _with_blocks(sched, "all")
                        p = _check_recv_case(twin, wires, sched, cut=cut, stall=stall)
                        R.case("C18.stream_eof_deadline", key=(twin, len(wires[0]), cut, chunk, stall))
                        _report(R, "C18.stream_eof_deadline", p, {"kind": "recv", "twin": twin, "wires": wires, "schedule": sched, "cut": cut, "stall": stall})
                # deadline expiring after exactly `cut` octets while more data would follow
                if cut < total:
                    for chunk in (1, 3):
                        sched = []
                        left = cut
                        while left > 0:
                            k = min(chunk, left)
                            sched.append(k)
                            left -= k
                        # chunks are clipped by the reader's request size; express the cut in octets
                        p = _check_recv_case(twin, wires, sched + ["T"])
                        R.case("C18.stream_eof_deadline", key=(twin, "T", len(wires[0]), cut, chunk))
                        _report(R, "C18.stream_eof_deadline", p, {"kind": "recv", "twin": twin, "wires": wires, "schedule": sched + ["T"], "cut": None, "stall": False})
            # raw reader: every count against every available length
            for count in range(0, 9):
                for avail in range(0, 9):
                    for chunk in (1, 2, 3, 1 << 20):
                        for stall in (False, True):
                            data = bytes(range(1, avail + 1))
                            sched = [chunk] * 10
                            p = _check_net_read(twin, count, data, sched, stall=stall)
                            R.case("C18.stream_eof_deadline", key=("read", twin, count, avail, chunk, stall))
                            _report(R, "C18.stream_eof_deadline", p, {"kind": "read", "twin": twin, "count": count, "data": data, "schedule": sched, "stall": stall})
    # send side
    for ci, comp in enumerate(comps):
        if R.deadline():
            break
        for mode in modes:
            ws = _with_blocks(comp, mode)
            ws = ["W" if e == "W" else e for e in ws]
            for via, kind in (("send_tcp", "bytes"), ("_net_write", "bytes")) if ci % 2 else (("send_tcp", "message"),):
                p = _check_send_case(kind, m1, ws, via)
                R.case("C18.stream_send", key=(via, kind, comp, mode))
                _report(R, "C18.stream_send", p, {"kind": "send", "what": kind, "payload": m1, "wschedule": ws, "via": via})
        if ci % 8 == 0:
            # deadline expiring in the middle of a write
            for cutat in range(0, len(comp)):
                ws = list(comp[:cutat]) + ["T"]
                p = _check_send_case("bytes", m1, ws, "send_tcp")
                R.case("C18.stream_send", key=("T", comp, cutat))
                _report(R, "C18.stream_send", p, {"kind": "send", "what": "bytes", "payload": m1, "wschedule": ws, "via": "send_tcp"})
    for kind in ("bytes", "message"):
        for payload in (m1, real1, _dgram("J", 0)[:-6], _msg(7, QR, [_q((b"x" * 63,) * 3, T_A)], [_rr((b"x" * 63,) * 3, T_TXT, 1, b"\xff" + b"y" * 255)] * 40)):
            p = R.guard("C18.stream_send", _check_async_send, kind, payload)
            R.case("C18.stream_send", key=("async", kind, len(payload)))
            _report(R, "C18.stream_send", p, {"kind": "asend", "what": kind, "payload": payload})
            # sync round trip: send then receive under another chunking
            for chunk in (1, 2, 3, 7, 1 << 20):
                s = _Stream(b"", wschedule=[chunk] * (len(payload) + 4) if chunk < 100 else [])
                with _shim():
                    try:
                        dns.query.send_tcp(s, dns.message.from_wire(payload) if kind == "message" else payload, _time.time() + 5)
                        err = None
                    except Exception as e:
                        err = e
                if err is None:
                    p = _check_recv_case("sync", [payload], [3, 1, 2] * (len(payload)) if chunk == 1 else [chunk] * (len(payload) + 4) if chunk < 100 else [])
                    if p is None and not _frame_ok(s.written, kind, payload):
                        p = ("send_tcp then receive_tcp is not the identity on the wire message",
                             {"prop": "C18", "site": "dns.query.send_tcp", "what": "stream octets differ from length-prefixed message"})
                else:
                    p = (f"send_tcp raised {type(err).__name__}", {"prop": "C18", "site": "dns.query.send_tcp", "what": "send raised"})
                R.case("C18.stream_send", key=("roundtrip", kind, len(payload), chunk))
                _report(R, "C18.stream_send", p, {"kind": "send", "what": kind, "payload": payload, "wschedule": [chunk] * (len(payload) + 4) if chunk < 100 else [], "via": "send_tcp"})

    # ---- tcp() exchange
    for twin in ("sync", "async"):
        for kind in ("G", "Gs", "I", "Q", "Qt", "O", "N", "X", "Xs", "M", "Tc", "J", "EOF0", "EOFmid", "EOFlen", "STALL"):
            for chunk in (0, 1, 2, 5):
                for it in (0, 1):
                    p = R.guard("C18.tcp_exchange", _check_tcp_exchange, twin, kind, chunk, it)
                    R.case("C18.tcp_exchange", key=(twin, kind, chunk, it))
                    _report(R, "C18.tcp_exchange", p, {"kind": "tcp", "twin": twin, "reply": kind, "chunk": chunk, "it": it})

    # ---- seeded
    rng = R.rng
    nseq = 2000 if R.quick else 20000
    for i in range(nseq):
        if R.deadline():
            break
        seq = [rng.choice(KINDS + ["block"]) for _ in range(rng.randint(5, 8))]
        # make skipping likely so that long prefixes are exercised
        opts = (1, 1, rng.randint(0, 1), rng.randint(0, 1)) if rng.random() < 0.7 else tuple(rng.randint(0, 1) for _ in range(4))
        fn = rng.choice(FNS + ["udp"] * 3)
        twin = rng.choice(["sync", "async"])
        p, _, _ = _judge_udp(fn, twin, opts, seq)
        R.case("C18.udp_exchange" if fn == "udp" else "C18.receive_udp", key=("seeded", i))
        nudp += 1
        if p:
            R.violation(p[0], p[1], sig=p[2], replay={"kind": "udp", "fn": fn, "twin": twin, "opts": list(opts), "seq": seq, "kw": {}})
    nfr = 1500 if R.quick else 10000
    pool = [real1, real2, m1, _dgram("Tc", 3), _dgram("Gs", 4), _msg(9, QR, [_q((b"a" * 63,) * 3, T_A)], [_rr((b"a" * 63,) * 3, T_TXT, 5, b"\x10" + b"z" * 16)] * 25)]
    for i in range(nfr):
        if R.deadline():
            break
        wires = [rng.choice(pool) for _ in range(rng.randint(1, 4))]
        total = sum(len(w) + 2 for w in wires)
        sched = []
        acc = 0
        while acc < total + 10:
            r = rng.random()
            if r < 0.15:
                sched.append("B")
            elif r < 0.2:
                sched.append("W")
            else:
                k = rng.choice([1, 1, 2, 3, 5, 8, 13, 40])
                sched.append(k)
                acc += k
        twin = rng.choice(["sync", "async"])
        mode = rng.random()
        cut = None
        stall = False
        if mode < 0.3:
            cut = rng.randint(0, total)
            stall = rng.random() < 0.5
        elif mode < 0.45:
            sched.insert(rng.randint(0, min(len(sched), 12)), "T")
        p = R.guard("C18.stream_framing", _check_recv_case, twin, wires, sched, cut, stall)
        R.case("C18.stream_framing", key=("seeded", i))
        nfrag += 1
        _report(R, "C18.stream_framing", p, {"kind": "recv", "twin": twin, "wires": wires, "schedule": sched, "cut": cut, "stall": stall})
    R.sample("C18.stream_framing", {"frame": "14 octets", "chunks": list(comps[1234]), "blocks": "before every chunk"})
    R.note(f"udp cases {nudp}, receive fragmentation cases {nfrag}")


def replay(data):
    k = data.get("kind")
    if k == "udp":
        kw = dict(data.get("kw") or {})
        if "dest" in kw:
            kw["dest"] = tuple(kw["dest"])
        if kw.get("where") == "2001:db8::1":
            def src6(kind, pos, dest):
                if kind in ("F", "Fx"):
                    return ("2001:db8::66", 53, 0, 0)
                if kind == "Fp":
                    return ("2001:db8::1", 54, 0, 0)
                return (["2001:db8:0:0:0:0:0:1", "2001:DB8::1", "2001:db8::1"][pos % 3], 53, 0, 0)
            kw["srcmap"] = src6
        p, _, _ = _judge_udp(data["fn"], data["twin"], tuple(data["opts"]), list(data["seq"]), **kw)
        return (True, p[1]) if p else (False, "documented outcome")
    if k == "is_response":
        p = _check_is_response(*data["args"])
        return (True, p[0]) if p and p[0] != "skip" else (False, "is_response equals the spec predicate")
    if k == "source":
        af, frm, dest, iu = data["args"]
        p = _check_source(af, tuple(frm), tuple(dest) if dest else None, iu)
        return (True, p[0]) if p else (False, "source check as documented")
    if k == "deadline":
        p = _check_deadline()
        return (True, p[0]) if p else (False, "deadline contract holds")
    if k == "recv":
        p = _check_recv_case(data["twin"], list(data["wires"]), list(data["schedule"]), data.get("cut"), data.get("stall", False))
        return (True, p[0]) if p else (False, "stream reassembled as framed")
    if k == "read":
        p = _check_net_read(data["twin"], data["count"], data["data"], list(data["schedule"]), data.get("stall", False))
        return (True, p[0]) if p else (False, "exact read")
    if k == "send":
        p = _check_send_case(data["what"], data["payload"], list(data["wschedule"]), data.get("via", "send_tcp"))
        return (True, p[0]) if p else (False, "frame written exactly")
    if k == "asend":
        p = _check_async_send(data["what"], data["payload"])
        return (True, p[0]) if p else (False, "frame written exactly")
    if k == "tcp":
        p = _check_tcp_exchange(data["twin"], data["reply"], data["chunk"], data["it"])
        return (True, p[0]) if p else (False, "documented outcome")
    return False, "unknown replay kind"
