"""Bounded stand-in for C11 - versioned-zone readers see one immutable snapshot; version
retention is sound.  Real dns.versioned.Zone / dns.btreezone.Zone objects are driven through
seeded single-threaded histories (reader open/close, writer begin/ops/end, pruning-policy
changes) and compared with a model of the version history; every public method reachable from
a snapshot is invoked by reflection."""

from __future__ import annotations

import inspect

import dns.btree
import dns.immutable
import dns.name
import dns.node
import dns.rdataclass
import dns.rdataset
import dns.rdatatype
import dns.set

from bounded import _c10_model as M
from bounded import _c11_glue as G
from bounded.C10 import random_op

BOUNDS = (
    "dns.versioned.Zone and dns.btreezone.Zone x relativize on/off. Seeded single-threaded "
    "histories (quick: 700 histories of 20/40/60 steps; thorough: up to 12000 within 575 s) of: reader open (newest / "
    "by id over all ids ever committed +-1 / by serial over all serials ever used + unknown), "
    "reader close (rollback, commit, with-exit), writer begin (plain or replacement) / up to 6 "
    "random model operations / end by commit, rollback or exception, pruning-policy change "
    "(default, set_max_versions 1/2/3/5/None, custom 'prune unless id % k == 0'). After every "
    "step: each open reader's full content (iteration + get/get_node/name_exists probes) "
    "equals the model snapshot taken when it was opened; the set of retained versions, "
    "observed through reader(id=..) over every id ever committed, equals the model of the "
    "documented pruning rule (oldest first, stop at the first refusal, never the newest, never "
    "a version >= the oldest pinned one) and is a contiguous run of history; version ids "
    "strictly increase; the zone's own content is the newest version. Immutability: for up to "
    "3 readers per history (every reader in the dedicated exhaustive pass over 3 base zones x "
    "4 variants + the never-written zone), every public method and the mutating dunders of "
    "every object reachable from the snapshot (version, node map, delegation set, nodes, "
    "rdatasets, rdataset item maps, rdatas; also via get/get_node/iterate_rdatasets) are "
    "enumerated with dir() on the object and on a mutable twin, called with arguments drawn "
    "by parameter name; a call that changes the mutable twin must raise on the snapshot "
    "object, and no call may change the snapshot's deep fingerprint; attribute assignment and "
    "deletion are tried on every @immutable object. Side-effect copies of the B-tree zone "
    "(bounded/_c11_glue.py): dns.btreezone.Zone x relativize on/off over 9 owner names (apex, a cut "
    "with 3 descendants one of them below a second cut, a cut with 1 descendant, a name sorting "
    "directly after a subtree, an unrelated name), all present in an earlier committed version; "
    "enumerated histories (quick 39, thorough 96): for each of 3 cuts P, every subset T of P's "
    "descendants that the delegating transaction also writes, before or after storing the NS "
    "(add / replace form), then a transaction removing the delegation in one of 4 ways (delete "
    "type, delete name, delete the rdatas, replace+delete) while touching another subset, "
    "optionally an unrelated commit in between; 6 nested-cut histories x relativize (cut below / "
    "above an existing cut, removal of either, delete and re-create of a descendant); seeded "
    "histories (quick 30 of 8-12 steps, thorough up to 4000 of 8-24 steps within 45 s) of "
    "transactions of 1-5 operations biased to NS add/remove at 6 possible cuts and writes below "
    "them, replacement transactions, rollbacks, readers by id, policy changes; earlier versions "
    "stay retained (set_max_versions None/3/5 or a pinning reader). After every commit every "
    "node of every retained version (found by reader(id=) over all ids ever committed) is "
    "walked: is_immutable() is True; an explicit list of up to 15 node mutators (replace/delete/"
    "find(create)/get(create), assignment and deletion of rdatasets/flags/id), 9 mutators of the "
    "rdatasets container, 27 rdataset mutators, 7 item-map mutators and one rdata assignment "
    "must each raise and leave the node's deep fingerprint (object identities, types, id, "
    "flags, rdatasets, items) unchanged (full list the first time an object is seen in a "
    "history, a reduced list of 11 on every later walk), and the walk as a whole must leave the "
    "deep fingerprint of every retained version and open reader unchanged; the reflection "
    "battery above is also run on the side-effect-copied nodes (quick: 8 snapshots). After "
    "every step every retained version's content equals a dict model of the version it was "
    "committed as and its deep fingerprint equals the one taken at commit. Caller-owned objects "
    "are not aliased (C11.caller_objects_not_aliased): both zone kinds x relativize on/off x the "
    "write that stores a caller-owned object {add on a new name, replace of an existing RRset, add "
    "merging into an existing RRset} x the object handed over {dns.rdataset.Rdataset, an Rdataset "
    "built from a caller-owned list of rdatas, dns.rrset.RRset} = 36 enumerated scenarios on the "
    "'small' base zone: the transaction also keeps every (name, rdataset) pair its writer yields from "
    "iterate_rdatasets() and what get()/get_node() return before the commit; after the commit a "
    "reader is opened on the new version, two more versions are committed (an unrelated name; "
    "another type at the same name, which copies the node) with a reader on each; then the caller "
    "mutates its own objects one call at a time (Rdataset add / discard / remove / update_ttl / ttl "
    "assignment / union_update / intersection_update / del [0] / clear / add again, on the object "
    "handed over and on every mutable rdataset obtained from the writer; append / clear on the "
    "list) and after every call the open readers' views (iteration, get, get_node, objects fetched "
    "before the mutation), fresh readers by id on the three versions and the zone's own content "
    "must equal the snapshot taken before the first mutation (which is compared with the model). "
    "Not covered: "
    "threads (C12), attribute assignment on the B-tree container objects themselves, private "
    "attributes."
)

IN = dns.rdataclass.IN


# =================================================================== deep fingerprint


def snapshot_fp(version, zone):
    """Everything observable from a version: content, node ids/flags, version id/origin,
    delegation index."""
    items = list(version.nodes.items())
    fp = M.items_fp(items, zone.origin, zone.relativize)
    extra = []
    for name, node in items:
        extra.append((str(name), getattr(node, "id", None), int(getattr(node, "flags", 0) or 0), type(node).__name__))
    dele = None
    if hasattr(version, "delegations"):
        dele = tuple(str(n) for n in version.delegations)
    return (fp, tuple(sorted(extra)), version.id, version.origin, dele, type(version.nodes).__name__, len(version.nodes))


# =================================================================== mutator surface

_DUNDERS = [
    "__setitem__",
    "__delitem__",
    "__ior__",
    "__iand__",
    "__iadd__",
    "__isub__",
    "__ixor__",
]
_SKIP = {"to_wire", "to_text", "to_styled_text", "visit_in_order", "cursor"}


def _rds_fp(rds):
    return (int(rds.rdclass), int(rds.rdtype), int(rds.covers), rds.ttl, tuple(M.tok(r) for r in rds))


def _node_fp(node):
    return (
        tuple(sorted(_rds_fp(r) for r in node.rdatasets)),
        getattr(node, "id", None),
        int(getattr(node, "flags", 0) or 0),
    )


def _map_fp(mp):
    return tuple(sorted((str(k), id(v)) for k, v in mp.items()))


def _set_fp(s):
    return tuple(str(x) for x in s)


def _mutable_rds(rds):
    t = dns.rdataset.Rdataset(rds.rdclass, rds.rdtype, rds.covers, rds.ttl)
    for r in rds:
        dns.set.Set.add(t, r)
    return t


def _spare_rdata(rds):
    """An rdata of the rdataset's type that is not in it, if the pool has one."""
    have = {M.tok(r) for r in rds}
    for key in M._POOL_TEXT:
        r = M.rd(key)
        if r.rdtype == rds.rdtype and M.tok(r) not in have:
            if r.rdtype == dns.rdatatype.RRSIG and r.covers() != rds.covers:
                continue
            return r
    if rds.rdtype == dns.rdatatype.SOA:
        return M.rd("soa:424242")
    return None


class _Ctx:
    """Argument candidates by parameter name for one object under test."""

    def __init__(self, zone, version, obj, kind):
        self.zone = zone
        self.version = version
        self.kind = kind
        names = [n for n in version.nodes.keys()]
        self.existing_name = names[0] if names else None
        self.new_name = dns.name.from_text("zz-new", None if zone.relativize else zone.origin)
        self.rds = None
        self.node = None
        if kind == "rdataset":
            self.rds = obj
        elif kind == "node":
            self.node = obj
            self.rds = obj.rdatasets[0] if len(obj.rdatasets) else None
        if self.rds is None:
            for _n, node in version.nodes.items():
                if len(node.rdatasets):
                    self.rds = node.rdatasets[0]
                    break
        # keys/values for the container kinds
        self.k_old = self.existing_name
        self.k_new = self.new_name
        if kind == "set":
            members = list(obj)
            self.k_old = members[0] if members else None
        elif kind == "items":
            keys = list(obj)
            self.k_old = keys[0] if keys else None
            self.k_new = M.rd("q1") if (self.k_old is None or self.k_old.rdtype != dns.rdatatype.AAAA) else M.rd("a1")

    def val(self):
        return None if self.kind == "items" else self.new_node()

    def rdatasets(self):
        out = []
        if self.rds is not None:
            rds = self.rds
            out.append(dns.rdataset.Rdataset(rds.rdclass, rds.rdtype, rds.covers, 0))
            sp = _spare_rdata(rds)
            if sp is not None:
                out.append(dns.rdataset.from_rdata(max(rds.ttl - 1, 0), sp))
            if len(rds):
                out.append(dns.rdataset.from_rdata(max(rds.ttl - 1, 0), rds[0]))
            out.append("SELF")
        out.append(dns.rdataset.from_rdata(7, M.rd("q1")))
        return out

    def rdatas(self):
        out = []
        if self.rds is not None:
            if len(self.rds):
                out.append(self.rds[0])
            sp = _spare_rdata(self.rds)
            if sp is not None:
                out.append(sp)
        else:
            out.append(M.rd("a1"))
        return out

    def new_node(self):
        n = self.zone.node_factory()
        n.rdatasets.append(dns.rdataset.from_rdata(5, M.rd("t2")))
        return n

    def for_param(self, pname):
        z = self.zone
        if pname in ("rdataset", "replacement", "other"):
            if self.kind in ("map", "set", "items"):
                if self.kind != "set":
                    return [{self.k_new: self.val()}, {}]
                return [[self.k_new], []]
            return self.rdatasets()
        if pname in ("rd", "item"):
            return self.rdatas()
        if pname in ("name", "key", "x", "value") and self.kind in ("map", "set", "version", "items"):
            if pname == "value" and self.kind in ("map", "items"):
                return [self.val()]
            out = [self.k_new]
            if self.k_old is not None:
                out.insert(0, self.k_old)
            return out
        if pname == "rdclass":
            return [IN]
        if pname == "rdtype":
            out = [dns.rdatatype.AAAA]
            if self.rds is not None:
                out.insert(0, self.rds.rdtype)
            return out
        if pname == "covers":
            return [self.rds.covers if self.rds is not None else dns.rdatatype.NONE]
        if pname == "create":
            return [True]
        if pname == "ttl":
            t = self.rds.ttl if self.rds is not None else 5
            return [max(t - 1, 0), t + 1]
        if pname == "i":
            return [0, slice(0, 1)]
        if pname == "default":
            return [None]
        if pname in ("elt", "element"):
            out = []
            if self.kind == "map":
                out.append(dns.btree.KV(self.new_name, self.new_node()))
                if self.existing_name is not None:
                    out.append(dns.btree.KV(self.existing_name, self.new_node()))
            elif self.kind == "set":
                out.append(dns.btree.Member(self.new_name))
            return out
        if pname == "in_order":
            return [False]
        if pname == "is_glue":
            return [True]
        if pname == "origin":
            return [z.origin]
        if pname == "relativize":
            return [True]
        return None


def _old(c):
    return [(c.k_old,)] if c.k_old is not None else []


_CONTAINERS = ("map", "items")
_EXPLICIT = {
    # methods whose signature is not introspectable or whose parameter names say little
    "__setitem__": lambda c: [(c.k_old if c.k_old is not None else c.k_new, c.val()), (c.k_new, c.val())] if c.kind in _CONTAINERS else None,
    "__delitem__": lambda c: _old(c) if c.kind in _CONTAINERS else ([(0,), (slice(0, 1),)] if c.kind == "rdataset" else None),
    "pop": lambda c: _old(c) if c.kind in _CONTAINERS else [()],
    "popitem": lambda c: [()],
    "clear": lambda c: [()],
    "setdefault": lambda c: [(c.k_new, c.val())] if c.kind in _CONTAINERS else None,
    "update": lambda c: [({c.k_new: c.val()},)] if c.kind in _CONTAINERS else None,
    "add": lambda c: [(c.k_new,)] if c.kind == "set" else None,
    "discard": lambda c: _old(c) if c.kind == "set" else None,
    "remove": lambda c: _old(c) if c.kind == "set" else None,
    "__ior__": lambda c: [({c.k_new: c.val()},)] if c.kind in _CONTAINERS else ([([c.k_new],)] if c.kind == "set" else None),
    "__iand__": lambda c: [([],)] if c.kind == "set" else None,
    "__isub__": lambda c: ([([c.k_old],)] if c.k_old is not None else []) if c.kind == "set" else None,
    "__ixor__": lambda c: [([c.k_new],)] if c.kind == "set" else None,
}


def _candidates(ctx, name, fn):
    ex = _EXPLICIT.get(name)
    if ex is not None:
        c = ex(ctx)
        if c is not None:
            return c
    try:
        sig = inspect.signature(fn)
    except (TypeError, ValueError):
        return None
    per = []
    for i, p in enumerate(sig.parameters.values()):
        if p.kind in (p.VAR_POSITIONAL, p.VAR_KEYWORD):
            continue
        if i == 0 and p.name in ("self", "cls"):
            continue
        c = ctx.for_param(p.name)
        if c is None:
            if p.default is not p.empty:
                break  # leave this and the following parameters at their defaults
            return None
        if not c:
            return []
        per.append(c)
    combos = [()]
    for c in per:
        combos = [x + (y,) for x in combos for y in c][:16]
    return combos


def _method_names(obj, twin):
    names = set()
    for o in (obj, twin):
        if o is None:
            continue
        for n in dir(type(o)):
            if n.startswith("_"):
                continue
            if n in _SKIP:
                continue
            if callable(getattr(type(o), n, None)):
                names.add(n)
    for d in _DUNDERS:
        if (twin is not None and hasattr(type(twin), d)) or hasattr(type(obj), d):
            names.add(d)
    return sorted(names)


def _call(o, name, args, self_marker):
    args = tuple(o if (isinstance(a, str) and a == "SELF") else a for a in args)
    return getattr(o, name)(*args)


class Surface:
    """Runs the reflection battery on one reader's snapshot."""

    def __init__(self, R, zone, txn, replay, label, counts=True):
        self.R = R
        self.zone = zone
        self.txn = txn
        self.version = txn.version
        self.replay = replay
        self.label = label
        self.fails = []
        self.uncalled = set()
        self.counts = counts
        self.initial = type(self.version).__name__ == "WritableVersion"

    def _sig(self, objname, method, cls):
        if self.initial:
            return {
                "check": "immutable",
                "object": "initial version committed by Zone.__init__ (a WritableVersion with a mutable map)",
                "class": "reachable from a reader and mutable",
            }
        return {"check": "immutable", "object": objname, "method": method, "class": cls}

    def _fail(self, objname, method, cls, what):
        self.fails.append(("C11.immutable", what, self._sig(objname, method, cls)))

    def _case(self, key, nontrivial=True):
        if self.counts and self.R is not None:
            self.R.case("C11.immutable", key=(self.label,) + key, nontrivial=nontrivial)

    def battery(self, obj, kind, twin_factory, fp_fn, objname):
        zone, version = self.zone, self.version
        ctx = _Ctx(zone, version, obj, kind)
        twin0 = twin_factory() if twin_factory else None
        for name in _method_names(obj, twin0):
            fn = getattr(type(twin0), name, None) if twin0 is not None else None
            if fn is None:
                fn = getattr(type(obj), name, None)
            cands = _candidates(ctx, name, fn)
            if cands is None:
                self.uncalled.add(objname + "." + name)
                continue
            for ci, args in enumerate(cands):
                mutating = None
                if twin_factory is not None:
                    twin = twin_factory()
                    b = fp_fn(twin)
                    try:
                        _call(twin, name, args, None)
                        mutating = fp_fn(twin) != b
                    except (TypeError, ValueError, KeyError, AttributeError, IndexError, NotImplementedError, dns.exception.DNSException):
                        mutating = None if fp_fn(twin) == b else True
                before = snapshot_fp(version, zone)
                raised = None
                try:
                    _call(obj, name, args, None)
                except Exception as e:  # noqa: BLE001
                    raised = e
                after = snapshot_fp(version, zone)
                self._case((objname, name, ci), nontrivial=bool(mutating) or twin_factory is None)
                if after != before:
                    self._fail(objname, name, "changed the snapshot", f"{objname}.{name}{_short(args)} changed the content reachable from an open reader")
                    return
                if mutating and raised is None:
                    self._fail(objname, name, "did not raise", f"{objname}.{name}{_short(args)} mutates a mutable {kind} but neither raised nor had any effect on the snapshot object")
                    return

    def attrs(self, obj, objname, attr_values):
        zone, version = self.zone, self.version
        for attr, value in attr_values:
            for mode in ("set", "del"):
                before = snapshot_fp(version, zone)
                had = hasattr(obj, attr)
                old = getattr(obj, attr, None)
                raised = None
                try:
                    if mode == "set":
                        setattr(obj, attr, value)
                    else:
                        delattr(obj, attr)
                except Exception as e:  # noqa: BLE001
                    raised = e
                self._case((objname, "attr", attr, mode), nontrivial=(mode == "set" or had))
                if raised is None and (mode == "set" or had):
                    # undo so that the rest of the run is not judged on a damaged object
                    try:
                        if had:
                            object.__setattr__(obj, attr, old)
                        elif mode == "set":
                            object.__delattr__(obj, attr)
                    except Exception:  # noqa: BLE001
                        pass
                    self._fail(
                        objname,
                        "__setattr__" if mode == "set" else "__delattr__",
                        "did not raise",
                        f"attribute {mode} of {objname}.{attr} on an object reachable from a reader was accepted",
                    )
                    return

    def run(self, max_nodes=4, only=None):
        """``only``: a set of owner names - the reflection battery is then run on exactly these
        nodes of the snapshot (and their rdatasets), not on the version / map / index objects."""
        zone, version, txn = self.zone, self.version, self.txn
        mp = version.nodes
        if only is not None:
            return self._nodes([(name, node) for name, node in mp.items() if name in only], len(only), 8)
        # the version object
        vname = type(version).__name__
        self.battery(version, "version", None, None, vname)
        if not self.initial:
            self.attrs(
                version,
                vname,
                [("id", 999), ("nodes", {}), ("origin", dns.name.root), ("zone", None), ("extra_attribute", 1)]
                + ([("delegations", None)] if hasattr(version, "delegations") else []),
            )
        else:
            # a WritableVersion is mutable by design; reaching it from a reader is the point
            self.attrs(version, vname, [("nodes", {})])
        if self.fails:
            return self.fails
        # the node map
        if isinstance(mp, dns.btree.BTreeDict):
            def twin_map():
                return dns.btree.BTreeDict(original=mp)
        else:
            def twin_map():
                return dict(mp.items())
        try:
            twin_map()
            tm = twin_map
        except Exception:  # noqa: BLE001 - e.g. a B-tree that was never made immutable
            def tm():
                d = {}
                d.update(mp.items())
                return d
        self.battery(mp, "map", tm, _map_fp, type(mp).__name__ + " (node map)")
        if isinstance(mp, dns.immutable.Dict):
            self.attrs(mp, "immutable.Dict (node map)", [("_odict", {}), ("extra_attribute", 1)])
        if self.fails:
            return self.fails
        if hasattr(version, "delegations"):
            dl = version.delegations

            def twin_set():
                try:
                    return type(dl)(original=dl)
                except Exception:  # noqa: BLE001
                    s = type(dl)()
                    for x in dl:
                        s.add(x)
                    return s

            self.battery(dl, "set", twin_set, _set_fp, type(dl).__name__ + " (delegation index)")
            if self.fails:
                return self.fails
        # nodes, rdatasets, item maps, rdatas
        objs = []
        for name, node in mp.items():
            objs.append((name, node))
        # also what the transaction API hands out
        for name, node in list(objs)[:2]:
            n2 = txn.get_node(name)
            if n2 is not None and n2 is not node:
                objs.append((name, n2))
        for name, rds in list(txn.iterate_rdatasets())[:3]:
            got = txn.get(name, rds.rdtype, rds.covers)
            if got is not None and got is not rds:
                self._rdataset(got, "ImmutableRdataset via Transaction.get")
                if self.fails:
                    return self.fails
        return self._nodes(objs, max_nodes, 3)

    def _nodes(self, objs, max_nodes, max_rds):
        zone = self.zone
        seen_nodes = 0
        for name, node in objs:
            if seen_nodes >= max_nodes:
                break
            seen_nodes += 1
            nname = type(node).__name__

            def twin_node(node=node):
                t = zone.node_factory()
                t.rdatasets = [_mutable_rds(r) for r in node.rdatasets]
                if hasattr(node, "id") and hasattr(t, "id"):
                    t.id = node.id
                if hasattr(node, "flags") and hasattr(t, "flags"):
                    t.flags = node.flags
                return t

            self.battery(node, "node", twin_node, _node_fp, nname)
            self.attrs(
                node,
                nname,
                [("rdatasets", []), ("extra_attribute", 1)]
                + ([("id", 999)] if hasattr(node, "id") else [])
                + ([("flags", 7)] if hasattr(node, "flags") else []),
            )
            if self.fails:
                return self.fails
            if not isinstance(node.rdatasets, tuple):
                self._fail(nname, "rdatasets", "mutable container", f"{nname}.rdatasets reachable from a reader is a {type(node.rdatasets).__name__}")
                return self.fails
            for rds in list(node.rdatasets)[:max_rds]:
                self._rdataset(rds, type(rds).__name__)
                if self.fails:
                    return self.fails
        return self.fails

    def _rdataset(self, rds, rname):
        self.battery(rds, "rdataset", lambda rds=rds: _mutable_rds(rds), _rds_fp, rname)
        self.attrs(rds, rname, [("ttl", rds.ttl + 1), ("rdtype", dns.rdatatype.TXT), ("covers", dns.rdatatype.A), ("items", {}), ("extra_attribute", 1)])
        if self.fails:
            return
        items = rds.items
        if not isinstance(items, dns.immutable.Dict):
            self._fail(rname, "items", "mutable container", f"{rname}.items reachable from a reader is a {type(items).__name__}")
            return
        self.battery(items, "items", lambda: dict(items.items()), lambda d: tuple(M.tok(k) for k in d), "immutable.Dict (rdataset items)")
        for r in list(rds)[:1]:
            first = [a for a in getattr(type(r), "__slots__", []) if not a.startswith("_")]
            self.attrs(r, "rdata " + dns.rdatatype.to_text(r.rdtype), [(first[0] if first else "rdtype", 1), ("rdclass", 3)])


def _short(args):
    s = repr(tuple("self" if (isinstance(a, str) and a == "SELF") else a for a in args))
    return s if len(s) < 120 else s[:117] + "..."


# =================================================================== history model


class Hist:
    """Executes history steps on a real zone and on the model; ``fails`` collects
    (clause, what, sig)."""

    def __init__(self, kind, relativize, R=None, label=None):
        self.kind = kind
        self.rel = relativize
        self.R = R
        self.label = label
        self.z = M.zone_class(kind)(M.ORIGIN, relativize=relativize)
        self.fails = []
        self.H = []  # [(id, Model)] every version ever committed, oldest first
        self.lo = 0  # retained = H[lo:]
        self.readers = {}  # handle -> (txn, id, fp at open)
        self.next_handle = 0
        self.policy = ("default", None)
        self.w = None  # (txn, model, base content)
        self.w_replacement = False
        self.steps = []
        self.uncalled = set()
        # the never-written zone: one empty version
        r = self.z.reader()
        self.H.append((r.version.id, M.Model()))
        r.rollback()

    # ------------------------------------------------------------ model of pruning
    def _policy_says_prune(self, vid):
        k, a = self.policy
        if k == "default":
            return True
        if k == "max":
            return a is not None and (len(self.H) - self.lo) > a
        if k == "mod":
            return vid % a != 0
        raise ValueError(k)

    def _prune_model(self):
        pinned = [vid for (_t, vid, _f) in self.readers.values()]
        least_kept = min(pinned) if pinned else self.H[-1][0]
        while self.H[self.lo][0] < least_kept and self._policy_says_prune(self.H[self.lo][0]):
            self.lo += 1

    def retained_ids(self):
        return [vid for vid, _m in self.H[self.lo :]]

    def content_of(self, vid):
        for v, m in self.H:
            if v == vid:
                return m
        return None

    # ------------------------------------------------------------ helpers
    def fail(self, clause, what, sig):
        self.fails.append((clause, what, sig))

    def case(self, clause, key, nontrivial=True):
        if self.R is not None:
            self.R.case(clause, key=(self.label, len(self.steps)) + tuple(key), nontrivial=nontrivial)

    def _reader_fp(self, txn):
        return M.txn_fp(txn, self.z)

    # ------------------------------------------------------------ steps
    def step(self, st):
        self.steps.append(st)
        kind = st[0]
        getattr(self, "_s_" + kind)(*st[1:])
        if not self.fails:
            self.check(kind if kind != "wend" else "wend/" + st[1])
        return self.fails

    def _s_open(self, how, arg):
        z = self.z
        retained = self.retained_ids()
        txn = None
        err = None
        try:
            if how == "newest":
                txn = z.reader()
            elif how == "id":
                txn = z.reader(id=arg)
            else:
                txn = z.reader(serial=arg)
        except Exception as e:  # noqa: BLE001
            err = e
        self.case("C11.reader_selection", (how, arg))
        if how == "newest":
            want_ids = [retained[-1]]
        elif how == "id":
            want_ids = [arg] if arg in retained else []
        else:
            want_ids = [vid for vid in retained if self.content_of(vid).soa_serial() == arg]
        ev = "open/" + how
        if txn is None:
            if want_ids:
                self.fail(
                    "C11.reader_selection",
                    f"reader({how}={arg}) raised {type(err).__name__} although version(s) {want_ids} are retained {retained}",
                    {"check": "reader_selection", "how": how, "class": "retained version refused"},
                )
            elif not isinstance(err, KeyError):
                self.fail(
                    "C11.reader_selection",
                    f"reader({how}={arg}) for a version that is not retained raised {type(err).__name__}: {err}",
                    {"check": "reader_selection", "how": how, "class": "unexpected exception " + type(err).__name__},
                )
            return
        vid = txn.version.id
        if vid not in want_ids:
            self.fail(
                "C11.reader_selection",
                f"reader({how}={arg}) returned version {vid}; acceptable: {want_ids} (retained {retained})",
                {"check": "reader_selection", "how": how, "class": "wrong or unretained version returned"},
            )
            try:
                txn.rollback()
            except Exception:  # noqa: BLE001
                pass
            return
        fp = self._reader_fp(txn)
        want = self.content_of(vid).fp()
        if fp != want:
            self.fail(
                "C11.snapshot_isolation",
                f"reader({how}={arg}) on version {vid} shows other content than that version had when committed: " + M.fp_diff(want, fp),
                {"check": "snapshot", "event": ev, "class": "content at open differs from the version's content"},
            )
        h = self.next_handle
        self.next_handle += 1
        self.readers[h] = (txn, vid, fp)

    def _s_close(self, h, method):
        txn, vid, fp = self.readers.pop(h)
        if method == "rollback":
            txn.rollback()
        elif method == "commit":
            txn.commit()
        else:
            with txn:
                pass
        self._prune_model()

    def _s_wbegin(self, replacement):
        txn = M.safe_writer(self.z, replacement)
        self.w_replacement = replacement
        base = self.H[-1][1]
        self.w = (txn, M.Model() if replacement else base.copy(), base)

    def _s_wop(self, op):
        txn, model, base = self.w
        trial = model.copy()
        exp = trial.apply(op)
        got = None
        try:
            M.apply_real(txn, op)
        except Exception as e:  # noqa: BLE001
            got = e
        if (exp is None) != (got is None):
            # C10's business; here it only means the model can no longer follow this writer
            self.w = (txn, None, base)
            return
        if exp is None:
            if trial.zero_alt is not None and M.txn_fp(txn, self.z) == trial.zero_alt.fp():
                trial = trial.zero_alt
            self.w = (txn, trial, base)

    def _s_wend(self, how):
        txn, model, base = self.w
        self.w = None
        newest_before = self.H[-1][0]
        if model is None:
            how = "rollback"  # the model lost track of this writer (a C10 matter): discard it
            self.steps[-1] = ["wend", "rollback"]
        if how == "commit":
            txn.commit()
        elif how == "rollback":
            txn.rollback()
        else:
            try:
                with txn:
                    raise _Boom()
            except _Boom:
                pass
        r = self.z.reader()
        vid = r.version.id
        got = self._reader_fp(r)
        r.rollback()
        self.case("C11.version_ids", (how,))
        if how == "commit" and vid != newest_before:
            if vid <= newest_before or any(vid <= v for v, _ in self.H):
                self.fail(
                    "C11.version_ids",
                    f"commit produced version id {vid}, not greater than the previous newest {newest_before}",
                    {"check": "ids", "class": "version id did not increase"},
                )
                return
            self.H.append((vid, model))
            self._prune_model()
        elif how == "commit":
            if self.w_replacement and not model.c:
                # a replacement transaction that stored nothing: the library publishes no
                # version; whether it should empty the zone is not stated anywhere
                pass
            elif model.fp() != base.fp():
                self.fail(
                    "C11.version_ids",
                    "a commit that changed the content produced no new version",
                    {"check": "ids", "class": "commit did not publish a new version"},
                )
                return
        else:
            if vid != newest_before:
                self.fail(
                    "C11.version_ids",
                    f"a transaction ended by {how} changed the newest version id {newest_before} -> {vid}",
                    {"check": "ids", "class": "rollback published a version"},
                )
                return
        want = self.H[-1][1].fp()
        if got != want:
            self.fail(
                "C11.snapshot_isolation",
                f"newest version after {how} differs from the model: " + M.fp_diff(want, got),
                {"check": "snapshot", "event": "wend/" + how, "class": "newest version content"},
            )

    def _s_policy(self, k, a):
        z = self.z
        if k == "default":
            z.set_pruning_policy(None)
        elif k == "max":
            z.set_max_versions(a)
        else:

            def pol(zone, version, a=a):
                return version.id % a != 0

            z.set_pruning_policy(pol)
        self.policy = (k, a)
        self._prune_model()

    def _s_mutate(self, h):
        txn, vid, fp = self.readers[h]
        s = Surface(self.R, self.z, txn, None, (self.label, len(self.steps)))
        s.run(max_nodes=3)
        self.uncalled |= s.uncalled
        self.fails += s.fails

    # ------------------------------------------------------------ invariants after a step
    def check(self, ev):
        z = self.z
        # (1) every open reader still shows its snapshot
        for h, (txn, vid, fp) in self.readers.items():
            now = self._reader_fp(txn)
            self.case("C11.snapshot_isolation", ("reader", h))
            if now != fp:
                self.fail(
                    "C11.snapshot_isolation",
                    f"open reader on version {vid} changed after {ev}: " + M.fp_diff(fp, now),
                    {"check": "snapshot", "event": ev, "class": "open reader's content changed"},
                )
                return
            if txn.version.id != vid:
                self.fail(
                    "C11.snapshot_isolation",
                    f"open reader's version id changed {vid} -> {txn.version.id}",
                    {"check": "snapshot", "event": ev, "class": "open reader's version replaced"},
                )
                return
        # probes through the other read API on one reader
        for h, (txn, vid, fp) in list(self.readers.items())[:1]:
            m = self.content_of(vid)
            for n in range(len(M.NAMES)):
                nm = M.abs_name(n)
                s = M.spell(n, "rel" if self.rel else "abs")
                if txn.name_exists(s) != (nm in m.c) or (txn.get_node(s) is None) != (nm not in m.c):
                    self.fail(
                        "C11.snapshot_isolation",
                        f"reader on version {vid}: name_exists/get_node({s}) disagrees with the snapshot",
                        {"check": "snapshot", "event": ev, "class": "name_exists/get_node"},
                    )
                    return
                for key, e in m.c.get(nm, {}).items():
                    g = txn.get(s, dns.rdatatype.RdataType(key[0]), dns.rdatatype.RdataType(key[1]))
                    if g is None or (g.ttl, tuple(sorted(M.tok(r) for r in g))) != (e[0], tuple(sorted(e[1]))):
                        self.fail(
                            "C11.snapshot_isolation",
                            f"reader on version {vid}: get({s},{key}) disagrees with the snapshot",
                            {"check": "snapshot", "event": ev, "class": "get"},
                        )
                        return
        # (2) retained versions, observed through the public reader(id=)
        want = self.retained_ids()
        got = []
        for vid, m in self.H:
            try:
                r = z.reader(id=vid)
            except KeyError:
                continue
            got.append(vid)
            c = self._reader_fp(r)
            r.rollback()
            if c != m.fp():
                self.fail(
                    "C11.snapshot_isolation",
                    f"retained version {vid} no longer has the content it was committed with after {ev}: " + M.fp_diff(m.fp(), c),
                    {"check": "snapshot", "event": ev, "class": "retained version content changed"},
                )
                return
        self.case("C11.retention", (ev,))
        if got != want:
            ids = [v for v, _ in self.H]
            pinned = sorted({vid for (_t, vid, _f) in self.readers.values()})
            if ids[-1] not in got:
                cls = "newest version not retained"
            elif any(p not in got for p in pinned):
                cls = "version pinned by an open reader not retained"
            elif got != ids[ids.index(got[0]) :]:
                cls = "retained versions are not a contiguous run ending at the newest"
            elif len(got) > len(want):
                cls = "version kept although the pruning policy prunes it"
            else:
                cls = "version pruned although the pruning policy keeps it"
            self.fail(
                "C11.retention",
                f"after {ev}: retained {got}, model {want} (history {ids}, pinned {pinned}, policy {self.policy})",
                {"check": "retention", "class": cls},
            )
            return
        # the private deque, when present, must say the same (read-only peek)
        vs = getattr(z, "_versions", None)
        if vs is not None:
            pv = [v.id for v in vs]
            if pv != want:
                self.fail(
                    "C11.retention",
                    f"after {ev}: zone._versions ids {pv}, model {want}",
                    {"check": "retention", "class": "internal deque differs from what reader(id=) shows"},
                )
                return
        # (3) ids strictly increase over history
        ids = [v for v, _ in self.H]
        if any(b <= a for a, b in zip(ids, ids[1:])):
            self.fail("C11.version_ids", f"version ids not strictly increasing: {ids}", {"check": "ids", "class": "not strictly increasing"})
            return
        # (4) the zone itself shows the newest version
        zf = M.zone_fp(z)
        if zf != self.H[-1][1].fp():
            self.fail(
                "C11.snapshot_isolation",
                f"zone content after {ev} is not the newest version: " + M.fp_diff(self.H[-1][1].fp(), zf),
                {"check": "snapshot", "event": ev, "class": "zone content is not the newest version"},
            )

    def close_all(self):
        for h in list(self.readers):
            try:
                self.readers.pop(h)[0].rollback()
            except Exception:  # noqa: BLE001
                pass
        if self.w is not None:
            try:
                self.w[0].rollback()
            except Exception:  # noqa: BLE001
                pass
            self.w = None


class _Boom(Exception):
    pass


# =================================================================== generation


def _normalise(op, rel):
    """Histories use the zone's own spelling of owner names (spelling is C10's subject)."""
    if "sp" in op and op["sp"] != "default":
        op["sp"] = "rel" if rel else "abs"
    if op["op"] == "serial":
        op["sp"] = "rel" if rel else "abs"
    if op.get("n") == "out":
        op["n"] = 1
    return op


def gen_step(h: Hist, rng, allow_mutate):
    r = rng.random()
    ids = [v for v, _ in h.H]
    if h.w is not None:
        if r < 0.55:
            return ["wop", _normalise(random_op(rng), h.rel)]
        if r < 0.80:
            return ["wend", rng.choice(["commit", "commit", "commit", "rollback", "raise"])]
    elif r < 0.30:
        if h.kind == "btree" and len(h.H) == 1:
            return ["wbegin", True]  # a never-written B-tree zone needs a replacement first
        return ["wbegin", rng.random() < 0.12]
    r = rng.random()
    if r < 0.35 or not h.readers:
        how = rng.choice(["newest", "id", "id", "serial"])
        if how == "id":
            return ["open", "id", rng.choice(ids + [ids[-1] + 1, ids[0] - 1])]
        if how == "serial":
            serials = sorted({m.soa_serial() for _v, m in h.H if m.soa_serial() is not None})
            return ["open", "serial", rng.choice(serials + [424242])]
        return ["open", "newest", None]
    if r < 0.65:
        return ["close", rng.choice(sorted(h.readers)), rng.choice(["rollback", "commit", "exit"])]
    if r < 0.85:
        k = rng.choice(["default", "max", "max", "mod"])
        if k == "max":
            return ["policy", "max", rng.choice([1, 2, 3, 5, None])]
        if k == "mod":
            return ["policy", "mod", rng.choice([2, 3])]
        return ["policy", "default", None]
    # (readers of the never-written version are left to the dedicated immutability pass, so
    # that a finding there does not cut every history short)
    cands = [k for k in sorted(h.readers) if h.readers[k][1] != h.H[0][0]]
    if allow_mutate and cands:
        return ["mutate", rng.choice(cands)]
    return ["open", "newest", None]


def run_history(R, kind, rel, nsteps, label, mutate_budget):
    h = Hist(kind, rel, R, label)
    rng = R.rng
    mut = 0
    try:
        with M.watchdog(60):
            for _ in range(nsteps):
                st = gen_step(h, rng, mut < mutate_budget)
                if st[0] == "mutate":
                    mut += 1
                if h.step(st):
                    break
    except M.Wedged:
        R.note(f"C11 history {label}: zone wedged (write transaction left registered)")
    except M.HarnessTimeout:
        R.note(f"C11 history {label}: watchdog fired")
    finally:
        h.close_all()
    return h


def _report(R, h: Hist):
    replay = {"check": "history", "kind": h.kind, "relativize": h.rel, "steps": h.steps}
    for clause, what, sig in h.fails:
        R.violation(clause, what, sig=sig, replay=replay)


# =================================================================== immutability pass


def immutability_pass(R):
    """Every reader of: the never-written zone, and zones that went through plain and
    replacement commits, deletions and copy-on-write of untouched nodes."""
    uncalled = set()
    for kind in ("versioned", "btree"):
        for rel in (True, False):
            for base_id in (None, "small", "rich", "apex"):
                bad, detail, fails, unc = _immut_one(R, kind, rel, base_id)
                uncalled |= unc
                for clause, what, sig in fails:
                    R.violation(clause, what, sig=sig, replay={"check": "immutable", "kind": kind, "relativize": rel, "base": base_id})
    if uncalled:
        R.note("C11 public methods not invoked (no argument candidates): " + ", ".join(sorted(uncalled)))


def _immut_one(R, kind, rel, base_id):
    z = M.zone_class(kind)(M.ORIGIN, relativize=rel)
    label = ("immut", kind, rel, base_id)
    if base_id is not None:
        M.load(z, M.base_model(base_id))
        # a second, incremental commit: some nodes changed, some shared with version 2
        sp = "rel" if rel else "abs"
        with M.safe_writer(z) as txn:
            M.apply_real(txn, {"op": "add", "n": 1, "sp": sp, "form": "ttl_rdata", "ttl": 77, "rds": ["a3"]})
            M.apply_real(txn, {"op": "delete", "n": 5, "sp": sp, "form": "name"})
            M.apply_real(txn, {"op": "add", "n": 3, "sp": sp, "form": "ttl_rdata", "ttl": 600, "rds": ["n2"]})
    fails = []
    unc = set()
    with M.watchdog(60):
        r = z.reader()
        try:
            s = Surface(R, z, r, None, label)
            fails = s.run(max_nodes=8)
            unc = s.uncalled
        finally:
            r.rollback()
    return bool(fails), fails[0][1] if fails else "every mutating call raised and changed nothing", fails, unc


# =================================================================== side-effect copies (B-tree zone)


def _glue_surface(R):
    """The reflection battery, restricted to the named nodes of a reader's snapshot."""

    def fn(zone, txn, only, label):
        s = Surface(R, zone, txn, None, label)
        return list(s.run(only=only))

    return fn


def _glue_one(R, rel, steps, label, tot):
    try:
        h = G.run_steps(rel, steps, R, label, _glue_surface(R))
    except M.Wedged:
        R.note(f"C11 glue history {label}: zone wedged (write transaction left registered)")
        return
    except M.HarnessTimeout:
        R.note(f"C11 glue history {label}: watchdog fired")
        return
    if h.lost:
        R.note(f"C11 glue history {label}: writer abandoned, {h.lost}")
    for k, v in h.stats.items():
        tot[k] = tot.get(k, 0) + v
    replay = {"check": "glue", "relativize": rel, "steps": h.steps}
    for clause, what, sig in h.fails:
        R.violation(clause, what, sig=sig, replay=replay)
    return h


def glue_pass(R):
    """dns.btreezone.Zone: an earlier committed version holds names; later transactions add or
    remove an NS delegation above them without (or while also) writing them; after every commit
    every node of every retained version is walked (bounded/_c11_glue.py)."""
    import random

    tot = {}
    fam = G.structured(R.quick)
    done = 0
    for label, rel, steps in fam:
        if R.deadline():
            break
        h = _glue_one(R, rel, steps, label, tot)
        if done < 1 and h is not None:
            R.sample("C11.immutable", {"glue history": label, "relativize": rel, "steps": h.steps})
        done += 1
    # its own generator, derived from the seed only, so that the histories below are the same
    # as they would be without this pass
    rng = random.Random(f"C11.glue/{R.seed}")
    n = 30 if R.quick else 4000
    cap = R.elapsed() + (10 if R.quick else 45)
    sdone = 0
    for i in range(n):
        if R.deadline() or R.elapsed() > cap:
            break
        rel = rng.random() < 0.5
        steps = G.seeded(rng, rng.choice([8, 10, 12]) if R.quick else rng.choice([8, 12, 16, 24]))
        _glue_one(R, rel, steps, ("glue", "seeded", i), tot)
        sdone += 1
    R.note(
        f"C11 glue histories run: {done}/{len(fam)} enumerated + {sdone} seeded; {tot.get('walks', 0)} walks over {tot.get('versions', 0)} retained versions, "
        f"{tot.get('nodes', 0)} (version, node) visits of which {tot.get('side_nodes', 0)} on nodes copied only as a side effect of a delegation change, "
        f"{tot.get('calls', 0)} mutator calls"
    )


# =================================================================== caller-owned objects


_ALIAS_HOW = ("add_new", "replace", "add_merge")
_ALIAS_FORM = ("rdataset", "rdataset_from_list", "rrset")
_ALIAS_WHAT = {
    "add_new": "txn.add(name, obj) on a new name",
    "replace": "txn.replace(name, obj) over an existing RRset",
    "add_merge": "txn.add(name, obj) merging into an existing RRset",
}


def _alias_mutations(obj, spare, other):
    """(label, thunk) list: in-place mutators of a caller-owned Rdataset / RRset."""

    def first():
        return list(obj)[0] if len(obj) else spare

    return [
        ("add(rdata)", lambda: obj.add(spare)),
        ("discard(rdata)", lambda: obj.discard(first())),
        ("update_ttl(1)", lambda: obj.update_ttl(1)),
        ("ttl = 7", lambda: setattr(obj, "ttl", 7)),
        ("union_update(other)", lambda: obj.union_update(other)),
        ("remove(rdata)", lambda: obj.remove(first())),
        ("intersection_update(other)", lambda: obj.intersection_update(other)),
        ("add(rdata, ttl)", lambda: obj.add(spare, 9)),
        ("del [0]", lambda: obj.__delitem__(0)),
        ("clear()", lambda: obj.clear()),
        ("add(rdata) after clear()", lambda: obj.add(spare)),
    ]


def _alias_one(R, kind, rel, how, form):
    """One scenario of C11.caller_objects_not_aliased -> [(clause, what, sig)]."""
    import dns.rrset

    clause = "C11.caller_objects_not_aliased"
    label = ("alias", kind, rel, how, form)
    fails = []
    sp = "rel" if rel else "abs"
    z = M.zone_class(kind)(M.ORIGIN, relativize=rel)
    z.set_max_versions(None)
    model = M.base_model("small")
    M.load(z, model)
    n = 3 if how == "add_new" else 1  # "c" is absent from the base, "a" holds A a1 (TTL 300)
    name = M.spell(n, sp)
    keys = ["a2"] if how == "add_merge" else ["a2", "a3"]
    ttl = 120
    op = {"op": "replace" if how == "replace" else "add", "n": n, "sp": sp, "form": "rdataset", "ttl": ttl, "rds": keys}
    lst = None
    if form == "rdataset":
        obj = dns.rdataset.Rdataset(IN, dns.rdatatype.A, ttl=ttl)
        for k in keys:
            obj.add(M.rd(k))
        args = (name, obj)
    elif form == "rdataset_from_list":
        lst = [M.rd(k) for k in keys]
        obj = dns.rdataset.from_rdata_list(ttl, lst)
        args = (name, obj)
    else:
        obj = dns.rrset.from_rdata_list(name, ttl, [M.rd(k) for k in keys])
        args = (obj,)
    readers = []
    try:
        # ---- version 1: the write that hands over the caller's object
        w = M.safe_writer(z)
        (w.replace if how == "replace" else w.add)(*args)
        held = [(str(nm), rds) for nm, rds in w.iterate_rdatasets()]
        held.append((str(name), w.get(name, dns.rdatatype.A)))
        wnode = w.get_node(name)
        w.commit()
        exp = model.copy()
        if exp.apply(op) is not None:
            return fails
        r1 = z.reader()
        readers.append(r1)
        fetched = [("reader.get()", r1.get(name, dns.rdatatype.A), _rds_fp), ("reader.get_node()", r1.get_node(name), _node_fp),
                   ("writer.get_node() before commit", wnode, _node_fp)]
        if M.txn_fp(r1, z) != exp.fp():
            if R is not None:
                R.note(f"C11 alias scenario {label}: committed content differs from the model before any mutation (C10's subject): "
                       + M.fp_diff(exp.fp(), M.txn_fp(r1, z)))
            return fails
        # ---- version 2 (unrelated name) and version 3 (another type at the same name: node copied)
        with M.safe_writer(z) as w2:
            w2.add(M.spell(5, sp), 30, M.rd("t1"))
        readers.append(z.reader())
        with M.safe_writer(z) as w3:
            w3.add(name, 60, M.rd("t2"))
        readers.append(z.reader())
        ids = [r.version.id for r in readers]
        if len(set(ids)) != 3:
            return fails

        def views():
            v = {}
            for i, r in enumerate(readers):
                v[f"open reader on version {i + 1} (iteration)"] = M.txn_fp(r, z)
                v[f"version {i + 1} content (deep fingerprint)"] = snapshot_fp(r.version, z)
                g = r.get(name, dns.rdatatype.A)
                v[f"open reader on version {i + 1} get()"] = None if g is None else _rds_fp(g)
                fr = z.reader(id=ids[i])
                try:
                    v[f"fresh reader(id=) on version {i + 1}"] = M.txn_fp(fr, z)
                finally:
                    fr.rollback()
            for what, o, fp in fetched:
                v["object from " + what + " of version 1"] = None if o is None else fp(o)
            v["zone content"] = M.zone_fp(z)
            return v

        before = views()

        def judge(objname, sigobj, mut):
            after = views()
            for k in before:
                if after[k] != before[k]:
                    d = M.fp_diff(before[k], after[k]) if isinstance(before[k], dict) else f"{before[k]!r} -> {after[k]!r}"[:300]
                    fails.append((
                        clause,
                        f"{kind}/relativize={rel}: after {_ALIAS_WHAT[how]} with a caller-owned {form} and commit, the caller's {mut} on {objname} "
                        f"changed: {k}: {d}",
                        {"check": "alias", "object": sigobj, "class": "a committed version / open reader changed when the application mutated its own object after the commit"},
                    ))
                    return True
            return False

        # ---- the caller mutates its own objects, one call at a time
        targets = [("the object handed to the transaction", "caller-owned object passed to add/replace", obj)]
        for nm, o in held:
            if o is obj or o is None:
                continue
            targets.append((f"the {type(o).__name__} {dns.rdatatype.to_text(o.rdtype)} at {nm} obtained from the writer before commit",
                            "rdataset obtained from the writer (iterate_rdatasets/get) before commit", o))
        if lst is not None:
            for mut, fn in (("list.append(rdata)", lambda: lst.append(M.rd("a1"))), ("list.clear()", lambda: lst.clear())):
                fn()
                if R is not None:
                    R.case(clause, key=label + ("list", mut))
                if judge("the list of rdatas the Rdataset was built from", "caller-owned list of rdatas", mut):
                    return fails
        for objname, sigobj, o in targets:
            spare = _spare_rdata(o) or M.rd("a1")
            other = dns.rdataset.from_rdata(5, spare)
            muts = _alias_mutations(o, spare, other)
            if isinstance(o, dns.rdataset.ImmutableRdataset):
                muts = [m for m in muts if m[0] in ("add(rdata)", "update_ttl(1)", "clear()")]  # each must simply refuse
            for mut, fn in muts:
                try:
                    fn()
                    legal = True
                except Exception:  # noqa: BLE001 - an immutable object refusing the call is fine
                    legal = False
                if R is not None:
                    R.case(clause, key=label + (sigobj, objname, mut), nontrivial=legal)
                if judge(objname, sigobj, mut):
                    return fails
    finally:
        for r in readers:
            try:
                r.rollback()
            except Exception:  # noqa: BLE001
                pass
    return fails


def alias_pass(R):
    """C11.caller_objects_not_aliased over every (zone kind, relativize, write, object form)."""
    done = 0
    for kind in ("versioned", "btree"):
        for rel in (True, False):
            for how in _ALIAS_HOW:
                for form in _ALIAS_FORM:
                    if R.deadline():
                        return
                    try:
                        with M.watchdog(30):
                            fails = _alias_one(R, kind, rel, how, form)
                    except (M.Wedged, M.HarnessTimeout):
                        R.note(f"C11 alias scenario {(kind, rel, how, form)}: zone wedged / watchdog fired")
                        continue
                    except Exception as e:  # noqa: BLE001
                        import traceback

                        R.note(f"harness error in alias scenario {(kind, rel, how, form)}: {type(e).__name__}: {e} {traceback.format_exc(limit=3)}")
                        continue
                    done += 1
                    if done == 1:
                        R.sample("C11.caller_objects_not_aliased", {"kind": kind, "relativize": rel, "write": _ALIAS_WHAT[how], "object": form})
                    for clause, what, sig in fails:
                        R.violation(clause, what, sig=sig, replay={"check": "alias", "kind": kind, "relativize": rel, "how": how, "form": form})
    R.note(f"C11 caller-owned-object scenarios run: {done}")


# =================================================================== entry points


def run(R):
    R.guard("C11.caller_objects_not_aliased", alias_pass, R)
    R.guard("C11.immutable", immutability_pass, R)
    R.guard("C11.immutable", glue_pass, R)
    n = 700 if R.quick else 12000
    tcap = 40 if R.quick else 575
    variants = [("versioned", True), ("btree", True), ("versioned", False), ("btree", False)]
    done = 0
    for i in range(n):
        if R.deadline() or R.elapsed() > tcap:
            R.note(f"C11 histories stopped at {i}/{n}")
            break
        kind, rel = variants[i % 4]
        steps = R.rng.choice([20, 40, 60])
        try:
            h = run_history(R, kind, rel, steps, i, 1 if R.quick else 2)
        except Exception as e:  # noqa: BLE001
            import traceback

            if M.raised_in_library(e):
                R.violation(
                    "C11.retention",
                    f"{kind}/relativize={rel}: {type(e).__name__}: {str(e)[:100]} raised by the library outside the judged calls",
                    sig={"check": "library exception", "site": M.innermost_dns_site(e), "exc": type(e).__name__},
                    replay={"check": "construct", "kind": kind, "relativize": rel},
                )
            else:
                R.note(f"harness error in history {i}: {traceback.format_exc(limit=4)}")
            continue
        if i < 2:
            R.sample("C11.retention", {"kind": kind, "relativize": rel, "steps": h.steps[:12]})
        _report(R, h)
        done += 1
    R.note(f"C11 histories run: {done}")


def replay(data):
    if data.get("check") == "construct":
        try:
            z = M.zone_class(data["kind"])(M.ORIGIN, relativize=data["relativize"])
            z.reader().rollback()
        except Exception as e:  # noqa: BLE001
            return True, f"{type(e).__name__}: {e}"
        return False, "zone constructed and readable"
    if data.get("check") == "immutable":
        bad, detail, _f, _u = _immut_one(None, data["kind"], data["relativize"], data["base"])
        return bad, detail
    if data.get("check") == "alias":
        fails = _alias_one(None, data["kind"], data["relativize"], data["how"], data["form"])
        if fails:
            return True, fails[0][0] + ": " + fails[0][1]
        return False, "committed versions and open readers are unaffected by mutations of the caller's objects"
    if data.get("check") == "glue":
        h = G.run_steps(data["relativize"], [list(st) for st in data["steps"]], None, None, _glue_surface(None))
        if h.fails:
            return True, h.fails[0][0] + ": " + h.fails[0][1]
        return False, "every node of every retained version is immutable and unchanged" + (f" (writer abandoned: {h.lost})" if h.lost else "")
    h = Hist(data["kind"], data["relativize"])
    try:
        with M.watchdog(120):
            for st in data["steps"]:
                if h.step(list(st)):
                    break
    finally:
        h.close_all()
    if h.fails:
        return True, h.fails[0][0] + ": " + h.fails[0][1]
    return False, "history matches the model"
