"""Bounded stand-in for C20 - B-tree zone flags, delegation index and bounds are a function
of zone content (dns/btreezone.py over dns/btree.py, dns/zone.py, dns/versioned.py).

The real ``dns.btreezone.Zone`` is driven through its public API (``dns.zone.from_text``
with ``zone_factory``, ``writer()`` / ``writer(True)`` transactions with replace / add /
delete) and, after every committed transaction, the committed version is compared with an
oracle written from the documentation only:

    apex            -> ORIGIN
    Cuts            =  non-apex owners of an NS rrset that are not beneath another
                       non-apex NS owner
    n in Cuts       -> DELEGATION and an entry in the delegation index
    n beneath Cuts  -> GLUE
    iteration       =  RFC 4034 section 6.1 canonical order
    bounds(q)       =  greatest non-occluded name <= q, least non-occluded name > q,
                       longest ancestor-or-self of q that exists (empty non-terminals
                       count), and whether q is at or below a member of Cuts

Names in the oracle are tuples of lower-case labels relative to the origin; the order is
computed on reversed label tuples of bytes, independently of ``dns.name``.

A history stops at the first version whose flags / index / order / content are wrong (later
versions would only show consequences of the same damage); bounds mismatches do not stop
a history.

Section O ("initial load: ways of supplying the origin") loads the same text with the origin
given as origin=, as a $ORIGIN directive only, and as both, for relativize on and off,
continues each zone with write transactions and applies the same checks; what only the
$ORIGIN / both loads get wrong is reported under C20.initial_load_origin_supply.
"""

from __future__ import annotations

import itertools
import random
import traceback

import dns.btreezone
import dns.name
import dns.rdata
import dns.rdataclass
import dns.rdataset
import dns.rdatatype
import dns.zone

CL_FLAGS = "C20.flags_match_content"
CL_INDEX = "C20.delegation_index_matches_content"
CL_ORDER = "C20.canonical_iteration_order"
CL_BOUNDS = "C20.bounds_match_reference"
CL_DELEG = "C20.delegation_lookup"
CL_CONTENT = "C20.content_matches_history"
CL_LOAD = "C20.initial_load_origin_supply"

BOUNDS = (
    "Real dns.btreezone.Zone (relativized and absolute, origin example., class IN) driven through "
    "dns.zone.from_text(zone_factory=...) and writer()/writer(True) transactions, against an oracle written "
    "from the documentation (apex -> ORIGIN; Cuts = non-apex NS owners not beneath another non-apex NS owner "
    "-> DELEGATION + index entry; names strictly beneath a member of Cuts -> GLUE; RFC 4034 canonical order "
    "computed on label tuples, independent of dns.name). After every committed transaction: every node's "
    "flags, the delegation index, the iteration order, the content against a replace/add/delete model of the "
    "history; and, once per distinct derived state, Delegations.get_delegation and ImmutableVersion.bounds "
    "(left, right, closest encloser, is_delegation, is_equal, name) for every query of a closed pool: all "
    "names of <= 3 labels over 7 label values (the 3 used in zones and their 4 canonical-order neighbours; "
    "400 names) plus every owner in the zone and 3 children of it (quick: the seeded part samples 100 of the "
    "400). A history stops at its first version with wrong flags/index/order/content; bounds mismatches do "
    "not stop it. EXHAUSTIVE: (L) every load order of six-record sets (nested cuts with a TXT at the cut, "
    "glue and an apex NS; three nested NS owners with glue at each level; cuts under an empty non-terminal "
    "with a two-rdata NS rrset) as zone text, as one replacement transaction, and as one transaction per "
    "record - quick: set 1 (720 orders) as text/relativized, one-transaction/absolute, per-record in both "
    "relativities, sets 2 and 3 with 5 records (120 orders) in two mode/relativity combinations each; "
    "thorough: 3 sets x 720 orders x 3 modes x 2 relativities. (T) the closure of all contents reachable by "
    "transactions that toggle one record slot (replace/add to create, delete-rdataset/delete-name to remove) "
    "or two slots in one transaction, every history replayed from an empty zone and states with a wrong "
    "derived state not expanded - quick: 6 slots with pairs (relativized, 64 contents) and 7 slots single "
    "(absolute, 128 contents); thorough: two universes of 8 slots (one with a 4-label owner), pairs, both "
    "relativities (4 x 256 contents, ~73k histories). SEEDED: (S) histories of 3-25 transactions of 1-4 "
    "operations (replace, add, delete rdataset, delete name, delete one rdata; NS/A/TXT; owner spelled "
    "relative or absolute, sometimes upper-case) over a per-history pool of <= 14 owners of <= 4 labels, "
    "initial load of 0-8 records in random order by text or by transaction, 8% rollbacks, 4% full "
    "replacements, in three families (free; never an NS owner above/below another; additionally no non-NS "
    "change at an existing cut) - quick 150 histories, thorough until 470 s (~30k versions). "
    "INITIAL LOAD, WAYS OF SUPPLYING THE ORIGIN (O, clause initial_load_origin_supply): the same zone text "
    "loaded by dns.zone.from_text(zone_factory=dns.btreezone.Zone) with the origin given (a) only as origin=, "
    "(b) only as a $ORIGIN directive in the text, (c) as both (origin= as text), for relativize on and off, "
    "owner names written absolute / relative with @ / alternating; every load is continued by write "
    "transactions and after the load and after every transaction flags, index, order, content, "
    "get_delegation and bounds are compared with the oracle exactly as in the other sections (bounds once per "
    "distinct state and way), zone.origin must be the origin, and (a), (b), (c) must show the same nodes, "
    "flags, rdatasets and index after every version; a failure that (a) shows as well is reported under its "
    "ordinary clause, one that only (b) or (c) shows under this clause. Fixed part: a six-record set without "
    "nested NS owners (apex SOA and NS, a cut with glue, a plain name, a name under an empty non-terminal), the "
    "SOA permuted with the rest, followed by 2 transactions that create a cut above existing names, remove a "
    "cut, rewrite the apex NS through the absolute spelling - quick 24 of the 720 orders, thorough 360. "
    "Seeded part (own generator seeded from the run's seed): contents and 2-3 follow-up transactions from the "
    "operation generator of S (families rotated), each in 2 (quick: 18 contents, 60 sampled bounds queries) or "
    "3 (thorough: 100 contents, all queries; run after S) record orders (generated, reversed - SOA last -, shuffled). "
    "Not covered: $ORIGIN directives that differ from origin= or change in mid-text, $INCLUDE, from_file/from_xfr loads, "
    "zones whose apex node is absent at query time (bounds not evaluated there), classes other than IN, "
    "other origins, concurrent readers/writers (C11/C12), a first non-replacement writer() on a fresh zone "
    "(F11, C10). Nothing in this property needs the cryptography package, so its absence costs no coverage."
)

ORIGIN = dns.name.from_text("example.")
ORG_LABELS = ORIGIN.labels
NORG = len(ORG_LABELS)
IN = dns.rdataclass.IN
F_ORIGIN = int(dns.btreezone.NodeFlags.ORIGIN)
F_DELEG = int(dns.btreezone.NodeFlags.DELEGATION)
F_GLUE = int(dns.btreezone.NodeFlags.GLUE)

ZL = ("b", "d", "f")  # labels used in zones
QL = ("a", "b", "c", "d", "e", "f", "g")  # query labels: the zone labels and their neighbours


# --------------------------------------------------------------------------- names / rdata
def mkname(n, rel, absolute_form=False):
    """n: tuple of str labels relative to the origin (may carry upper case)."""
    labels = tuple(l.encode() for l in n)
    if rel and not absolute_form:
        return dns.name.Name(labels)
    return dns.name.Name(labels + ORG_LABELS)


def to_rel(name):
    """dns.name.Name (relative, or absolute under the origin) -> lower-case label tuple."""
    labels = name.labels
    if name.is_absolute():
        labels = labels[: len(labels) - NORG]
    return tuple(l.decode().lower() for l in labels)


def norm(n):
    return tuple(l.lower() for l in n)


def nm(x):
    """Script spelling of a name ("" = apex, "f.d.b") or a tuple -> tuple of labels."""
    if isinstance(x, str):
        return tuple(x.split(".")) if x else ()
    return tuple(x)


def sp(n):
    """tuple of labels -> script spelling."""
    return ".".join(n)


_RD = {}


def rdata(t, v):
    key = (t, v)
    rd = _RD.get(key)
    if rd is None:
        if t == "NS":
            text = f"ns{v}.nsdom."
        elif t == "A":
            text = f"10.0.0.{v}"
        elif t == "TXT":
            text = f'"t{v}"'
        elif t == "SOA":
            text = f"ns.nsdom. hostmaster.nsdom. {v} 7200 900 1209600 86400"
        else:  # pragma: no cover
            raise ValueError(t)
        rd = dns.rdata.from_text(IN, t, text)
        _RD[key] = rd
    return rd


def rdata_text(t, v):
    return rdata(t, v).to_text()


def rd_variant(rd):
    t = dns.rdatatype.to_text(rd.rdtype)
    text = rd.to_text()
    if t == "NS":
        return t, int(text.split(".")[0][2:])
    if t == "A":
        return t, int(text.split(".")[3])
    if t == "TXT":
        return t, int(text.strip('"')[1:])
    if t == "SOA":
        return t, int(text.split()[2])
    return t, text


# --------------------------------------------------------------------------- oracle
def canon(n):
    """RFC 4034 6.1 sort key of a lower-case relative label tuple."""
    return tuple(l.encode() for l in reversed(n))


class Oracle:
    """Derived state defined by the documentation, from content alone.
    content: dict name -> iterable of type names."""

    def __init__(self, content):
        self.names = sorted(content, key=canon)
        ns = {n for n, ts in content.items() if n != () and "NS" in ts}
        self.ns_owners = ns
        self.cuts = {n for n in ns if not any(n[i:] in ns for i in range(1, len(n)))}
        self.flags = {}
        for n in self.names:
            if n == ():
                f = F_ORIGIN
            elif n in self.cuts:
                f = F_DELEG
            elif self.cut_of(n) is not None:
                f = F_GLUE
            else:
                f = 0
            self.flags[n] = f
        self.nonocc = [n for n in self.names if not (self.flags[n] & F_GLUE)]
        self.nonocc_keys = [canon(n) for n in self.nonocc]
        self.exist_all = {n[i:] for n in self.names for i in range(len(n) + 1)}
        self.exist_nonocc = {n[i:] for n in self.nonocc for i in range(len(n) + 1)}

    def cut_of(self, q):
        """The member of Cuts that q is at or below, or None."""
        for i in range(len(q)):
            if q[i:] in self.cuts:
                return q[i:]
        return None

    def bounds(self, q):
        import bisect

        k = canon(q)
        i = bisect.bisect_right(self.nonocc_keys, k)
        left = self.nonocc[i - 1] if i > 0 else None
        right = self.nonocc[i] if i < len(self.nonocc) else None
        ce_nonocc = next(q[j:] for j in range(len(q) + 1) if q[j:] in self.exist_nonocc or j == len(q))
        ce_all = next(q[j:] for j in range(len(q) + 1) if q[j:] in self.exist_all or j == len(q))
        cut = self.cut_of(q)
        return left, right, ce_nonocc, ce_all, cut


# --------------------------------------------------------------------------- model of a history
def model_apply(content, op):
    """content: dict name -> dict type -> set(variants).  op as in the scripts."""
    kind = op[0]
    n = norm(nm(op[1]))
    if kind == "put":
        content.setdefault(n, {})[op[2]] = {op[3]}
    elif kind == "add":
        content.setdefault(n, {}).setdefault(op[2], set()).add(op[3])
    elif kind == "delt":
        node = content.get(n)
        if node is not None and op[2] in node:
            del node[op[2]]
            if not node:
                del content[n]
    elif kind == "deln":
        content.pop(n, None)
    elif kind == "delr":
        node = content.get(n)
        if node is not None and op[2] in node:
            node[op[2]].discard(op[3])
            if not node[op[2]]:
                del node[op[2]]
            if not node:
                del content[n]
    else:  # pragma: no cover
        raise ValueError(op)


def real_apply(txn, op, rel):
    kind = op[0]
    absform = bool(op[4]) if len(op) > 4 else False
    name = mkname(nm(op[1]), rel, absform)
    if kind == "put":
        txn.replace(name, dns.rdataset.from_rdata(300, rdata(op[2], op[3])))
    elif kind == "add":
        txn.add(name, 300, rdata(op[2], op[3]))
    elif kind == "delt":
        txn.delete(name, op[2])
    elif kind == "deln":
        txn.delete(name)
    elif kind == "delr":
        txn.delete(name, rdata(op[2], op[3]))
    else:  # pragma: no cover
        raise ValueError(op)


def record_text(op, relative_owner=False):
    if relative_owner:
        owner = sp(nm(op[1])) or "@"
    else:
        owner = mkname(nm(op[1]), False).to_text()
    return f"{owner} 300 IN {op[2]} {rdata_text(op[2], op[3])}\n"


ORIGIN_WAYS = ("arg", "directive", "both")
WAY_TEXT = {"arg": "origin= argument", "directive": "$ORIGIN directive only", "both": "origin= argument and $ORIGIN directive"}


def zone_text(ops, way="arg", owners="abs"):
    """The zone text of a load.  way: how the origin reaches the reader ("arg": only as the
    origin= argument, "directive": only as a $ORIGIN line, "both").  owners: owner names
    written absolute ("abs"), relative to the origin with "@" for the apex ("rel"), or
    alternating per record ("mixed")."""
    lines = []
    if way in ("directive", "both"):
        lines.append(f"$ORIGIN {ORIGIN.to_text()}\n")
    for i, op in enumerate(ops):
        lines.append(record_text(op, owners == "rel" or (owners == "mixed" and i % 2 == 1)))
    return "".join(lines)


def load_text(t, rel):
    """dns.zone.from_text of a text-mode transaction description."""
    way = t.get("origin", "arg")
    text = zone_text(t["ops"], way, t.get("owners", "abs"))
    kw = {}
    if way == "arg":
        kw["origin"] = ORIGIN
    elif way == "both":
        kw["origin"] = ORIGIN.to_text()  # (the argument as text, the other accepted form)
    return dns.zone.from_text(text, relativize=rel, zone_factory=dns.btreezone.Zone, check_origin=False, **kw)


class Hist:
    """One zone and its model.  ``fails``: list of (clause, check, context, detail)."""

    def __init__(self, rel, memo=None, qpool=None):
        self.rel = rel
        self.zone = None
        self.content = {}
        self.prev_oracle = Oracle({})
        self.fails = []
        self.fatal = False
        self.memo = memo if memo is not None else set()
        self.qpool = qpool
        self.ncommits = 0
        self.bounds_evaluated = 0
        self.fresh_state = False
        self.last_ops = []

    # ---- running transactions
    def run_txn(self, t):
        """t: {"mode": "text"|"txn", "repl": bool, "commit": bool, "ops": [...]}"""
        mode = t.get("mode", "txn")
        repl = bool(t.get("repl", False))
        commit = bool(t.get("commit", True))
        ops = t["ops"]
        try:
            if mode == "text":
                self.zone = load_text(t, self.rel)
            else:
                if self.zone is None:
                    self.zone = dns.btreezone.Zone(ORIGIN, relativize=self.rel)
                    repl = True  # a fresh zone takes a replacement first (F11 belongs to C10)
                txn = self.zone.writer(repl)
                try:
                    for op in ops:
                        real_apply(txn, op, self.rel)
                    if commit:
                        txn.commit()
                    else:
                        txn.rollback()
                except BaseException:
                    try:
                        txn.rollback()
                    except Exception:
                        pass
                    raise
        except Exception as e:
            where = lib_frame(e)
            if where is None:
                raise
            self.fails.append((CL_FLAGS, f"exception:{type(e).__name__}", where, f"transaction {t!r} raised {e!r} in {where}"))
            self.fatal = True
            return
        self.last_ops = ops
        if commit:
            if repl or mode == "text":
                self.content = {}
            for op in ops:
                model_apply(self.content, op)
            self.ncommits += 1

    # ---- checks
    def check(self, bounds=True):
        """Compare the latest committed version with the oracle.  Returns True when the
        derived state is right (bounds mismatches do not count)."""
        zone = self.zone
        rel = self.rel
        try:
            with zone.reader() as txn:
                v = txn.version
                items = list(v.nodes.items())
                index = [to_rel(n) for n in v.delegations]
                ok = self._check_state(v, items, index)
                if ok and bounds:
                    self._check_bounds(v, items, index)
        except Exception as e:
            where = lib_frame(e)
            if where is None:
                raise
            self.fails.append((CL_FLAGS, f"exception:{type(e).__name__}", where, f"reading the version raised {e!r} in {where}"))
            self.fatal = True
            return False
        return ok

    def _check_state(self, v, items, index):
        fails = self.fails
        n0 = len(fails)
        view = {}
        real_flags = {}
        real_order = []
        for key, node in items:
            n = to_rel(key)
            real_order.append(n)
            types = {}
            for rds in node.rdatasets:
                tname = dns.rdatatype.to_text(rds.rdtype)
                types[tname] = {rd_variant(rd)[1] for rd in rds}
            view[n] = types
            real_flags[n] = int(node.flags)
            if self.rel == key.is_absolute():
                fails.append((CL_CONTENT, "key-relativity", "", f"key {key!r} in a zone with relativize={self.rel}"))
        # content
        if view != self.content:
            missing = sorted(set(self.content) - set(view))
            extra = sorted(set(view) - set(self.content))
            fails.append((CL_CONTENT, "content-differs", "", f"missing owners {missing[:4]} extra owners {extra[:4]} (or rdatasets differ)"))
        # order
        expected_order = sorted(view, key=canon)
        if real_order != expected_order or len(real_order) != len(view):
            fails.append((CL_ORDER, "order", "", f"iteration {real_order[:8]} expected {expected_order[:8]}"))
        o = Oracle(view)
        self.oracle = o
        prev = self.prev_oracle
        # NS owners of the previous version, of this one, and every owner touched by an NS
        # operation or a name deletion in the last transaction.  A name is in a
        # nested-cut situation when it is at or below one of them that has another one
        # beneath it (the documented model has no nested cuts; the known defects of the
        # pinned tree all live there, so the context keeps them apart from anything else).
        nsall = set(prev.ns_owners) | set(o.ns_owners)
        for op in self.last_ops:
            if op[0] == "deln" or (len(op) > 2 and op[2] == "NS"):
                nsall.add(norm(nm(op[1])))
        nsall.discard(())
        tops = [u for u in nsall if any(m != u and len(m) > len(u) and m[-len(u):] == u for m in nsall)]

        def nested(n):
            return any(len(n) >= len(u) and n[-len(u):] == u for u in tops)

        def mark(ctx, n):
            return ctx + ",nested-ns-owners" if nested(n) else ctx

        # index
        idx = set(index)
        if len(idx) != len(index):
            fails.append((CL_INDEX, "index-duplicate", "", f"index {index}"))
        extra = sorted(idx - o.cuts, key=canon)
        missing = sorted(o.cuts - idx, key=canon)
        if extra:
            n = extra[0]
            if n == ():
                ctx = "apex"
            elif n not in view:
                ctx = mark("name-absent", n)
            elif "NS" not in view[n]:
                ctx = mark("no-ns-rrset", n)
            else:
                ctx = "beneath-another-ns-owner"
            fails.append((CL_INDEX, "index-extra", ctx, f"index has {n} which is not a cut ({ctx}); cuts={sorted(o.cuts)} index={sorted(idx)}"))
        elif missing:
            n = missing[0]
            ctx = "nested-ns-owners" if nested(n) else "plain"
            fails.append((CL_INDEX, "index-missing", ctx, f"cut {n} missing from the index ({ctx}); cuts={sorted(o.cuts)} index={sorted(idx)}"))
        # flags
        best = None
        for n in o.names:
            want = o.flags[n]
            got = real_flags[n]
            if want == got:
                continue
            diff = want ^ got
            if diff & F_DELEG:
                if want & F_DELEG:
                    # (with the entry present the flag alone was lost: nesting plays no part)
                    ctx = "index-has-entry" if n in idx else mark("index-lacks-entry", n)
                    cand = (0, "delegation-flag-missing", ctx)
                else:
                    if n == ():
                        ctx = "apex"
                    elif "NS" not in view[n]:
                        ctx = mark("no-ns-rrset", n)
                    else:
                        ctx = "beneath-another-ns-owner"
                    cand = (1, "delegation-flag-extra", ctx)
            elif diff & F_GLUE:
                if want & F_GLUE:
                    ctx = mark("cut-in-index" if o.cut_of(n) in idx else "cut-not-in-index", n)
                    cand = (2, "glue-flag-missing", ctx)
                else:
                    anc = any(n[i:] in idx for i in range(1, len(n)))
                    ctx = mark("ancestor-in-index" if anc else "no-ancestor-in-index", n)
                    cand = (3, "glue-flag-extra", ctx)
            elif diff & F_ORIGIN:
                cand = (4, "origin-flag-missing" if want & F_ORIGIN else "origin-flag-extra", "")
            else:
                cand = (5, "unknown-flag-bits", "")
            cand = cand + (f"{n}: flags {got} expected {want}",)
            if best is None or cand[0] < best[0]:
                best = cand
        index_wrong = any(f[0] == CL_INDEX for f in fails[n0:])
        if best is not None and not index_wrong:
            # (the implementation derives flags from its index: with a wrong index the flag
            # differences of the same version are consequences, not separate findings)
            fails.append((CL_FLAGS, best[1], best[2], f"{best[3]}; cuts={sorted(o.cuts)} index={sorted(idx)}"))
        ok = len(fails) == n0
        if ok:
            self.prev_oracle = o
        else:
            self.fatal = True
        return ok

    def queries(self, o):
        qs = self.qpool if self.qpool is not None else QPOOL
        extra = []
        for n in o.names:
            extra.append(n)
            for x in ("a", "d", "g"):
                extra.append((x,) + n)
        return list(qs) + extra

    def _check_bounds(self, v, items, index):
        o = self.oracle
        key = (self.rel, tuple((n, o.flags[n]) for n in o.names))
        self.fresh_state = key not in self.memo
        if not self.fresh_state:
            return
        self.memo.add(key)
        if () not in o.flags:
            return  # no apex node: bounds has no left neighbour to offer; not evaluated
        fails = self.fails
        rel = self.rel
        seen_cats = set()
        for q in self.queries(o):
            self.bounds_evaluated += 1
            qname = mkname(q, rel)
            eleft, eright, ce_nonocc, ce_all, cut = o.bounds(q)
            # the index lookup itself
            try:
                gcut, gsub = v.delegations.get_delegation(qname)
            except Exception as e:
                where = lib_frame(e)
                if where is None:
                    raise
                gcut, gsub = ("exception", repr(e))
            want = (cut, cut is not None and cut != q)
            got = (to_rel(gcut) if isinstance(gcut, dns.name.Name) else gcut, gsub)
            if got != want and "deleg" not in seen_cats:
                seen_cats.add("deleg")
                fails.append((CL_DELEG, "get-delegation", "", f"get_delegation({q}) -> {got} expected {want}; cuts={sorted(o.cuts)}"))
            try:
                b = v.bounds(qname)
            except Exception as e:
                where = lib_frame(e)
                if where is None:
                    raise
                cat = f"exception:{type(e).__name__}"
                if cat not in seen_cats:
                    seen_cats.add(cat)
                    fails.append((CL_BOUNDS, cat, where, f"bounds({q}) raised {e!r} in {where}; names={o.names}"))
                continue
            gleft = to_rel(b.left)
            gright = to_rel(b.right) if b.right is not None else None
            gce = to_rel(b.closest_encloser)
            ctx_rel = "relativized" if rel else "absolute"
            desc = f"bounds({q}) in {ctx_rel} zone names={o.names} cuts={sorted(o.cuts)}"
            left_ok = gleft == eleft
            if not left_ok:
                if o.flags.get(gleft, 0) & F_GLUE and cut is None:
                    cat, ctx = "left-is-occluded-name", ""
                else:
                    cat, ctx = "left-wrong", ("below-cut" if cut is not None else "outside-cut")
                if cat not in seen_cats:
                    seen_cats.add(cat)
                    fails.append((CL_BOUNDS, cat, ctx, f"{desc}: left {gleft} expected {eleft}"))
            if gright != eright:
                if gright is not None and o.flags.get(gright, 0) & F_GLUE:
                    cat, ctx = "right-is-occluded-name", ""
                else:
                    cat, ctx = "right-wrong", ("below-cut" if cut is not None else "outside-cut")
                if cat not in seen_cats:
                    seen_cats.add(cat)
                    fails.append((CL_BOUNDS, cat, ctx, f"{desc}: right {gright} expected {eright}"))
            if left_ok:
                # below a cut both readings of "closest encloser" are accepted
                okce = gce == ce_nonocc or (cut is not None and gce == ce_all)
                if not okce:
                    if rel and ce_nonocc == () and gce == q and q != ():
                        cat, ctx = "closest-encloser-is-query-name-instead-of-apex", "relativized"
                    else:
                        cat, ctx = "closest-encloser-wrong", ctx_rel
                    if cat not in seen_cats:
                        seen_cats.add(cat)
                        fails.append((CL_BOUNDS, cat, ctx, f"{desc}: closest encloser {gce} expected {ce_nonocc}"))
            if bool(b.is_delegation) != (cut is not None):
                cat = "is-delegation-wrong"
                if cat not in seen_cats:
                    seen_cats.add(cat)
                    fails.append((CL_BOUNDS, cat, "", f"{desc}: is_delegation {b.is_delegation} expected {cut is not None}"))
            if bool(b.is_equal) != (gleft == q):
                cat = "is-equal-inconsistent"
                if cat not in seen_cats:
                    seen_cats.add(cat)
                    fails.append((CL_BOUNDS, cat, "", f"{desc}: is_equal {b.is_equal} but left {gleft}"))
            if to_rel(b.name) != q:
                cat = "name-field"
                if cat not in seen_cats:
                    seen_cats.add(cat)
                    fails.append((CL_BOUNDS, cat, "", f"{desc}: name field {b.name}"))


def lib_frame(e):
    """Innermost frame of the exception inside the dns package, or None (harness bug)."""
    tb = traceback.extract_tb(e.__traceback__)
    for fr in reversed(tb):
        f = fr.filename.replace("\\", "/")
        if "/dns/" in f and "/bounded/" not in f.rsplit("/dns/", 1)[1]:
            return f"{f.rsplit('/dns/', 1)[1]}:{fr.name}"
    return None


def _qpool():
    out = [()]
    for k in (1, 2, 3):
        for labs in itertools.product(QL, repeat=k):
            out.append(tuple(labs))
    return out


QPOOL = _qpool()


# --------------------------------------------------------------------------- running a script
def run_history(script, memo=None, qpool=None, on_commit=None, skip=0):
    """script: {"rel": bool, "txns": [...]}.  The versions committed by the first ``skip``
    transactions are not compared again (the caller has already verified that very
    prefix).  Returns the Hist."""
    h = Hist(bool(script["rel"]), memo=memo, qpool=qpool)
    txns = script["txns"]
    h.failed_at = None
    for i, t in enumerate(txns):
        h.failed_at = i
        h.run_txn(t)
        if h.fatal:
            break
        if h.zone is None:
            continue
        if i < skip:
            if i == skip - 1:
                # the context classification needs the previous version's oracle
                h.prev_oracle = Oracle({n: set(ts) for n, ts in h.content.items()})
            continue
        h.check()
        if on_commit is not None:
            on_commit(h, i)
        if h.fatal:
            break
    return h


def report(R, h, script):
    if h.failed_at is not None and h.fatal:
        # replay only up to the transaction whose version is wrong
        script = {"rel": script["rel"], "txns": script["txns"][: h.failed_at + 1]}
    for clause, check, ctx, detail in h.fails:
        sig = {"site": "dns.btreezone", "check": check}
        if ctx:
            sig["context"] = ctx
        R.violation(clause, f"{check}{' (' + ctx + ')' if ctx else ''}: {detail}"[:600], sig=sig, replay={"script": script, "clause": clause, "check": check, "context": ctx})


def replay(data):
    if data.get("origin_ways"):
        return replay_origin_ways(data)
    script = data["script"]
    h = run_history(script, memo=set(), qpool=None)
    if not h.fails:
        return False, f"history of {len(script['txns'])} transactions: derived state and bounds match the oracle"
    want = (data.get("clause"), data.get("check"))
    same = [f for f in h.fails if (f[0], f[1]) == want]
    exact = [f for f in same if f[2] == data.get("context", "")]
    if exact or same:
        f = (exact or same)[0]
        return True, f"{f[0]} {f[1]} {f[2]}: {f[3]}"[:500]
    if want == (None, None):
        f = h.fails[0]
        return True, f"{f[0]} {f[1]} {f[2]}: {f[3]}"[:500]
    others = sorted({f"{f[1]}" for f in h.fails})
    return False, f"the recorded check {want[1]!r} no longer fails on this history (other checks that fail: {others})"


def count_cases(R, h, tag, key, bounds_done=True):
    nt = h.ncommits > 0
    R.case(CL_FLAGS, (tag, key), nt)
    R.case(CL_INDEX, (tag, key), nt)
    R.case(CL_ORDER, (tag, key), nt)
    R.case(CL_CONTENT, (tag, key), nt)


# --------------------------------------------------------------------------- L: load orders
SOA = ["put", "", "SOA", 1]

RECORD_SETS = {
    # nested cuts, TXT at a cut, glue, apex NS, a sibling
    "nested": [
        ["add", "b", "NS", 1],
        ["add", "d.b", "NS", 1],
        ["add", "f.d.b", "A", 1],
        ["add", "b", "TXT", 1],
        ["add", "", "NS", 1],
        ["add", "f.b", "A", 1],
    ],
    # three levels of NS owners, glue at every level, the middle one also holds an A
    "three-deep": [
        ["add", "d", "NS", 1],
        ["add", "b.d", "NS", 1],
        ["add", "f.b.d", "NS", 1],
        ["add", "f.b.d", "A", 1],
        ["add", "b.d", "A", 1],
        ["add", "b", "A", 1],
    ],
    # cuts under an empty non-terminal, two rdatas in one NS rrset, a sibling cut
    "ent": [
        ["add", "d.b", "NS", 1],
        ["add", "d.b", "NS", 2],
        ["add", "f.d.b", "A", 1],
        ["add", "f.b", "NS", 1],
        ["add", "b.f.b", "TXT", 1],
        ["add", "f", "A", 1],
    ],
}


def section_load_orders(R, plan, memo):
    """plan: list of (record-set name, number of records, mode, rel)."""
    for sname, nrec, mode, rel in plan:
        recs = RECORD_SETS[sname][:nrec]
        verified = set()  # txn-each: permutation prefixes whose versions were all right
        failed = set()  # txn-each: permutation prefixes that already produced a violation
        nperm = 0
        for perm in itertools.permutations(range(len(recs))):
            if (nperm & 31) == 0 and R.deadline():
                R.note(f"L:{sname}:{mode}: deadline after {nperm} orders")
                return
            nperm += 1
            ordered = [recs[i] for i in perm]
            skip = 0
            if mode == "text":
                txns = [{"mode": "text", "ops": [SOA] + ordered}]
            elif mode == "one-txn":
                txns = [{"repl": True, "ops": [SOA] + ordered}]
            else:
                txns = [{"repl": True, "ops": [SOA]}] + [{"ops": [r]} for r in ordered]
                if any(perm[:k] in failed for k in range(1, len(perm) + 1)):
                    continue  # same failing prefix as an order already reported
                for k in range(len(perm), 0, -1):
                    if perm[:k] in verified:
                        skip = k + 1
                        break
            script = {"rel": rel, "txns": txns}
            try:
                h = run_history(script, memo=memo, skip=skip)
            except Exception:
                R.note(f"harness error in L {sname} {mode} {perm}: {traceback.format_exc(limit=4)}")
                return
            key = (sname, nrec, rel, mode, perm)
            count_cases(R, h, "L", key)
            if h.fresh_state:
                R.case(CL_BOUNDS, ("L", key), True)
                R.case(CL_DELEG, ("L", key), True)
            if mode == "txn-each":
                good = h.failed_at - 1 if h.fatal else len(perm)
                for k in range(1, good + 1):
                    verified.add(perm[:k])
                if h.fatal and h.failed_at >= 1:
                    failed.add(perm[: h.failed_at])
            if h.fails:
                report(R, h, script)
            elif nperm == 1:
                R.sample(CL_FLAGS, {"section": "L", "set": sname, "mode": mode, "rel": rel, "order": list(perm)})


# --------------------------------------------------------------------------- T: toggle closure
SLOTS_A = [
    (("b",), "NS"),
    (("b",), "TXT"),
    (("d", "b"), "NS"),
    (("d", "b"), "A"),
    (("f", "d", "b"), "A"),
    ((), "NS"),
    (("f", "b"), "A"),
    (("d",), "A"),
]
SLOTS_B = [
    (("d", "b"), "NS"),
    (("f", "d", "b"), "NS"),
    (("b", "f", "d", "b"), "A"),
    (("b",), "A"),
    (("f", "b"), "NS"),
    (("d", "f", "b"), "A"),
    (("f",), "TXT"),
    (("d", "b"), "TXT"),
]


def section_toggle_closure(R, tag, slots, rel, memo, pairs=True, delete_names=True):
    """All derived states reachable from the apex-only zone by transactions that toggle one
    slot, or two slots in one transaction; histories are replayed from scratch."""
    base = [{"repl": True, "ops": [SOA]}]

    def toggle_op(content, slot, how=0):
        n, t = slot
        if n in content and t in content[n]:
            if how == 1 and delete_names and n != ():
                return ["deln", sp(n)]
            return ["delt", sp(n), t]
        return ["put", sp(n), t, 1] if how == 0 else ["add", sp(n), t, 2]

    def state_key(h):
        o = h.oracle
        return (tuple((n, tuple(sorted(h.content[n]))) for n in o.names),)

    start = run_history({"rel": rel, "txns": base}, memo=memo)
    start.oracle  # (set by the check)
    if h_failed(R, start, {"rel": rel, "txns": base}):
        return
    seen = {state_key(start)}
    queue = [(base, dict((n, dict(ts)) for n, ts in start.content.items()))]
    i = 0
    napps = 0
    while i < len(queue):
        txns, content = queue[i]
        i += 1
        if R.deadline():
            R.note(f"{tag}: deadline after {i} of {len(queue)} states")
            break
        cands = []
        for s in slots:
            cands.append([toggle_op(content, s, 0)])
            alt = toggle_op(content, s, 1)
            if alt != cands[-1][0]:
                cands.append([alt])
        if pairs:
            for s1, s2 in itertools.permutations(slots, 2):
                cands.append([toggle_op(content, s1, 0), toggle_op(content, s2, 0)])
        for ops in cands:
            script = {"rel": rel, "txns": txns + [{"ops": ops}]}
            try:
                h = run_history(script, memo=memo, skip=len(txns))
            except Exception:
                R.note(f"harness error in {tag}: {traceback.format_exc(limit=4)}")
                return
            napps += 1
            key = (tag, rel, tuple(map(str, txns[1:])), str(ops))
            count_cases(R, h, tag, key)
            if h.fresh_state:
                R.case(CL_BOUNDS, (tag, key), True)
                R.case(CL_DELEG, (tag, key), True)
            if h.fails:
                report(R, h, script)
            if h.fatal:
                continue
            k = state_key(h)
            if k not in seen:
                seen.add(k)
                queue.append((script["txns"], dict((n, dict(ts)) for n, ts in h.content.items())))
    R.note(f"{tag}: rel={rel} {len(queue)} states, {napps} histories")


def h_failed(R, h, script):
    if h.fails:
        report(R, h, script)
    return h.fatal


# --------------------------------------------------------------------------- S: seeded histories
def name_pool(rng):
    """A per-history pool of owners that collide often: two or three subtrees."""
    pool = [()]
    tops = rng.sample(ZL, rng.choice((1, 2, 2, 3)))
    for t in tops:
        pool.append((t,))
        for l2 in ZL:
            if rng.random() < 0.6:
                pool.append((l2, t))
                for l3 in ZL:
                    if rng.random() < 0.35:
                        pool.append((l3, l2, t))
                        if rng.random() < 0.3:
                            pool.append((rng.choice(ZL), l3, l2, t))
    rng.shuffle(pool)
    pool = pool[:14]
    if () not in pool:
        pool.append(())
    return pool


def gen_script(rng, family, ntx_range=(3, 26)):
    """One seeded history: an initial load (by text or by a replacement transaction) and
    ``ntx_range`` further transactions from the operation generator of ``family``."""
    rel = rng.random() < 0.5
    pool = name_pool(rng)
    content = {}  # model used by the generator only (name -> type -> set)

    def spell(n):
        # mixed case spelling of some labels
        if rng.random() < 0.15 and n:
            n = tuple(l.upper() if rng.random() < 0.5 else l for l in n)
        return sp(n)

    def ns_owners():
        return {n for n, ts in content.items() if n != () and "NS" in ts}

    def allowed(op):
        kind, n, t = op[0], norm(nm(op[1])), (op[2] if len(op) > 2 else None)
        if family == "free":
            return True
        owners = ns_owners()
        if kind in ("put", "add") and t == "NS" and n != ():
            for m in owners:
                if m != n and (n[-len(m):] == m or m[-len(n):] == n):
                    return False
        if family == "careful":
            o = Oracle({k: set(v) for k, v in committed.items()})
            if n in o.cuts and not (t == "NS" and kind in ("put", "add", "delt", "delr")) and kind != "deln":
                return False
        return True

    def gen_op():
        for _ in range(20):
            r = rng.random()
            n = rng.choice(pool)
            t = rng.choice(("NS", "NS", "A", "TXT")) if n != () else rng.choice(("NS", "A", "TXT"))
            v = rng.randrange(1, 4)
            absform = 1 if rng.random() < 0.4 else 0
            if r < 0.35:
                op = ["put", spell(n), t, v, absform]
            elif r < 0.55:
                op = ["add", spell(n), t, v, absform]
            else:
                present = [m for m in content if m != ()]
                if not present:
                    continue
                n = rng.choice(present)
                ts = list(content[n])
                t = rng.choice(ts)
                if r < 0.75:
                    op = ["delt", spell(n), t, 0, absform]
                elif r < 0.88:
                    op = ["deln", spell(n), "", 0, absform]
                else:
                    op = ["delr", spell(n), t, rng.choice(sorted(content[n][t])), absform]
            if allowed(op):
                return op
        return None

    committed = {}
    txns = []
    # initial load: random records in random order, by text or by transaction
    nload = rng.randrange(0, 9)
    ops = [SOA]
    content[()] = {"SOA": {1}}
    for _ in range(nload):
        n = rng.choice(pool)
        t = rng.choice(("NS", "A", "TXT"))
        op = ["add", sp(n), t, rng.randrange(1, 3)]
        if allowed(op):
            model_apply(content, op)
            ops.append(op)
    first = ops[:1] + rng.sample(ops[1:], len(ops) - 1)
    if rng.random() < 0.5:
        txns.append({"mode": "text", "ops": first})
    else:
        txns.append({"repl": True, "ops": first})
    committed = {n: {t: set(vs) for t, vs in ts.items()} for n, ts in content.items()}
    ntx = rng.randrange(*ntx_range)
    for _ in range(ntx):
        r = rng.random()
        repl = r < 0.04
        commit = rng.random() >= 0.08
        if repl:
            content = {}
            tops = [SOA]
            model_apply(content, SOA)
            for _ in range(rng.randrange(1, 7)):
                op = gen_op()
                if op is not None and op[0] in ("put", "add"):
                    model_apply(content, op)
                    tops.append(op)
        else:
            tops = []
            for _ in range(rng.choice((1, 1, 1, 2, 2, 3, 4))):
                op = gen_op()
                if op is not None:
                    model_apply(content, op)
                    tops.append(op)
        if not tops:
            continue
        txns.append({"repl": repl, "commit": commit, "ops": tops})
        if commit:
            committed = {n: {t: set(vs) for t, vs in ts.items()} for n, ts in content.items()}
        else:
            content = {n: {t: set(vs) for t, vs in ts.items()} for n, ts in committed.items()}
    return {"rel": rel, "txns": txns}


def seeded_history(R, family, idx, memo, qpool):
    script = gen_script(R.rng, family)
    rel, txns = script["rel"], script["txns"]
    counter = {"n": 0}

    def on_commit(h, i):
        counter["n"] += 1
        key = (family, idx, i)
        count_cases(R, h, "S", key)
        if h.fresh_state:
            R.case(CL_BOUNDS, ("S", key), True)
            R.case(CL_DELEG, ("S", key), True)

    h = run_history(script, memo=memo, qpool=qpool, on_commit=on_commit)
    if h.fails:
        # cut the script after the failing transaction for a shorter replay
        report(R, h, script)
    elif idx == 0:
        R.sample(CL_BOUNDS, {"section": "S", "family": family, "rel": rel, "transactions": len(txns), "first": txns[:2]})
    return counter["n"]


# --------------------------------------------------------------------------- O: ways of supplying the origin
# no nested NS owners here: the derived state of every order is well defined, so the
# follow-up transactions always run on a state built by the load
ORIGIN_SET = [
    ["put", "", "SOA", 1],
    ["add", "", "NS", 1],
    ["add", "b", "NS", 1],
    ["add", "f.b", "A", 1],
    ["add", "d", "A", 1],
    ["add", "b.d", "TXT", 1],
]
# d becomes a cut (b.d turns into glue); then the cut b goes away (f.b stops being glue),
# the apex NS rrset is rewritten through the absolute spelling and a name is added
ORIGIN_FOLLOW = [
    {"ops": [["add", "d", "NS", 1, 1], ["add", "", "TXT", 1, 0]]},
    {"ops": [["delt", "b", "NS", 0, 0], ["put", "", "NS", 2, 1], ["put", "f", "A", 2, 1]]},
]


def state_fp(zone):
    """What a committed version shows, for the agreement between the ways of loading."""
    with zone.reader() as txn:
        v = txn.version
        nodes = []
        for key, node in v.nodes.items():
            rdss = sorted(
                (dns.rdatatype.to_text(rds.rdtype), int(rds.ttl), tuple(sorted(rd.to_text() for rd in rds))) for rds in node.rdatasets
            )
            nodes.append((key.to_text(), int(node.flags), tuple(rdss)))
        index = tuple(n.to_text() for n in v.delegations)
    return (str(zone.origin), bool(zone.relativize), tuple(nodes), index)


def run_origin_ways(first, follow, rel, memos, qpool):
    """The same load (records, record order, owner spelling) with the origin supplied in
    each of ORIGIN_WAYS, continued by the same transactions.  Returns
    [(way, script, Hist, [fingerprint per checked version])]."""
    out = []
    for way in ORIGIN_WAYS:
        script = {"rel": rel, "txns": [dict(first, mode="text", origin=way)] + follow}
        fps = []

        def on_commit(h, i, fps=fps):
            if not h.fatal:
                fps.append(state_fp(h.zone))

        h = run_history(script, memo=memos[way], qpool=qpool, on_commit=on_commit)
        if not h.fatal and h.zone is not None and h.zone.origin != ORIGIN:
            h.fails.append((CL_CONTENT, "zone-origin", "", f"zone.origin is {h.zone.origin!r} after the load"))
        out.append((way, script, h, fps))
    return out


def judge_origin_ways(runs):
    """Failures that belong to the way the origin was supplied: [(way, script, check, ctx,
    detail, underlying clause)].  A failure that the load with origin= shows as well is an
    ordinary failure of its own clause (reported from that run), not one of this clause."""
    base = {(f[0], f[1], f[2]) for f in runs[0][2].fails}
    found = []
    for way, script, h, fps in runs[1:]:
        for clause, check, ctx, detail in h.fails:
            if (clause, check, ctx) not in base:
                cut = script
                if h.fatal and h.failed_at is not None:
                    cut = {"rel": script["rel"], "txns": script["txns"][: h.failed_at + 1]}
                found.append((way, cut, check, ctx, detail, clause))
    if not any(r[2].fails for r in runs):
        fa = runs[0][3]
        for way, script, h, fps in runs[1:]:
            if fps != fa:
                k = next((i for i, (x, y) in enumerate(zip(fa, fps)) if x != y), min(len(fa), len(fps)))
                x = fa[k] if k < len(fa) else None
                y = fps[k] if k < len(fps) else None
                what = "zone.origin" if x and y and x[0] != y[0] else "nodes/flags/index"
                found.append((way, script, "origin-ways-disagree", what, f"version {k}: with origin= {x} / with {WAY_TEXT[way]} {y}"[:400], CL_LOAD))
    return found


def report_origin_ways(R, runs):
    way0, script0, h0, _ = runs[0]
    if h0.fails:
        report(R, h0, script0)
    rel = runs[0][1]["rel"]
    for way, script, check, ctx, detail, clause in judge_origin_ways(runs):
        sig = {"site": "dns.btreezone", "check": check, "origin": WAY_TEXT[way], "relativize": "on" if rel else "off"}
        if ctx:
            sig["context"] = ctx
        R.violation(
            CL_LOAD,
            f"zone loaded with {WAY_TEXT[way]}, relativize={rel}: {check}{' (' + ctx + ')' if ctx else ''}, not so with origin=: {detail}"[:600],
            sig=sig,
            replay={"script": script, "clause": clause, "check": check, "context": ctx, "origin_ways": True},
        )


def count_origin_ways(R, runs, key):
    for way, script, h, fps in runs:
        k = (key, way)
        R.case(CL_LOAD, ("O", k), h.ncommits > 0)
        for i in range(len(fps)):
            count_cases(R, h, "O", (k, i))
        if h.bounds_evaluated:
            R.case(CL_BOUNDS, ("O", k), True)
            R.case(CL_DELEG, ("O", k), True)


def section_origin_ways(R, rng, norders, ncontents, norders_seeded, nq):
    """Initial load: ways of supplying the origin."""
    memos = {way: set() for way in ORIGIN_WAYS}
    styles = ("abs", "rel", "mixed")
    # fixed record set, SOA included in the permutation
    perms = list(itertools.permutations(range(len(ORIGIN_SET))))
    step = max(1, len(perms) // norders)
    nrun = 0
    for pi in range(0, len(perms), step):
        if R.deadline():
            R.note(f"O: deadline after {nrun} fixed-set loads")
            return
        perm = perms[pi]
        first = {"ops": [ORIGIN_SET[i] for i in perm], "owners": styles[(pi // step) % 3]}
        qpool = rng.sample(QPOOL, nq) if nq < len(QPOOL) else None
        for rel in (True, False):
            runs = run_origin_ways(first, ORIGIN_FOLLOW, rel, memos, qpool)
            nrun += len(runs)
            count_origin_ways(R, runs, ("fixed", perm, rel))
            report_origin_ways(R, runs)
            if pi == 0 and rel and not any(r[2].fails for r in runs):
                R.sample(CL_LOAD, {"section": "O", "text": zone_text(first["ops"], "directive", first["owners"]), "follow": ORIGIN_FOLLOW})
    # generated contents, continued by transactions of the operation generator
    for c in range(ncontents):
        if R.deadline():
            R.note(f"O: deadline after {c} generated contents")
            break
        family = ("no-nested", "careful", "free")[c % 3]
        script = gen_script(rng, family, ntx_range=(2, 4))
        load_ops = script["txns"][0]["ops"]
        follow = script["txns"][1:]
        qpool = rng.sample(QPOOL, nq) if nq < len(QPOOL) else None
        for o in range(norders_seeded):
            ops = list(load_ops) if o == 0 else (list(reversed(load_ops)) if o == 1 else rng.sample(load_ops, len(load_ops)))
            first = {"ops": ops, "owners": styles[(c + o) % 3]}
            for rel in (True, False):
                runs = run_origin_ways(first, follow, rel, memos, qpool)
                nrun += len(runs)
                count_origin_ways(R, runs, ("gen", c, o, rel))
                report_origin_ways(R, runs)
    R.note(f"O: {nrun} zones loaded (3 ways of supplying the origin x relativize on/off)")


def replay_origin_ways(data):
    script = data["script"]
    first = dict(script["txns"][0])
    first.pop("origin", None)
    first.pop("mode", None)
    way = script["txns"][0].get("origin", "arg")
    runs = run_origin_ways(first, script["txns"][1:], bool(script["rel"]), {w: set() for w in ORIGIN_WAYS}, None)
    found = [f for f in judge_origin_ways(runs) if f[0] == way] or judge_origin_ways(runs)
    same = [f for f in found if f[2] == data.get("check")]
    if same or found:
        f = (same or found)[0]
        return True, f"loaded with {WAY_TEXT[f[0]]}: {f[2]} {f[3]}: {f[4]}"[:500]
    return False, "the zone loaded with origin=, with $ORIGIN only and with both has the same, correct derived state"


# --------------------------------------------------------------------------- driver
def run(R):
    quick = R.quick
    memo = set()

    def sect(fn, *a, **k):
        if R.deadline():
            return
        try:
            fn(R, *a, **k)
        except Exception:
            R.note(f"harness error in {fn.__name__}: {traceback.format_exc(limit=5)}")

    if quick:
        sect(
            section_load_orders,
            [
                ("nested", 6, "text", True),
                ("nested", 6, "one-txn", False),
                ("nested", 6, "txn-each", True),
                ("nested", 6, "txn-each", False),
                ("three-deep", 5, "one-txn", True),
                ("three-deep", 5, "txn-each", False),
                ("ent", 5, "text", False),
                ("ent", 5, "txn-each", True),
            ],
            memo,
        )
        sect(section_toggle_closure, "T:A6", SLOTS_A[:6], True, memo)
        sect(section_toggle_closure, "T:A7", SLOTS_A[:7], False, memo, pairs=False)
    else:
        plan = []
        for sname in ("nested", "three-deep", "ent"):
            for mode in ("text", "one-txn", "txn-each"):
                for rel in (True, False):
                    plan.append((sname, 6, mode, rel))
        sect(section_load_orders, plan, memo)
        for rel in (True, False):
            sect(section_toggle_closure, "T:A8", SLOTS_A, rel, memo)
            sect(section_toggle_closure, "T:B8", SLOTS_B, rel, memo)

    # ways of supplying the origin to the initial load.  Its generator is seeded from the run's
    # seed but separate from R.rng, so that the histories of section S are the same with and
    # without this section (in the thorough tier S stops on a time limit).
    # Quick: before S, so that a slow machine cannot squeeze it out; thorough: after S, in the
    # time between S's soft limit and the deadline.
    orng = random.Random(f"C20.O/{R.seed}")
    if quick:
        sect(section_origin_ways, orng, 24, 18, 2, 60)

    # seeded
    rng = R.rng
    qsample = None
    total = 0
    rounds = 50 if quick else 10 ** 7
    soft = 470.0
    for rnd in range(rounds):
        if R.deadline() or (not quick and R.elapsed() > soft):
            break
        for family in ("free", "no-nested", "careful"):
            if quick:
                qsample = rng.sample(QPOOL, 100)
            try:
                total += seeded_history(R, family, rnd, memo, qsample)
            except Exception:
                R.note(f"harness error in seeded_history {family}: {traceback.format_exc(limit=5)}")
                return
    R.note(f"S: {total} committed versions checked in seeded histories")
    if not quick:
        sect(section_origin_ways, orng, 360, 100, 3, len(QPOOL))
