"""Bounded stand-in for C05 — every record type's master-file text parses back to an equal
record; producing text never fails for an accepted record; a record accepted from text can
always be encoded.

Runs the real to_text / from_text / tokenizer of whatever ``dns`` is first on PYTHONPATH on the
C02 value model (bounded/_c02_model.py, bounded/_c02_types.py), under every lossless text
style and origin / relativize choice, plus an independent RFC 1035 spelling of each value.
"""

from __future__ import annotations

import base64
import binascii
import ipaddress

import dns.exception
import dns.ipv4
import dns.ipv6
import dns.name
import dns.rdata
import dns.rdataclass
import dns.rdatatype
import dns.tokenizer

import bounded._c02_model as M
from bounded._c02_model import ORIGINS, NoRefText, mkname, relativize_labels
from bounded._c02_types import build_specs
from bounded.C02 import Fail, _fw, _impl_name, _site, crafted_inputs, decode_inputs, seed_mutations

BOUNDS = (
    "Types: the 69 implementation modules of the C02 model (OPT has no text parser: text totality only).  Values: "
    "the C02 one-factor boundary enumeration from a nominal record.  Thorough: all 256 single octets in every "
    "character-string / quoted / TXT / opaque position and name label, all 256 values of 8-bit fields.  Quick: all "
    "256 single octets in every character-string, quoted and TXT position of the first type of each pair of text "
    "methods (types inheriting both from_text and to_styled_text from an earlier type use 34 representatives), all "
    "256 single-octet labels in the first name field of 11 designated types and in gateway / server-list names "
    "(other name fields 34), 34 / 50 representatives for opaque hex/base64 fields and 8-bit integers.  Then all "
    "field pairs over 4 extreme values and seeded random records (quick 10, thorough 600 per type).  Values whose "
    "RFC gives them no text form are printed but not required to re-parse: an opaque key / digest / signature / "
    "certificate of length 0, type bitmaps with trailing zero octets or bit 0, WKS bitmaps with trailing zero "
    "octets, APL families other than 1 and 2.  Each value is rendered with the lossless styles {default, chunk "
    "sizes 0/1/3/1000 for hex and base64, TAB separators, txt_is_utf8} (quick: all 7 styles on the nominal and "
    "length-boundary values of opaque/TXT fields, default + one rotating style elsewhere; truncate_crypto, "
    "omit_final_dot and idna_codec discard or reinterpret information and are excluded), re-parsed and compared with "
    "the library's == (every 16th also != and canonical digest), and parsed from an independent RFC 1035 spelling "
    "(everything outside [A-Za-z0-9_-] written \\DDD, upper-case hex, odd chunking, TYPEnnn, decimal sig times).  "
    "Name-bearing types: origins example., Sub.Example.COM. and root x {relativize on/off at emit} x {relativize "
    "on/off at parse} x relativize_to, for absolute and for relative records (quick: 3 origins on the 18 extreme "
    "names and the nominal record, 1 origin on a sixth of the octet sweep and every 32nd other value).  RFC 3597 "
    "generic form of known types (quick: every 4th value) and of quick 65 / thorough 2005 payloads for unknown "
    "types.  Text totality on records accepted from wire: the C02 structured decode inputs (quick: a third) plus "
    "quick 60 / thorough 1000 random strings per type.  Text-accepted-encodes: each integer token replaced by "
    "max+1, 2^bits, 10^20, signed, hex and zero-padded spellings, over-long strings and labels, LOC "
    "altitude/size/coordinate limits, TTL unit syntax, RRSIG date limits, and ~250 per-type edge texts.  Codec "
    "units: _escapify + tokenizer + unescape_to_bytes on all 65 536 octet pairs (quick: all singles, 8 192 seeded "
    "pairs), _escapify_unicode on ~2 000 code points, hex/base64 chunking for lengths 0..70 x 9 chunk sizes x 2 "
    "separators, IPv4 every octet position x 256 and IPv6 all 256 zero-run layouts x 3 fillings + 2 000 / 200 000 "
    "seeded against the `ipaddress` module, all 65 536 type mnemonics (quick: 0..1099, every 13th, the private-use "
    "edge).  The quick tier runs in two passes (boundaries, probes and wire-accepted records of every type first; "
    "pairs and seeded inputs second) so that a loaded machine shortens only the seeded part.  The `cryptography` "
    "package is absent; nothing in this property needs a private key."
)


# --------------------------------------------------------------------------- styles

Style = dns.rdata.RdataStyle


def lossless_styles():
    return [
        ("default", Style()),
        ("chunk0", Style(base64_chunk_size=0, hex_chunk_size=0)),
        ("chunk1", Style(base64_chunk_size=1, hex_chunk_size=1)),
        ("chunk3", Style(base64_chunk_size=3, hex_chunk_size=3)),
        ("chunk1000", Style(base64_chunk_size=1000, hex_chunk_size=1000)),
        ("tab", Style(base64_chunk_separator="\t", hex_chunk_separator="\t", base64_chunk_size=8, hex_chunk_size=8)),
        ("utf8", Style(txt_is_utf8=True)),
    ]


def style_from_name(n):
    return dict(lossless_styles())[n]


# --------------------------------------------------------------------------- helpers


def _ft(rdclass, rdtype, text, origin=None, relativize=True, relativize_to=None):
    return dns.rdata.from_text(
        dns.rdataclass.RdataClass.make(rdclass), dns.rdatatype.RdataType.make(rdtype), text, origin=origin, relativize=relativize, relativize_to=relativize_to
    )


def _digest(rd):
    return rd.to_digestable(dns.name.root)


_eq_calls = [0]


def _equal(a, b):
    """the library's own record equality (the property's notion of "equal record"); every 16th
    comparison also cross-checks != and the canonical digest so that a broken __eq__ shows"""
    try:
        if type(a) is not type(b) or not (a == b):
            return False
        _eq_calls[0] += 1
        if _eq_calls[0] % 16 == 0:
            return not (a != b) and _digest(a) == _digest(b)
        return True
    except Exception:
        return False


def _text_impl(rd_or_cls, meth):
    cls = rd_or_cls if isinstance(rd_or_cls, type) else type(rd_or_cls)
    for c in cls.__mro__:
        if meth in c.__dict__:
            return c.__module__.replace("dns.rdtypes.", "").replace("dns.", "") + "." + c.__name__
    return cls.__name__


def expected_abs(spec, vals, origin):
    """names that lie under origin get the origin's own spelling of the suffix"""
    out = {}
    for f in spec.fields:
        v = vals[f.attr]
        if f.has_name():
            r = f.relativized(v, origin)
            v = _derel(f, r, origin)
        out[f.attr] = v
    return out


def _derel(f, v, origin):
    def one(n):
        n = [bytes(x) for x in n]
        return n if M.is_abs(n) else n + [bytes(x) for x in origin]

    if f.kind == "name":
        return one(v)
    if f.kind == "namelist":
        return [one(n) for n in v]
    if f.kind == "gateway":
        return [v[0], one(v[1])] if v[0] == 3 else v
    return v


def _name_fits(spec, vals):
    """every name of the record is still <= 255 octets"""
    try:
        spec.ref_wire(vals)
        return True
    except Exception:
        return False


# --------------------------------------------------------------------------- value clauses


def check_text_value(spec, vals, rdclass, style_names, origins, alt=True, generic=True):
    """returns (status, [Fail])"""
    fails = []
    try:
        rd = spec.build(vals, rdclass)
    except Exception:
        return "refused", fails
    rdtype = rd.rdtype
    eimpl = _text_impl(rd, "to_styled_text")
    pimpl = _text_impl(rd, "from_text")
    wf = spec.well_formed_for_text(vals) and spec.parses_text
    seen = set()

    def add(fl):
        k = (fl.clause, fl.sig.get("kind"))
        if k not in seen:
            seen.add(k)
            fails.append(fl)

    own_ok = True
    for sn in style_names:
        st = style_from_name(sn)
        try:
            t = rd.to_text(style=st)
        except Exception as e:
            add(Fail("C05.to_text_total", "to_text(%s) raised %s: %s" % (sn, type(e).__name__, e), impl=eimpl, kind="to_text-raises", exc=type(e).__name__, site=_site(e)))
            own_ok = False
            continue
        if not wf:
            continue
        try:
            rd2 = _ft(rdclass, rdtype, t)
        except Exception as e:
            own_ok = False
            add(Fail("C05.text_roundtrip", "own text %r rejected: %s: %s" % (t[:80], type(e).__name__, e), impl=pimpl, kind="own-text-rejected", exc=type(e).__name__, site=_site(e), style=_sk(sn)))
            continue
        if not _equal(rd2, rd):
            own_ok = False
            add(Fail("C05.text_roundtrip", "text %r parses to a different record" % t[:80], impl=pimpl, kind="reparsed-not-equal", style=_sk(sn)))
        try:
            rd2.to_wire()
        except Exception as e:
            add(Fail("C05.text_accepted_encodes", "record accepted from text %r cannot be encoded: %s" % (t[:80], type(e).__name__), impl=pimpl, kind="accepted-not-encodable", exc=type(e).__name__, site=_site(e)))
    if wf and alt and own_ok:
        try:
            t = spec.ref_text(vals)
        except NoRefText:
            t = None
        except Exception:
            t = None
        if t is not None:
            try:
                rd3 = _ft(rdclass, rdtype, t)
                if not _equal(rd3, rd):
                    fails.append(Fail("C05.rfc_spelling_parses_equal", "RFC spelling %r parses to a different record than the value" % t[:80], impl=pimpl, kind="rfc-text-different-record"))
                else:
                    t3 = rd3.to_text()
                    if not _equal(_ft(rdclass, rdtype, t3), rd):
                        fails.append(Fail("C05.rfc_spelling_parses_equal", "record parsed from RFC spelling does not survive its own text", impl=pimpl, kind="rfc-text-record-not-stable"))
            except Exception as e:
                fails.append(Fail("C05.rfc_spelling_parses_equal", "RFC spelling %r rejected: %s: %s" % (t[:80], type(e).__name__, e), impl=pimpl, kind="rfc-text-rejected", exc=type(e).__name__, site=_site(e)))
    if wf and generic:
        # RFC 3597 generic form of a known type
        try:
            g = rd.to_generic()
            for sn in ("default", "chunk1") if len(style_names) > 1 else ("default",):
                tg = g.to_text(style=style_from_name(sn))
                rdg = _ft(rdclass, rdtype, tg)
                if not _equal(rdg, rd):
                    fails.append(Fail("C05.generic_form", "generic form %r parses to a different record" % tg[:60], impl=pimpl, kind="generic-form-different-record"))
        except Exception as e:
            fails.append(Fail("C05.generic_form", "generic form of a known type failed: %s: %s" % (type(e).__name__, e), impl=pimpl, kind="generic-form-rejected", exc=type(e).__name__, site=_site(e)))
    if wf and own_ok and origins and spec.has_name():
        fails += check_origins(spec, vals, rd, rdclass, origins, pimpl)
    return "ok", fails


def _sk(sn):
    # styles only matter for the signature when they are not the default
    return "default" if sn == "default" else sn


def check_origins(spec, vals, rd, rdclass, origins, pimpl):
    fails = []
    rdtype = rd.rdtype

    def bad(kind, what, o, e=None):
        sig = dict(impl=pimpl, kind=kind)
        if e is not None:
            sig.update(exc=type(e).__name__, site=_site(e))
        fails.append(Fail("C05.text_roundtrip_origin", what + " (origin %s)" % mkname(o).to_text(), **sig))

    for o in origins:
        on = mkname(o)
        exp_abs_vals = expected_abs(spec, vals, o)
        rvals = spec.relativized(vals, o)
        if not _name_fits(spec, exp_abs_vals):
            continue
        try:
            rd_exp = spec.build(exp_abs_vals, rdclass)
            rdr = spec.build(rvals, rdclass)
        except Exception:
            continue
        step = "?"
        try:
            # (a) absolute record, emitted relative to o
            step = "abs-emit-rel"
            t = rd.to_text(origin=on, relativize=True)
            x = _ft(rdclass, rdtype, t, origin=on, relativize=False)
            if not _equal(x, rd_exp):
                bad("emit-relativized/parse-absolute-not-equal", "text %r (relativized) parsed with origin, relativize=False, differs from the record" % t[:60], o)
            x = _ft(rdclass, rdtype, t, origin=on, relativize=True)
            if not _equal(x, rdr):
                bad("emit-relativized/parse-relativized-not-equal", "text %r (relativized) parsed with relativize=True differs from the relative record" % t[:60], o)
            # (c) absolute record, origin given but relativize=False
            step = "abs-emit-abs"
            t = rd.to_text(origin=on, relativize=False)
            x = _ft(rdclass, rdtype, t)
            if not _equal(x, rd):
                bad("emit-absolute/parse-no-origin-not-equal", "text %r (relativize=False) parsed without origin differs" % t[:60], o)
            x = _ft(rdclass, rdtype, t, origin=on, relativize=True)
            if not _equal(x, rdr):
                bad("emit-absolute/parse-relativized-not-equal", "text %r parsed with relativize=True differs from the relative record" % t[:60], o)
            # (d) relative record
            if rvals != vals:
                step = "rel-emit-asis"
                t = rdr.to_text()
                x = _ft(rdclass, rdtype, t, origin=on, relativize=True)
                if not _equal(x, rdr):
                    bad("relative-record/parse-relativized-not-equal", "relative record text %r parsed with origin differs" % t[:60], o)
                x = _ft(rdclass, rdtype, t, origin=on, relativize=False)
                if not _equal(x, rd_exp):
                    bad("relative-record/parse-absolute-not-equal", "relative record text %r parsed with relativize=False differs" % t[:60], o)
                step = "rel-emit-abs"
                t = rdr.to_text(origin=on, relativize=False)
                x = _ft(rdclass, rdtype, t)
                if not _equal(x, rd_exp):
                    bad("relative-record-derelativized/parse-not-equal", "relative record emitted absolute %r parses to a different record" % t[:60], o)
            # (e) relativize_to another origin
            step = "relativize_to"
            o2 = ORIGINS[0] if o != ORIGINS[0] else ORIGINS[2]
            t = rd.to_text()
            x = _ft(rdclass, rdtype, t, origin=on, relativize=True, relativize_to=mkname(o2))
            rd_to = spec.build(spec.relativized(vals, o2), rdclass)
            if not _equal(x, rd_to):
                bad("relativize_to-not-equal", "absolute text parsed with relativize_to=%s differs from the record relativized to it" % mkname(o2).to_text(), o)
        except Exception as e:
            bad("origin-roundtrip-raises:" + step, "%s raised %s: %s" % (step, type(e).__name__, e), o, e)
    return fails


# --------------------------------------------------------------------------- records accepted from wire


def check_wire_accepted(rdclass, rdtype, buf, cur, rdlen, style_names):
    fails = []
    try:
        rd = _fw(rdclass, rdtype, buf, cur, rdlen)
    except Exception:
        return False, fails
    eimpl = _text_impl(rd, "to_styled_text")
    pimpl = _text_impl(rd, "from_text")
    for sn in style_names:
        try:
            t = rd.to_text(style=style_from_name(sn))
        except Exception as e:
            fails.append(Fail("C05.to_text_total", "to_text(%s) of a record accepted from wire raised %s: %s" % (sn, type(e).__name__, e), impl=eimpl, kind="to_text-raises", exc=type(e).__name__, site=_site(e)))
            continue
        if rdtype == dns.rdatatype.OPT:
            continue
        try:
            rd2 = _ft(rdclass, rdtype, t)
        except Exception:
            continue
        try:
            rd2.to_wire()
            rd2.to_text()
        except Exception as e:
            fails.append(Fail("C05.text_accepted_encodes", "record accepted from text %r cannot be encoded / printed: %s" % (t[:80], type(e).__name__), impl=pimpl, kind="accepted-not-encodable", exc=type(e).__name__, site=_site(e)))
    return True, fails


# --------------------------------------------------------------------------- text probes


def int_probes(f):
    hi = f.hi
    out = [str(hi + 1), str(1 << f.bits), str((1 << f.bits) + 1), "100000000000000000000", "-1", "+1", "0x1", "1e1", "1.0", "00000000000000000000001", str(hi), "0%d" % hi]
    if f.fmt == "o":
        out = ["%o" % (hi + 1), "%o" % hi, "200000", "177777", "8", "-1", "0o17", "0177777"]
    return out


def text_probes(spec):
    """(text, tag) — texts near the edges of what the parser may accept"""
    out = []
    if not spec.parses_text:
        return out
    nom = spec.nominal()
    if spec.text_fn is None:
        try:
            toks = [f.text(nom[f.attr], nom) for f in spec.fields]
        except Exception:
            toks = None
        if toks:
            for i, f in enumerate(spec.fields):
                if f.kind in ("uint", "rdtype"):
                    for p in int_probes(f):
                        out.append((" ".join(toks[:i] + [p] + toks[i + 1 :]), "int-probe"))
                    if f.attr in ("refresh", "retry", "expire", "minimum", "original_ttl"):
                        for p in ("1w", "1W2d3h4m5s", "7101w", "4294967295s", "4294967296", "49710d", "1h1", "w"):
                            out.append((" ".join(toks[:i] + [p] + toks[i + 1 :]), "ttl-probe"))
                if f.kind == "charstr":
                    for p in ('"' + "a" * 256 + '"', '"' + "\\255" * 255 + '"', '"' + "\\255" * 256 + '"', "a" * 255, "a" * 256, '""', '"\\256"', '"\\25"', '"\\"'):
                        out.append((" ".join(toks[:i] + [p] + toks[i + 1 :]), "string-probe"))
                if f.kind == "name":
                    for p in ("a" * 64 + ".", "a" * 63 + ".", ".".join(["a" * 63] * 4) + ".", ".".join(["a" * 63] * 3 + ["a" * 61]) + ".", "a..b.", "\\300.", "\\0.", ".a."):
                        out.append((" ".join(toks[:i] + [p] + toks[i + 1 :]), "name-probe"))
    if spec.tname == "LOC":
        base = "42 21 54.005 N 71 6 18.000 W "
        for alt in ("42849672.95m", "42849672.96m", "42849673m", "-100000.00m", "-100000.01m", "-100001m", "0.29m", "1e3m", "m", "4284967295m", "nan", "inf", "-0m"):
            out.append((base + alt, "loc-altitude-probe"))
        for sz in ("90000000.00m", "90000000.01m", "99999999m", "100000000m", "0.00m", "0.01m", "0.001m", "1e9m", "-1m"):
            out.append((base + "10m " + sz, "loc-size-probe"))
            out.append((base + "10m 1m " + sz, "loc-size-probe"))
            out.append((base + "10m 1m 1m " + sz, "loc-size-probe"))
        for lat in ("90 0 0.000 N", "90 0 0.001 N", "90 N", "91 N", "89 59 59.999 S", "89 60 N", "89 59 60 N", "0 0 0.9999 N", "0 0 0. N", "0 0 .5 N"):
            out.append((lat + " 71 6 18.000 W 10m", "loc-latitude-probe"))
        for lon in ("180 0 0.000 E", "180 0 0.001 W", "181 E", "179 59 59.999 W", "180 W"):
            out.append(("42 21 54.005 N " + lon + " 10m", "loc-longitude-probe"))
    if spec.tname in ("RRSIG", "SIG"):
        pre = "A 13 2 3600 "
        post = " 4242 example. AAAA"
        for a in ("21060207062815", "21060207062816", "99991231235959", "19700101000000", "19691231235959", "20240230000000", "4294967295", "4294967296", "00000000000000"):
            out.append((pre + a + " 20230101000000" + post, "sigtime-probe"))
            out.append((pre + "20230101000000 " + a + post, "sigtime-probe"))
        for lab in ("255", "256", "-1"):
            out.append(("A 13 " + lab + " 3600 20240101000000 20230101000000 4242 example. AAAA", "int-probe"))
        for kt in ("65535", "65536"):
            out.append(("A 13 2 3600 20240101000000 20230101000000 " + kt + " example. AAAA", "int-probe"))
    if spec.tname == "TSIG":
        for ts in ("281474976710655", "281474976710656"):
            out.append(("hmac-sha256. " + ts + " 300 4 AAAAAA== 4660 NOERROR 0", "int-probe"))
        for err in ("BADSIG", "16", "4095", "4096", "65535"):
            out.append(("hmac-sha256. 1700000000 300 4 AAAAAA== 4660 " + err + " 0", "int-probe"))
        out.append(("hmac-sha256. 1700000000 300 4 AAAAAA== 4660 NOERROR 3 AAAA", "tsig-other"))
    if spec.tname == "TKEY":
        out.append(("gss-tsig. 1700000000 1700086400 3 0 AAAA", "tkey"))
        out.append(("gss-tsig. 4294967296 1700086400 3 0 AAAA", "int-probe"))
        out.append(("gss-tsig. 1700000000 1700086400 65536 0 AAAA", "int-probe"))
        out.append(("gss-tsig. 1700000000 1700086400 3 65535 AAAA BBBB", "tkey"))
    if spec.tname == "GPOS":
        for la in ("90", "90.0", "90.1", "-90", "-90.00001", "1e1", "+5", ".", "-", "1.2.3", "١"):
            out.append((la + " 10 10", "gpos-probe"))
            out.append(("10 " + la + " 10", "gpos-probe"))
        out.append(("10 180 1" + "0" * 254, "gpos-probe"))
        out.append(("10 180 1" + "0" * 255, "gpos-probe"))
    if spec.tname == "WKS":
        for p in ("65535", "65536", "0", "100000"):
            out.append(("10.0.0.1 6 " + p, "wks-port-probe"))
        for pr in ("255", "256", "tcp", "udp"):
            out.append(("10.0.0.1 " + pr + " 25", "wks-proto-probe"))
    if spec.tname == "APL":
        for it in ("1:10.0.0.0/32", "1:10.0.0.0/33", "2:ff00::/128", "2:ff00::/129", "3:0102/255", "3:0102/256", "65535:01/0", "65536:01/0", "!1:0.0.0.0/0", "1:10.0.0.1/8", "3:" + "ab" * 127 + "/0", "3:" + "ab" * 128 + "/0", "3:" + "ab" * 63 + "/0", "3:" + "ab" * 64 + "/0"):
            out.append((it, "apl-probe"))
    if spec.tname in ("NSEC", "CSYNC", "NSEC3"):
        pre = {"NSEC": "host.example. ", "CSYNC": "66 3 ", "NSEC3": "1 1 12 aabbccdd 2t7b4g4vsa5smi47k61mv5bv1a22bojr "}[spec.tname]
        for ts in ("TYPE65535", "TYPE65536", "TYPE0", "A A", "TYPE1 A", "TYPE255 TYPE256", "ANY", "A NS SOA MX TXT AAAA RRSIG NSEC DNSKEY TYPE1234"):
            out.append((pre + ts, "bitmap-probe"))
    if spec.tname == "NSEC3":
        for nx in ("00", "0", "2t7b4g4vsa5smi47k61mv5bv1a22boj", "2T7B4G4VSA5SMI47K61MV5BV1A22BOJR", "vvvvvvvv", "zz", "=", "00======"):
            out.append(("1 1 12 - " + nx + " A", "nsec3-next-probe"))
        out.append(("1 1 12 " + "ab" * 255 + " 00 A", "nsec3-salt-probe"))
        out.append(("1 1 12 " + "ab" * 256 + " 00 A", "nsec3-salt-probe"))
    if spec.tname in ("SVCB", "HTTPS"):
        for ps in ("port=65535", "port=65536", "port=-1", "alpn=" + "a" * 255, "alpn=" + "a" * 256, 'alpn="a\\,b,c"', 'alpn="a\\\\,b"', "key65535=x", "key65536=x", "key0=x", "mandatory=port port=1", "mandatory=port", "no-default-alpn", "alpn=h2 no-default-alpn", "ipv4hint=1.2.3.4,5.6.7.8", "ipv4hint=", "ech=AAAA", "ech=", "key7=\\000\\255", "ohttp", "ohttp=x", "docpath=a,b", "alpn=h2 alpn=h3", "key1=\\002h2", "key3=\\000", "key3=\\000\\001\\002"):
            out.append(("1 svc.example. " + ps, "svcb-probe"))
        out.append(("0 svc.example. port=1", "svcb-probe"))
        out.append(("65536 svc.example.", "int-probe"))
    if spec.tname == "CERT":
        for ct in ("PKIX", "OID", "65535", "65536", "0", "pkix"):
            out.append((ct + " 4321 RSASHA256 AAAA", "cert-probe"))
        for al in ("255", "256", "RSASHA256", "PRIVATEOID", "FOO"):
            out.append(("1 4321 " + al + " AAAA", "cert-probe"))
    if spec.tname == "KEY":
        for fl in ("NOKEY", "NOCONF|ZONE", "49152", "NOAUTH|NOCONF", "BOGUS"):
            out.append((fl + " 3 8 AAAA", "key-probe"))
            out.append((fl + " 3 8", "key-probe"))
        for pr in ("DNSSEC", "ALL", "256"):
            out.append(("0 " + pr + " 8 AAAA", "key-probe"))
    if spec.tname == "URI":
        for tg in ('""', "unquoted", "a,b;c"):
            out.append(("10 1 " + tg, "uri-probe"))
    if spec.tname == "CAA":
        for tg in ("issue", "ISSUE", "iss-ue", "a" * 255, "a" * 256, '""', "\\105ssue"):
            out.append(("0 " + tg + ' "ca.example.net"', "caa-probe"))
    if spec.tname == "AMTRELAY":
        for x in ("10 0 0 .", "10 1 0 .", "10 2 0 .", "10 0 4 x", "10 0 127 x", "10 0 128 x", "10 0 1 1.2.3.4", "10 0 2 ::1", "10 0 3 relay.example.", "10 0 1 ::1", "10 0 0 foo."):
            out.append((x, "amtrelay-probe"))
    if spec.tname == "IPSECKEY":
        for x in ("10 0 2 . AAAA", "10 1 2 192.0.2.1 AAAA", "10 2 2 2001:db8::1 AAAA", "10 3 2 gw.example. AAAA", "10 4 2 x AAAA", "10 0 2 foo. AAAA", "10 1 2 ::1 AAAA", "10 3 2 gw.example."):
            out.append((x, "ipseckey-probe"))
    if spec.tname in ("L64", "NID"):
        for x in ("0:0:0:0", "ffff:ffff:ffff:ffff", "FFFF:0000:abcd:0001", "fffff:0:0:0", "0:0:0", "0000:0000:0000:0000:0000", "-001:0000:0000:0000", "+001:0000:0000:0000", " 001:0000:0000:0000", "0x01:0000:0000:0000", "00_1:0000:0000:0000"):
            out.append(("10 " + x, "colonhex-probe"))
    if spec.tname in ("EUI48", "EUI64"):
        n = 6 if spec.tname == "EUI48" else 8
        for x in ("-".join(["ab"] * n), "-".join(["AB"] * n), "-".join(["ab"] * (n + 1)), "-".join(["ab"] * (n - 1)), ":".join(["ab"] * n), "ab" * n, "-".join(["a "] * n)):
            out.append((x, "eui-probe"))
    if spec.tname == "NSAP":
        for x in ("0x", "0x00", "0x0", "0x.", "0x47.0005", "0X47", "47", "0x4g"):
            out.append((x, "nsap-probe"))
    if spec.tname == "HIP":
        for x in ("2 200100107B1A74DF365639CC39F1D578 AwEAAb", "2 20 AAAA rvs.example.", "256 20 AAAA", "2 " + "ab" * 255 + " AAAA", "2 " + "ab" * 256 + " AAAA", "2 20 " + "AAAA" * 16384, "2 20 " + "AAAA" * 16385):
            out.append((x, "hip-probe"))
    if spec.tname in ("TXT", "SPF"):
        for x in ('"' + "a" * 255 + '"', '"' + "a" * 256 + '"', "unquoted words here", '"\\255\\000"', '"a" "b" ( "c"\n "d" )', '""', "\\# 1 61", '"é"', '"' + "é" * 127 + '"', '"' + "é" * 128 + '"'):
            out.append((x, "txt-probe"))
    return out


def check_text_probe(rdclass, rdtype, text):
    """accepted-from-text => encodable, printable, and its own text parses back equal"""
    fails = []
    try:
        rd = _ft(rdclass, rdtype, text)
    except Exception:
        return False, fails
    pimpl = _text_impl(rd, "from_text")
    try:
        rd.to_wire()
    except Exception as e:
        fails.append(Fail("C05.text_accepted_encodes", "record accepted from text %r cannot be encoded: %s: %s" % (text[:80], type(e).__name__, e), impl=pimpl, kind="accepted-not-encodable", exc=type(e).__name__, site=_site(e)))
        return True, fails
    try:
        t = rd.to_text()
    except Exception as e:
        fails.append(Fail("C05.to_text_total", "record accepted from text %r cannot be printed: %s: %s" % (text[:80], type(e).__name__, e), impl=_text_impl(rd, "to_styled_text"), kind="to_text-raises", exc=type(e).__name__, site=_site(e)))
        return True, fails
    try:
        rd2 = _ft(rdclass, rdtype, t)
        if not _equal(rd2, rd):
            fails.append(Fail("C05.text_roundtrip", "record accepted from text %r prints as %r which parses to a different record" % (text[:60], t[:60]), impl=pimpl, kind="accepted-text-reparsed-not-equal"))
    except Exception as e:
        fails.append(Fail("C05.text_roundtrip", "record accepted from text %r prints as %r which is rejected: %s" % (text[:60], t[:60], type(e).__name__), impl=pimpl, kind="accepted-text-own-text-rejected", exc=type(e).__name__, site=_site(e)))
    return True, fails


# --------------------------------------------------------------------------- generic form, unknown types


def check_generic_text(rdclass, rdtype, data, sn):
    fails = []
    try:
        rd = dns.rdata.GenericRdata(dns.rdataclass.RdataClass.make(rdclass), dns.rdatatype.RdataType.make(rdtype), data)
        t = rd.to_text(style=style_from_name(sn))
        rd2 = _ft(rdclass, rdtype, t)
        if type(rd2) is not dns.rdata.GenericRdata or rd2.data != data or not _equal(rd2, rd):
            fails.append(Fail("C05.generic_form", "unknown type: generic text %r parses to different data" % t[:60], impl="rdata.GenericRdata", kind="generic-text-different-data"))
        # spelling freedom of RFC 3597: upper-case hex, split anywhere
        h = binascii.hexlify(data).decode().upper()
        t2 = "\\# %d %s" % (len(data), " ".join(h[i : i + 5] for i in range(0, len(h), 5)))
        if len(data) == 0:
            t2 = "\\# 0"
        rd3 = _ft(rdclass, rdtype, t2)
        if rd3.data != data:
            fails.append(Fail("C05.generic_form", "unknown type: RFC 3597 spelling %r parses to different data" % t2[:60], impl="rdata.GenericRdata", kind="generic-rfc-spelling-different-data"))
        rd3.to_wire()
    except Exception as e:
        fails.append(Fail("C05.generic_form", "unknown type generic form raised %s: %s" % (type(e).__name__, e), impl="rdata.GenericRdata", kind="generic-form-raises", exc=type(e).__name__, site=_site(e)))
    return fails


# --------------------------------------------------------------------------- codec units


def _tok_quoted_bytes(text):
    tok = dns.tokenizer.Tokenizer(text)
    t = tok.get()
    rest = tok.get()
    if not t.is_quoted_string() or not rest.is_eol_or_eof():
        raise ValueError("token stream is not exactly one quoted string")
    return t.unescape_to_bytes().value


def check_escape_bytes(data):
    """_escapify then tokenizer (quoted) then unescape_to_bytes is the identity"""
    try:
        text = '"' + dns.rdata._escapify(data) + '"'
        back = _tok_quoted_bytes(text)
    except Exception as e:
        return [Fail("C05.charstring_escapes", "escaped form of %r does not tokenize back: %s: %s" % (data, type(e).__name__, e), impl="rdata._escapify", kind="escaped-bytes-rejected", exc=type(e).__name__, vclass=M.bytes_class(data))]
    if back != data:
        return [Fail("C05.charstring_escapes", "%r escapes to %r which reads back as %r" % (data, text, back), impl="rdata._escapify", kind="escaped-bytes-differ", vclass=M.bytes_class(data))]
    return []


def check_escape_unicode(s):
    try:
        text = '"' + dns.rdata._escapify_unicode(s) + '"'
        back = _tok_quoted_bytes(text)
    except Exception as e:
        return [Fail("C05.charstring_escapes", "unicode-escaped form of %r does not tokenize back: %s" % (s, type(e).__name__), impl="rdata._escapify_unicode", kind="escaped-unicode-rejected", exc=type(e).__name__)]
    if back != s.encode("utf-8"):
        return [Fail("C05.charstring_escapes", "%r escapes (unicode) to %r which reads back as %r" % (s, text, back), impl="rdata._escapify_unicode", kind="escaped-unicode-differs")]
    return []


def check_chunking(data, size, sep, enc):
    st = Style(base64_chunk_size=size, hex_chunk_size=size, base64_chunk_separator=sep, hex_chunk_separator=sep)
    try:
        if enc == "hex":
            text = dns.rdata._styled_hexify(data, st)
        else:
            text = dns.rdata._styled_base64ify(data, st)
        tok = dns.tokenizer.Tokenizer(text)
        joined = tok.concatenate_remaining_identifiers(True)
        back = binascii.unhexlify(joined) if enc == "hex" else base64.b64decode(joined)
    except Exception as e:
        return [Fail("C05.chunking", "%s chunking (size %d) of %d octets does not read back: %s" % (enc, size, len(data), type(e).__name__), impl="rdata._wordbreak", kind="chunked-text-rejected", exc=type(e).__name__)]
    if back != data:
        return [Fail("C05.chunking", "%s chunking (size %d) of %s reads back as %s" % (enc, size, data.hex()[:40], back.hex()[:40]), impl="rdata._wordbreak", kind="chunked-text-differs")]
    return []


def check_addr(packed):
    fails = []
    try:
        if len(packed) == 4:
            t = dns.ipv4.inet_ntoa(packed)
            ref = ipaddress.IPv4Address(t).packed
            back = dns.ipv4.inet_aton(t)
            mod = "ipv4"
            alt = ".".join(str(c) for c in packed)
        else:
            t = dns.ipv6.inet_ntoa(packed)
            ref = ipaddress.IPv6Address(t).packed
            back = dns.ipv6.inet_aton(t)
            mod = "ipv6"
            alt = ipaddress.IPv6Address(packed).exploded
        if ref != packed:
            fails.append(Fail("C05.address_text", "%s text %r means %s to an independent parser, not %s" % (mod, t, ref.hex(), packed.hex()), impl=mod + ".inet_ntoa", kind="address-text-wrong"))
        if back != packed:
            fails.append(Fail("C05.address_text", "%s text %r parses back to %s, not %s" % (mod, t, back.hex(), packed.hex()), impl=mod + ".inet_aton", kind="address-text-not-inverse"))
        aton = dns.ipv4.inet_aton if len(packed) == 4 else dns.ipv6.inet_aton
        forms = [alt]
        if len(packed) == 16:
            forms += [ipaddress.IPv6Address(packed).compressed, ipaddress.IPv6Address(packed).exploded.upper()]
        for a in forms:
            if aton(a) != packed:
                fails.append(Fail("C05.address_text", "%s spelling %r parses to %s, not %s" % (mod, a, aton(a).hex(), packed.hex()), impl=mod + ".inet_aton", kind="address-spelling-wrong"))
    except Exception as e:
        fails.append(Fail("C05.address_text", "address %s: %s: %s" % (packed.hex(), type(e).__name__, e), impl="ipv%d" % (4 if len(packed) == 4 else 6), kind="address-text-raises", exc=type(e).__name__, site=_site(e)))
    return fails


def check_mnemonic(code):
    try:
        t = dns.rdatatype.to_text(dns.rdatatype.RdataType.make(code))
        back = dns.rdatatype.from_text(t)
        if int(back) != code:
            return [Fail("C05.type_mnemonics", "type %d prints as %r which reads back as %d" % (code, t, int(back)), impl="rdatatype", kind="mnemonic-not-inverse")]
        if int(dns.rdatatype.from_text("TYPE%d" % code)) != code:
            return [Fail("C05.type_mnemonics", "TYPE%d reads back differently" % code, impl="rdatatype", kind="TYPEnnn-not-inverse")]
    except Exception as e:
        return [Fail("C05.type_mnemonics", "type %d: %s: %s" % (code, type(e).__name__, e), impl="rdatatype", kind="mnemonic-raises", exc=type(e).__name__)]
    return []


# --------------------------------------------------------------------------- run


_NEEDS_ESCAPE = {"octet-dquote", "octet-backslash", "octet-00-1f", "octet-7f"}
_COARSE_KIND = {
    "own-text-rejected": "own-text-does-not-parse-back-equal",
    "reparsed-not-equal": "own-text-does-not-parse-back-equal",
    "accepted-text-own-text-rejected": "own-text-does-not-parse-back-equal",
    "accepted-text-reparsed-not-equal": "own-text-does-not-parse-back-equal",
    "rfc-text-rejected": "rfc-spelling-does-not-parse-equal",
    "rfc-text-different-record": "rfc-spelling-does-not-parse-equal",
    "rfc-text-record-not-stable": "rfc-spelling-does-not-parse-equal",
}


def coarse_sig(f):
    """One finding per (clause, implementing class, coarse failure kind, coarse input class):
    exception types, call sites and styles stay in the message, not in the signature."""
    sig = {"clause": f.clause, "impl": f.sig.get("impl"), "kind": _COARSE_KIND.get(f.sig.get("kind"), f.sig.get("kind"))}
    v = f.sig.get("vclass")
    if f.clause == "C05.text_roundtrip_origin":
        sig["kind"] = "origin-or-relativize-choice-not-honoured"
        v = None
    if v is not None:
        parts = []
        for p in str(v).split("+"):
            q = p
            for pre in ("name-", "gw-name-", "svc-alpn-", "svc-docpath-", "svc-dohpath-", "svc-generic-", "svc-ech-"):
                if q.startswith(pre) and q[len(pre):].startswith("octet"):
                    q = q[len(pre):]
                    parts.append(pre.rstrip("-") + ":" + ("octet-needing-escape" if q in _NEEDS_ESCAPE else q))
                    break
            else:
                parts.append("octet-needing-escape" if q in _NEEDS_ESCAPE else q)
        sig["vclass"] = "+".join(sorted(set(parts)))
    if f.sig.get("style") not in (None, "default"):
        sig["style"] = f.sig["style"]
    return sig


def _report(R, f, replay):
    R.violation(f.clause, f.what, sig=coarse_sig(f), replay=dict(replay, clause=f.clause))


def _attribute(spec, vals, rdclass, style_names, origins, fail):
    def still(v):
        st, fs = check_text_value(spec, v, rdclass, style_names, origins)
        ck = _COARSE_KIND.get(fail.sig.get("kind"), fail.sig.get("kind"))
        return any(x.clause == fail.clause and _COARSE_KIND.get(x.sig.get("kind"), x.sig.get("kind")) == ck for x in fs)

    try:
        mv, kept = spec.minimize(vals, still)
        return mv, spec.vclass(mv, kept)
    except Exception:
        return vals, "unminimised"


_min_budget = {}
# quick tier: types whose first name field gets all 256 single-octet labels (one per distinct
# parsing context: plain name, name after an integer, name before a bitmap, gateway, name list,
# relativize=False names, name after quoted strings); the other name fields get 34 representatives
_FULL_NAME_SWEEP = {"NS", "MX", "SOA", "SRV", "NSEC", "RRSIG", "TSIG", "TKEY", "NAPTR", "SVCB", "DSYNC"}
_STYLE_SENSITIVE = ("blob", "fixed", "qstr", "txtstrings", "dashhex", "colonhex", "nsaphex", "b32hex", "salthex")


def run(R):
    _min_budget.clear()
    M.MODE["FULL_OCTETS"] = True
    M.MODE["FULL_INTS"] = not R.quick
    specs = build_specs()
    if R.quick:
        # every name goes through the same tokenizer / Name code: the first name field of a
        # type gets all 256 single-octet labels, further name fields the 34 representatives
        for sp in specs:
            first = sp.tname in _FULL_NAME_SWEEP
            for f in sp.fields:
                if f.kind == "name":
                    f.sweep_full = first
                    first = False
    all_styles = [n for n, _ in lossless_styles()]
    n_random = 10 if R.quick else 600

    run_units(R)
    run_generic_unknown(R)

    seen_impl = set()
    for spec in specs:  # pass 1: boundaries of every type, probes, wire-accepted records
        if R.deadline():
            R.note("deadline reached in pass 1 before type %s" % spec.key)
            break
        # quick tier: types that share both text methods with an earlier type get the
        # 34-representative octet sweep instead of all 256 (same code, same positions)
        cls = spec.impl_class()
        ik = (_text_impl(cls, "from_text"), _text_impl(cls, "to_styled_text"))
        M.MODE["FULL_OCTETS"] = (not R.quick) or ik not in seen_impl
        seen_impl.add(ik)
        run_values(R, spec, spec.essential(not R.quick), all_styles, "pass 1")
        M.MODE["FULL_OCTETS"] = True
        run_probes(R, spec)
        run_wire_accepted(R, spec, structured=True, n_random=0)
    for spec in specs:  # pass 2: pairs, seeded records, seeded wire inputs
        if R.deadline():
            R.note("deadline reached in pass 2 before type %s (pairs / seeded part shortened)" % spec.key)
            break
        run_values(R, spec, spec.extended(not R.quick, R.rng, n_random), all_styles, "pass 2")
        run_wire_accepted(R, spec, structured=False, n_random=60 if R.quick else 1000)


def _blobish(spec, vals, labels):
    if not labels:
        return True
    return any(spec.by_attr[a].kind in _STYLE_SENSITIVE or isinstance(spec.by_attr[a], M.Blob) for a in labels)


def run_values(R, spec, cases, all_styles, which):
    named = spec.has_name()
    rdclass = spec.rdclasses[0]
    thin = R.quick
    for idx, (vals, labels) in enumerate(cases):
        if idx % 32 == 0 and R.deadline():
            R.note("deadline reached inside values of %s (%s)" % (spec.key, which))
            break
        # opaque fields in quick tier: the single-octet sweep matters for quoted / label positions only
        if thin and labels and len(labels) == 1:
            (a, l), = labels.items()
            f = spec.by_attr[a]
            if f.kind in ("blob", "fixed", "b32hex", "salthex", "nsaphex", "dashhex", "colonhex") and l in ("one-octet", "octet-at-0", "octet-at--1"):
                v = bytes(vals[a])
                probe = v[0] if l != "octet-at--1" else v[-1]
                if probe not in M.REP_OCTETS:
                    continue
        if _blobish(spec, vals, labels):
            lens = all(str(l).startswith(("empty", "len", "zeros", "ones", "many", "plain")) for l in labels.values())
            styles = all_styles if (not thin or not labels or (lens and len(labels) == 1)) else ["default", all_styles[1 + idx % (len(all_styles) - 1)]]
        else:
            styles = ["default"] if idx % 8 else ["default", "utf8", "chunk1"]
        name_varied = any(spec.by_attr[a].has_name() for a in labels)
        sweep = any(str(l).startswith("octet") or str(l).startswith("gw-octet") for l in labels.values())
        if thin and sweep and name_varied and idx % 6:
            origins = []
        elif named and (name_varied or idx % (32 if thin else 8) == 0):
            origins = ORIGINS if (not thin or not labels or (name_varied and not sweep and len(labels) == 1)) else ORIGINS[:1]
        elif named and idx % (16 if thin else 4) == 1:
            origins = ORIGINS[:1]
        else:
            origins = []
        gen = (not thin) or idx % 4 == 0 or not labels
        try:
            st, fails = check_text_value(spec, vals, rdclass, styles, origins, generic=gen)
        except Exception as e:
            R.note("harness error in check_text_value %s: %s: %s" % (spec.key, type(e).__name__, e))
            continue
        if st == "refused":
            R.case("C05.text_roundtrip", key=(spec.key, which, idx), nontrivial=False)
            continue
        wf = spec.well_formed_for_text(vals) and spec.parses_text
        k = (spec.key, repr(vals), tuple(styles))
        R.case("C05.to_text_total", key=k)
        R.case("C05.text_roundtrip", key=k, nontrivial=wf)
        R.case("C05.text_accepted_encodes", key=k, nontrivial=wf)
        if wf:
            if gen:
                R.case("C05.generic_form", key=k)
            if spec.text_fn is None or spec.tname not in ("TKEY", "TSIG", "SVCB", "HTTPS", "OPT"):
                R.case("C05.rfc_spelling_parses_equal", key=k)
            if origins:
                R.case("C05.text_roundtrip_origin", key=(k, len(origins)))
        if idx == 0 and which == "pass 1":
            R.sample("C05.text_roundtrip", {"type": spec.key, "values": vals, "styles": styles})
        for f in fails:
            if len(labels) <= 1:
                # one-factor case: the varied field is the cause, no minimisation needed
                mv = vals
                vclass = "+".join(spec.by_attr[a].classify(vals[a]) for a in labels) or "nominal"
            else:
                bk = (f.clause, f.sig.get("impl"), f.sig.get("kind"))
                _min_budget[bk] = _min_budget.get(bk, 0) + 1
                if _min_budget[bk] > 6:
                    continue  # this (clause, class, kind) has been attributed six times already
                mv, vclass = _attribute(spec, vals, rdclass, styles, origins, f)
            f.sig["vclass"] = vclass
            _report(R, f, {"kind": "value", "spec": spec.key, "vals": mv, "rdclass": rdclass, "styles": styles, "origins": origins})


def run_probes(R, spec):
    rdclass = spec.rdclasses[0]
    for text, tag in text_probes(spec):
        try:
            acc, fails = check_text_probe(rdclass, spec.rdtype, text)
        except Exception as e:
            R.note("harness error in check_text_probe %s: %s" % (spec.key, e))
            continue
        R.case("C05.text_accepted_encodes", key=(spec.key, text), nontrivial=acc)
        if acc:
            R.sample("C05.text_accepted_encodes", {"type": spec.key, "text": text[:120], "probe": tag})
        for f in fails:
            f.sig["vclass"] = tag
            _report(R, f, {"kind": "text", "rdclass": rdclass, "rdtype": spec.rdtype, "text": text})


def run_wire_accepted(R, spec, structured, n_random):
    rdclass = spec.rdclasses[0]
    try:
        w = spec.ref_wire(spec.nominal())
    except Exception:
        w = b"\x00" * 8
    if structured:
        inputs = decode_inputs(w, R.rng, 0, False)
        if R.quick:
            inputs = inputs[::3]
        cases = list(spec.essential(False))
        step = max(1, len(cases) // (12 if R.quick else 150))
        for vals, _l in cases[::step]:
            try:
                sd = spec.ref_wire(vals)
            except Exception:
                continue
            if len(sd) <= 600:
                inputs += seed_mutations(sd, R.rng)
        inputs += crafted_inputs(spec, R.rng, not R.quick)
    else:
        inputs = [x for x in decode_inputs(w, R.rng, n_random, False) if x[3].startswith("random")]
    styles = ["default", "utf8"]
    for idx, (buf, cur, rdlen, tag) in enumerate(inputs):
        if idx % 128 == 0 and R.deadline():
            R.note("deadline reached inside wire-accepted inputs of %s" % spec.key)
            break
        try:
            acc, fails = check_wire_accepted(rdclass, spec.rdtype, buf, cur, rdlen, styles if idx % 4 == 0 else styles[:1])
        except Exception as e:
            R.note("harness error in check_wire_accepted %s: %s" % (spec.key, e))
            continue
        R.case("C05.to_text_total", key=(spec.key, "wire", buf, cur), nontrivial=acc)
        for f in fails:
            f.sig["vclass"] = "accepted-from-wire"
            _report(R, f, {"kind": "wire", "rdclass": rdclass, "rdtype": spec.rdtype, "buf": buf, "cur": cur, "rdlen": rdlen, "styles": styles})


def run_generic_unknown(R):
    known = {int(t) for t in dns.rdatatype.RdataType}
    pool = [t for t in range(1, 65535) if t not in known]
    codes = [65280, 65534, 65535, 300, 1000] + R.rng.sample(pool, 10 if R.quick else 200)
    payloads = [b"", b"\x00", b"\xff", bytes(range(256)), b"ab" * 33]
    n = 60 if R.quick else 2000
    for _ in range(n):
        payloads.append(bytes(R.rng.randrange(256) for _ in range(R.rng.choice([1, 2, 3, 16, 63, 64, 65, 129, 300]))))
    styles = [s for s, _ in lossless_styles()]
    for i, data in enumerate(payloads):
        if i % 64 == 0 and R.deadline():
            break
        code = codes[i % len(codes)]
        for rc in (1, 3) if i % 4 == 0 else (1,):
            sn = styles[i % len(styles)]
            fails = check_generic_text(rc, code, data, sn)
            R.case("C05.generic_form", key=(rc, code, data, sn))
            for f in fails:
                _report(R, f, {"kind": "generic", "rdclass": rc, "rdtype": code, "data": data, "style": sn})
    R.sample("C05.generic_form", {"rdclass": 1, "rdtype": 65280, "data": b"\x00\xff"})


def run_units(R):
    # character-string escapes
    for c in range(256):
        for f in check_escape_bytes(bytes([c])):
            _report(R, f, {"kind": "escape", "data": bytes([c])})
        R.case("C05.charstring_escapes", key=("b", c))
    if R.quick:
        pairs = [(R.rng.randrange(256), R.rng.randrange(256)) for _ in range(8192)]
        pairs += [(a, b) for a in (0, 1, 34, 92, 127, 128, 255) for b in list(range(48, 58)) + [34, 92, 32, 0, 255]]
    else:
        pairs = [(a, b) for a in range(256) for b in range(256)]
    for i, (a, b) in enumerate(pairs):
        if i % 4096 == 0 and R.deadline():
            break
        d = bytes([a, b])
        for f in check_escape_bytes(d):
            _report(R, f, {"kind": "escape", "data": d})
        R.case("C05.charstring_escapes", key=("b", a, b))
    for d in (b"\x01" + b"123", b"\\" + b"123", b'"' * 255, b"\\" * 255, bytes(range(256))[:255], b"\xff" * 255, b"a" * 255):
        for f in check_escape_bytes(d):
            _report(R, f, {"kind": "escape", "data": d})
        R.case("C05.charstring_escapes", key=("b", d))
    cps = list(range(0, 0x300)) + [0x7FF, 0x800, 0xFFFF, 0x10000, 0x10FFFF, 0x2028, 0x2029, 0x85, 0xFEFF]
    cps += [R.rng.randrange(0x300, 0x110000) for _ in range(1200)]
    for cp in cps:
        if 0xD800 <= cp <= 0xDFFF:
            continue
        s = chr(cp)
        for x in (s, "a" + s + "1"):
            for f in check_escape_unicode(x):
                _report(R, f, {"kind": "escape-unicode", "text": x})
            R.case("C05.charstring_escapes", key=("u", x))
    # chunking
    for n in range(0, 71):
        data = bytes((i * 73 + 5) & 0xFF for i in range(n))
        for size in (0, 1, 2, 3, 4, 7, 32, 64, 128):
            for sep in (" ", "\t"):
                for enc in ("hex", "b64"):
                    for f in check_chunking(data, size, sep, enc):
                        _report(R, f, {"kind": "chunk", "data": data, "size": size, "sep": sep, "enc": enc})
                    R.case("C05.chunking", key=(n, size, sep, enc), nontrivial=n > 0)
    # addresses
    addrs = [b for b, _ in M.IPv4("x").boundary(True)]
    saved = dict(M.MODE)
    M.MODE["FULL_INTS"] = True
    addrs = [b for b, _ in M.IPv4("x").boundary(True)] + [b for b, _ in M.IPv6("x").boundary(True)]
    M.MODE.update(saved)
    for _ in range(2000 if R.quick else 200000):
        addrs.append(M.IPv6("x").rand(R.rng)[0])
    for i, a in enumerate(addrs):
        if i % 4096 == 0 and R.deadline():
            break
        for f in check_addr(a):
            _report(R, f, {"kind": "addr", "packed": a})
        R.case("C05.address_text", key=a)
    # type mnemonics
    codes = range(65536) if not R.quick else sorted(set(range(0, 1100)) | set(range(0, 65536, 13)) | set(range(32760, 32780)) | set(range(65270, 65536)))
    for code in codes:
        for f in check_mnemonic(code):
            _report(R, f, {"kind": "mnemonic", "code": code})
        R.case("C05.type_mnemonics", key=code)


# --------------------------------------------------------------------------- replay


def replay(data):
    kind = data.get("kind")
    clause = data.get("clause")

    def verdict(fails, ok):
        sel = [f for f in fails if f.clause == clause] or fails
        if sel:
            return True, "; ".join("%s: %s" % (f.clause, f.what) for f in sel)[:1000]
        return False, ok

    if kind == "value":
        M.MODE["FULL_OCTETS"] = True
        spec = {s.key: s for s in build_specs()}[data["spec"]]
        st, fails = check_text_value(spec, data["vals"], data["rdclass"], data.get("styles") or ["default"], data.get("origins") or [])
        return verdict(fails, "value of %s survives text (%s)" % (data["spec"], st))
    if kind == "text":
        acc, fails = check_text_probe(data["rdclass"], data["rdtype"], data["text"])
        return verdict(fails, "text is %s" % ("accepted, encodable and stable" if acc else "rejected"))
    if kind == "wire":
        acc, fails = check_wire_accepted(data["rdclass"], data["rdtype"], data["buf"], data["cur"], data["rdlen"], data.get("styles") or ["default"])
        return verdict(fails, "wire input is %s" % ("accepted and printable" if acc else "rejected"))
    if kind == "generic":
        return verdict(check_generic_text(data["rdclass"], data["rdtype"], data["data"], data.get("style", "default")), "generic form round-trips")
    if kind == "escape":
        return verdict(check_escape_bytes(data["data"]), "escape round-trips")
    if kind == "escape-unicode":
        return verdict(check_escape_unicode(data["text"]), "escape round-trips")
    if kind == "chunk":
        return verdict(check_chunking(data["data"], data["size"], data["sep"], data["enc"]), "chunking round-trips")
    if kind == "addr":
        return verdict(check_addr(data["packed"]), "address text round-trips")
    if kind == "mnemonic":
        return verdict(check_mnemonic(data["code"]), "mnemonic round-trips")
    return False, "unknown replay kind %r" % kind
