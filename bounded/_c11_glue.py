"""C11 helper: histories on dns.btreezone.Zone in which a later transaction adds or removes an
NS delegation *above* names that an earlier committed version already contains, so that the
B-tree zone copies those nodes as a side effect (their GLUE flag is set / cleared) although the
transaction never writes them.

After every commit every node of every retained version (found through the public
``reader(id=...)``) is walked: ``is_immutable()`` must hold, and an explicit list of public
mutators of the node, of its ``rdatasets`` container, of every rdataset, of the rdataset's item
map and of one rdata must raise and leave the deep fingerprint unchanged.  Oracles are
independent of the library: a plain dict content model per committed version, and deep
fingerprints (object identities, types, ids, flags, rdatasets, delegation index) taken when a
version is first seen and compared after every later step.

Nothing here is derived from dns.btreezone: which nodes are *expected* to be copied as a side
effect is only used to label findings (``role`` in the sig), never to judge them.
"""

from __future__ import annotations

import dns.name
import dns.rdata
import dns.rdataclass
import dns.rdataset
import dns.rdatatype
import dns.set

from bounded import _c10_model as M

IN = dns.rdataclass.IN

# owner names (relative text; "@" is the apex).  "a" has three descendants, one of them nested
# below another possible cut ("b.a"); "aa" sorts directly after the subtree of "a" without
# being part of it; "d" has one descendant; "f" is unrelated.
NAMES = ["@", "a", "b.a", "x.b.a", "c.a", "aa", "d", "e.d", "f"]
IDX = {t: i for i, t in enumerate(NAMES)}

TTL = {"SOA": 3600, "NS": 3600, "A": 300, "AAAA": 300, "TXT": 100, "MX": 30}
KEYS = {"a1": "A", "a2": "A", "a3": "A", "q1": "AAAA", "t1": "TXT", "t2": "TXT", "m1": "MX", "n1": "NS", "n2": "NS"}
_TOUCH_KEYS = ["a1", "a2", "a3", "q1", "t1", "t2", "m1"]

_SPARE_TEXT = {
    "A": "10.9.9.9",
    "AAAA": "2001:db8::99",
    "TXT": '"zz-spare"',
    "MX": "99 spare.example.net.",
    "NS": "ns9.example.net.",
    "SOA": "ns.example.net. host.example.net. 424242 7200 900 1209600 300",
    "HINFO": "cpu os",
}
_spare_cache: dict = {}


def spare(rdtype):
    """An rdata of that type which no history ever stores."""
    t = dns.rdatatype.to_text(rdtype)
    r = _spare_cache.get(t)
    if r is None:
        r = _spare_cache[t] = dns.rdata.from_text(IN, t, _SPARE_TEXT[t])
    return r


def descendants(i):
    """Indexes of the names that are proper subdomains of NAMES[i] (none for the apex: it is
    never a delegation)."""
    if i == 0:
        return []
    suffix = "." + NAMES[i]
    return [j for j, t in enumerate(NAMES) if t.endswith(suffix)]


def name_obj(i, rel):
    t = NAMES[i]
    if rel:
        return dns.name.empty if t == "@" else dns.name.from_text(t, None)
    return M.ORIGIN if t == "@" else dns.name.from_text(t, M.ORIGIN)


def rd(key):
    return M.rd(key)


def key_type(key):
    return "SOA" if key.startswith("soa:") else KEYS[key]


# ------------------------------------------------------------------ content model


class GM:
    """name index -> {type text: set(pool keys)}; TTLs are fixed per type."""

    def __init__(self, c=None):
        self.c = {n: {t: set(s) for t, s in node.items()} for n, node in (c or {}).items()}

    def copy(self):
        return GM(self.c)

    def apply(self, op):
        k = op[0]
        n = op[1]
        if k == "add":
            self.c.setdefault(n, {}).setdefault(key_type(op[2]), set()).add(op[2])
        elif k == "replace":
            self.c.setdefault(n, {})[key_type(op[2][0])] = set(op[2])
        elif k == "del_name":
            self.c.pop(n, None)
        elif k == "del_type":
            node = self.c.get(n)
            if node is not None:
                node.pop(op[2], None)
                if not node:
                    del self.c[n]
        elif k == "del_rd":
            node = self.c.get(n)
            if node is not None:
                t = key_type(op[2])
                s = node.get(t)
                if s is not None:
                    s.discard(op[2])
                    if not s:
                        del node[t]
                    if not node:
                        del self.c[n]
        else:
            raise ValueError(k)

    def fp(self):
        return {
            n: {t: (TTL[t], tuple(sorted(M.tok(rd(k)) for k in s))) for t, s in node.items()}
            for n, node in self.c.items()
        }


def apply_real(txn, op, rel):
    k = op[0]
    name = name_obj(op[1], rel)
    if k == "add":
        txn.add(name, TTL[key_type(op[2])], rd(op[2]))
    elif k == "replace":
        txn.replace(name, dns.rdataset.from_rdata_list(TTL[key_type(op[2][0])], [rd(x) for x in op[2]]))
    elif k == "del_name":
        txn.delete(name)
    elif k == "del_type":
        txn.delete(name, dns.rdatatype.from_text(op[2]))
    elif k == "del_rd":
        txn.delete(name, rd(op[2]))
    else:
        raise ValueError(k)


BASE_OPS = [["add", 0, "soa:7"], ["add", 0, "n1"]] + [["add", i, "a1"] for i in range(1, len(NAMES))] + [
    ["add", 2, "t1"],
    ["add", 3, "q1"],
    ["add", 4, "a2"],
    ["add", 7, "m1"],
]


def content_fp(txn, rel):
    """Content of a reader through the public iteration API, keyed by name index (names that
    are not in NAMES are kept visible under their text)."""
    d = {}
    names = {name_obj(i, rel): i for i in range(len(NAMES))}
    for name in txn.iterate_names():
        d.setdefault(names.get(name, str(name)), {})
    for name, rds in txn.iterate_rdatasets():
        t = dns.rdatatype.to_text(rds.rdtype) + ("" if not rds.covers else "/" + dns.rdatatype.to_text(rds.covers))
        d.setdefault(names.get(name, str(name)), {})[t] = (rds.ttl, tuple(sorted(M.tok(r) for r in rds)))
    return d


def content_diff(want, got):
    for n in sorted(set(want) | set(got), key=str):
        if want.get(n) != got.get(n):
            nm = NAMES[n] if isinstance(n, int) else n
            return f"at {nm}: expected {want.get(n, 'absent')!r:.150} / got {got.get(n, 'absent')!r:.150}"
    return "equal"


# ------------------------------------------------------------------ deep fingerprint


def rds_deep(r):
    items = r.items
    return (
        id(r),
        type(r).__name__,
        int(r.rdclass),
        int(r.rdtype),
        int(r.covers),
        r.ttl,
        id(items),
        type(items).__name__,
        tuple(M.tok(x) for x in items),
    )


def node_deep(name, node):
    rdss = node.rdatasets
    return (
        name.labels,
        id(node),
        type(node).__name__,
        getattr(node, "id", None),
        int(getattr(node, "flags", 0) or 0),
        id(rdss),
        type(rdss).__name__,
        tuple(rds_deep(r) for r in rdss),
    )


def version_deep(version):
    nodes = version.nodes
    dele = getattr(version, "delegations", None)
    return (
        id(version),
        type(version).__name__,
        version.id,
        version.origin,
        id(nodes),
        type(nodes).__name__,
        len(nodes),
        tuple(node_deep(n, nd) for n, nd in nodes.items()),
        None if dele is None else (id(dele), tuple(x.labels for x in dele)),
    )


def deep_diff(a, b):
    """One line saying where two version fingerprints differ."""
    fields = ["version object", "version type", "version id", "origin", "node map object", "node map type", "len(nodes)"]
    for i, f in enumerate(fields):
        if a[i] != b[i]:
            return f"{f}: {a[i]!r} -> {b[i]!r}"
    if a[8] != b[8]:
        return f"delegation index: {a[8]!r:.100} -> {b[8]!r:.100}"
    na = {x[0]: x for x in a[7]}
    nb = {x[0]: x for x in b[7]}
    for labels in sorted(set(na) | set(nb)):
        x, y = na.get(labels), nb.get(labels)
        if x == y:
            continue
        n = dns.name.Name(labels)
        if x is None or y is None:
            return f"node {n}: " + ("appeared" if x is None else "disappeared")
        for i, f in enumerate(["", "node object", "node type", "node id", "flags", "rdatasets container", "rdatasets container type", "rdatasets"]):
            if x[i] != y[i]:
                return f"node {n}: {f} {x[i]!r:.120} -> {y[i]!r:.120}"
    if [x[0] for x in a[7]] != [x[0] for x in b[7]]:
        return "iteration order of the node map changed"
    return "equal"


# ------------------------------------------------------------------ explicit mutator list


def node_mutators(node, zone):
    """[(label, thunk)] - every thunk would change a mutable node of the same content."""
    present = [(r.rdclass, r.rdtype, r.covers) for r in node.rdatasets]
    SRV = dns.rdatatype.SRV  # never stored by any history
    out = []
    out.append(("replace_rdataset(new type)", lambda: node.replace_rdataset(dns.rdataset.from_rdata(7, spare(dns.rdatatype.HINFO)))))
    if present:
        c, t, cov = present[0]
        r0 = node.rdatasets[0]
        out.append(("replace_rdataset(same type)", lambda: node.replace_rdataset(dns.rdataset.from_rdata(r0.ttl + 1, spare(t)))))
        out.append(("delete_rdataset(present type)", lambda: node.delete_rdataset(c, t, cov)))
    out.append(("find_rdataset(create=True)", lambda: node.find_rdataset(IN, SRV, dns.rdatatype.NONE, True)))
    out.append(("find_rdataset(create=True) by keyword", lambda: node.find_rdataset(IN, SRV, create=True)))
    out.append(("get_rdataset(create=True)", lambda: node.get_rdataset(IN, SRV, dns.rdatatype.NONE, True)))
    out.append(("get_rdataset(create=True) by keyword", lambda: node.get_rdataset(IN, SRV, create=True)))
    out.append(("rdatasets = []", lambda: setattr(node, "rdatasets", [])))
    out.append(("rdatasets += (x,)", lambda: _iadd_attr(node, "rdatasets")))
    out.append(("del rdatasets", lambda: delattr(node, "rdatasets")))
    if hasattr(node, "flags"):
        out.append(("flags = flags ^ GLUE", lambda: setattr(node, "flags", type(node.flags)(int(node.flags) ^ 4))))
        out.append(("flags |= DELEGATION|GLUE|ORIGIN", lambda: _ior_flags(node)))
        out.append(("del flags", lambda: delattr(node, "flags")))
    if hasattr(node, "id"):
        out.append(("id = id + 1000", lambda: setattr(node, "id", node.id + 1000)))
        out.append(("del id", lambda: delattr(node, "id")))
    return out


def _iadd_attr(node, attr):
    v = getattr(node, attr)
    extra = dns.rdataset.from_rdata(7, spare(dns.rdatatype.TXT))
    v += (extra,) if isinstance(v, tuple) else [extra]
    setattr(node, attr, v)


def _ior_flags(node):
    F = type(node.flags)
    if int(node.flags) != 7:
        node.flags |= F(7)
    else:  # |= could not change anything
        node.flags &= F(0)


def container_mutators(node):
    """Mutators of node.rdatasets itself (a tuple has none of these methods: AttributeError /
    TypeError count as 'raised')."""
    extra = dns.rdataset.from_rdata(7, spare(dns.rdatatype.TXT))
    out = [
        ("rdatasets.append(x)", lambda: node.rdatasets.append(extra)),
        ("rdatasets.insert(0, x)", lambda: node.rdatasets.insert(0, extra)),
        ("rdatasets.extend([x])", lambda: node.rdatasets.extend([extra])),
        ("rdatasets[0:0] = [x]", lambda: node.rdatasets.__setitem__(slice(0, 0), [extra])),
    ]
    if len(node.rdatasets):
        out += [
            ("rdatasets[0] = x", lambda: node.rdatasets.__setitem__(0, extra)),
            ("del rdatasets[0]", lambda: node.rdatasets.__delitem__(0)),
            ("rdatasets.pop()", lambda: node.rdatasets.pop()),
            ("rdatasets.clear()", lambda: node.rdatasets.clear()),
            ("rdatasets.remove(first)", lambda: node.rdatasets.remove(node.rdatasets[0])),
        ]
    return out


def rdataset_mutators(rds):
    """[(label, thunk)] - every thunk would change a mutable rdataset with the same items."""
    t = rds.rdtype
    sp = spare(t)
    first = next(iter(rds.items), None)

    def other(*rdatas, ttl=None):
        o = dns.rdataset.Rdataset(rds.rdclass, rds.rdtype, rds.covers, rds.ttl if ttl is None else ttl)
        for r in rdatas:
            dns.set.Set.add(o, r)
        return o

    out = [
        ("add(new rdata)", lambda: rds.add(sp)),
        ("add(new rdata, ttl)", lambda: rds.add(sp, rds.ttl)),
        ("update(other)", lambda: rds.update(other(sp))),
        ("union_update(other)", lambda: rds.union_update(other(sp))),
        ("__ior__(other)", lambda: rds.__ior__(other(sp))),
        ("__iadd__(other)", lambda: rds.__iadd__(other(sp))),
        ("__ixor__(other)", lambda: rds.__ixor__(other(sp))),
        ("symmetric_difference_update(other)", lambda: rds.symmetric_difference_update(other(sp))),
        ("update_ttl(ttl + 1)", lambda: rds.update_ttl(rds.ttl + 1)),
        ("ttl = ttl + 1", lambda: setattr(rds, "ttl", rds.ttl + 1)),
        ("rdtype = TXT/A", lambda: setattr(rds, "rdtype", dns.rdatatype.TXT if rds.rdtype != dns.rdatatype.TXT else dns.rdatatype.A)),
        ("covers = A", lambda: setattr(rds, "covers", dns.rdatatype.A)),
        ("rdclass = CH", lambda: setattr(rds, "rdclass", dns.rdataclass.CH)),
        ("items = {}", lambda: setattr(rds, "items", {})),
        ("del items", lambda: delattr(rds, "items")),
        ("del ttl", lambda: delattr(rds, "ttl")),
    ]
    if first is not None:
        out += [
            ("add(present rdata, lower ttl)", lambda: rds.add(first, max(rds.ttl - 1, 0)) if rds.ttl > 0 else rds.add(sp)),
            ("clear()", lambda: rds.clear()),
            ("remove(present)", lambda: rds.remove(first)),
            ("discard(present)", lambda: rds.discard(first)),
            ("pop()", lambda: rds.pop()),
            ("del rds[0]", lambda: rds.__delitem__(0)),
            ("del rds[0:1]", lambda: rds.__delitem__(slice(0, 1))),
            ("intersection_update(empty)", lambda: rds.intersection_update(other())),
            ("__iand__(empty)", lambda: rds.__iand__(other())),
            ("difference_update(same)", lambda: rds.difference_update(other(first))),
            ("__isub__(same)", lambda: rds.__isub__(other(first))),
        ]
    return out


def items_mutators(rds):
    """The rdataset's item map, reached through the public attribute ``items``."""
    sp = spare(rds.rdtype)
    first = next(iter(rds.items), None)
    out = [
        ("items[new] = None", lambda: rds.items.__setitem__(sp, None)),
        ("items.update({new: None})", lambda: rds.items.update({sp: None})),
        ("items.setdefault(new)", lambda: rds.items.setdefault(sp, None)),
    ]
    if first is not None:
        out += [
            ("del items[present]", lambda: rds.items.__delitem__(first)),
            ("items.pop(present)", lambda: rds.items.pop(first)),
            ("items.popitem()", lambda: rds.items.popitem()),
            ("items.clear()", lambda: rds.items.clear()),
        ]
    return out


# the reduced list used for objects that were already put through the full list earlier in the
# same history (they are still re-examined after every later commit)
_LIGHT_NODE = {"replace_rdataset(new type)", "delete_rdataset(present type)", "find_rdataset(create=True)", "rdatasets = []", "flags = flags ^ GLUE", "rdatasets.append(x)"}
_LIGHT_RDS = {"add(new rdata)", "clear()", "update_ttl(ttl + 1)", "items[new] = None", "del items[present]"}


# ------------------------------------------------------------------ history runner


class GlueHist:
    """Runs JSON-able steps on a real dns.btreezone.Zone and on the content model.

    steps: ["policy", "max"|"default", arg] / ["txn", replacement, [ops], "commit"|"rollback"]
           / ["open", "newest"|"id", arg] / ["close", handle] / ["surface", [name indexes]]
    ``fails`` collects (clause, what, sig)."""

    def __init__(self, rel, R=None, label=None, surface_fn=None, full_every_time=False):
        import dns.btreezone

        self.rel = rel
        self.R = R
        self.label = label
        self.surface_fn = surface_fn
        self.full_every_time = full_every_time
        self.z = dns.btreezone.Zone(M.ORIGIN, relativize=rel)
        self.fails = []
        self.steps = []
        self.models = {}  # version id -> GM
        self.written = {}  # version id -> set(name index) targeted by the transaction's ops
        self.side = {}  # version id -> set(name index) below a name whose NS / node the ops changed
        self.deep = {}  # version id -> version_deep at first sight
        self.order = []  # ids ever committed, oldest first
        self.newest_model = GM()
        self.readers = {}  # handle -> (txn, vid, deep fp, content fp)
        self.next_handle = 0
        self.verified = {}  # id(object) -> object (kept alive) already given the full list
        self.stats = {"walks": 0, "nodes": 0, "side_nodes": 0, "calls": 0, "versions": 0}
        r = self.z.reader()
        vid = r.version.id
        self.order.append(vid)
        self.models[vid] = GM()
        self.written[vid] = set()
        self.side[vid] = set()
        self.deep[vid] = version_deep(r.version)
        r.rollback()

    # ------------------------------------------------------------ bookkeeping
    def fail(self, clause, what, sig):
        self.fails.append((clause, what, sig))

    def case(self, clause, key, nontrivial=True):
        if self.R is not None:
            self.R.case(clause, key=(self.label, len(self.steps)) + tuple(key), nontrivial=nontrivial)

    def role(self, name_idx, node):
        nid = getattr(node, "id", None)
        if nid in self.written:
            if name_idx in self.written[nid]:
                return "targeted by an operation of the transaction that made it"
            if name_idx in self.side[nid]:
                return "copied as a side effect of a delegation change above it"
        return "other"

    # ------------------------------------------------------------ steps
    def step(self, st):
        self.steps.append(st)
        getattr(self, "_s_" + st[0])(*st[1:])
        if not self.fails:
            self.stable("glue/" + st[0])
        return self.fails

    def _s_policy(self, k, a):
        if k == "default":
            self.z.set_pruning_policy(None)
        else:
            self.z.set_max_versions(a)

    def _s_open(self, how, arg):
        try:
            txn = self.z.reader() if how == "newest" else self.z.reader(id=arg)
        except KeyError:
            self.next_handle += 1  # handles are positional: the generator cannot know
            return
        h = self.next_handle
        self.next_handle += 1
        self.readers[h] = (txn, txn.version.id, version_deep(txn.version), content_fp(txn, self.rel))

    def _s_close(self, h):
        e = self.readers.pop(h, None)
        if e is not None:
            e[0].rollback()

    def _s_surface(self, names):
        if self.surface_fn is None:
            return
        r = self.z.reader()
        try:
            only = {name_obj(i, self.rel) for i in names}
            self.fails += self.surface_fn(self.z, r, only, (self.label, len(self.steps)))
        finally:
            r.rollback()

    def _s_txn(self, replacement, ops, end):
        z = self.z
        before = self.order[-1]
        txn = M.safe_writer(z, replacement)
        model = GM() if replacement else self.newest_model.copy()
        written, side = set(), set()
        lost = None
        for op in ops:
            try:
                apply_real(txn, op, self.rel)
            except Exception as e:  # noqa: BLE001 - every op is valid; not this clause's business
                lost = e
                break
            model.apply(op)
            written.add(op[1])
            if op[0] == "del_name" or (op[0] == "del_type" and op[2] == "NS") or (op[0] in ("add", "del_rd") and key_type(op[2]) == "NS") or (op[0] == "replace" and key_type(op[2][0]) == "NS"):
                side.update(descendants(op[1]))
        if lost is not None:
            txn.rollback()
            self.steps[-1] = ["txn", replacement, ops, "rollback"]
            self.lost = f"{type(lost).__name__}: {lost} raised by {op}"
            end = "rollback"
        elif end == "commit":
            txn.commit()
        else:
            txn.rollback()
        r = z.reader()
        vid = r.version.id
        ver = r.version
        got = content_fp(r, self.rel)
        self.case("C11.version_ids", (end,))
        try:
            if end != "commit":
                if vid != before:
                    self.fail("C11.version_ids", f"a transaction ended by rollback changed the newest version id {before} -> {vid}", {"check": "ids", "class": "rollback published a version"})
                return
            if vid == before:
                if model.fp() != self.newest_model.fp() and not (replacement and not model.c):
                    self.fail("C11.version_ids", "a commit that changed the content produced no new version", {"check": "ids", "class": "commit did not publish a new version"})
                return
            if vid <= before:
                self.fail("C11.version_ids", f"commit produced version id {vid}, not greater than the previous newest {before}", {"check": "ids", "class": "version id did not increase"})
                return
            self.order.append(vid)
            self.models[vid] = model
            self.newest_model = model
            self.written[vid] = written
            self.side[vid] = side - written
            self.deep[vid] = version_deep(ver)
            if got != model.fp():
                self.fail(
                    "C11.snapshot_isolation",
                    "newest version after commit differs from the model: " + content_diff(model.fp(), got),
                    {"check": "snapshot", "event": "glue/commit", "class": "newest version content"},
                )
                return
        finally:
            r.rollback()
        self.walk()

    lost = None

    # ------------------------------------------------------------ retained versions
    def retained(self):
        """[(vid, reader)] for every version ever committed that reader(id=) still finds; the
        caller closes the readers."""
        out = []
        for vid in self.order:
            try:
                out.append((vid, self.z.reader(id=vid)))
            except KeyError:
                continue
        return out

    def stable(self, ev):
        """No step may change what a retained version or an open reader shows: content against
        the model, deep fingerprint against the one taken when the version was committed."""
        probes = self.retained()
        try:
            for vid, r in probes:
                self.case("C11.snapshot_isolation", ("retained", vid))
                now = version_deep(r.version)
                if now != self.deep[vid]:
                    self.fail(
                        "C11.snapshot_isolation",
                        f"retained version {vid} changed after {ev} (newest is {self.order[-1]}): " + deep_diff(self.deep[vid], now),
                        {"check": "snapshot", "event": ev, "class": "deep fingerprint (node objects, ids, flags, rdatasets, delegation index) of a retained version changed"},
                    )
                    return
                c = content_fp(r, self.rel)
                if c != self.models[vid].fp():
                    self.fail(
                        "C11.snapshot_isolation",
                        f"retained version {vid} no longer has the content it was committed with after {ev}: " + content_diff(self.models[vid].fp(), c),
                        {"check": "snapshot", "event": ev, "class": "retained version content changed"},
                    )
                    return
            for h, (txn, vid, deep, content) in self.readers.items():
                self.case("C11.snapshot_isolation", ("reader", h))
                if txn.version.id != vid or version_deep(txn.version) != deep or content_fp(txn, self.rel) != content:
                    self.fail(
                        "C11.snapshot_isolation",
                        f"open reader on version {vid} changed after {ev}: " + deep_diff(deep, version_deep(txn.version)),
                        {"check": "snapshot", "event": ev, "class": "open reader's deep fingerprint changed"},
                    )
                    return
                if vid not in [v for v, _ in probes]:
                    self.fail(
                        "C11.retention",
                        f"version {vid} pinned by an open reader is no longer found by reader(id=) after {ev}",
                        {"check": "retention", "class": "version pinned by an open reader not retained"},
                    )
                    return
        finally:
            for _vid, r in probes:
                r.rollback()

    # ------------------------------------------------------------ the walk
    def walk(self):
        """Every node of every retained version, every rdataset in it."""
        self.stats["walks"] += 1
        probes = self.retained()
        try:
            whole_before = [version_deep(r.version) for _v, r in probes] + [version_deep(t.version) for t, _v, _d, _c in self.readers.values()]
            done = set()
            for vid, r in probes:
                self.stats["versions"] += 1
                version = r.version
                names = {name_obj(i, self.rel): i for i in range(len(NAMES))}
                for name, node in list(version.nodes.items()):
                    ni = names.get(name, -1)
                    role = self.role(ni, node)
                    self.stats["nodes"] += 1
                    if role.startswith("copied"):
                        self.stats["side_nodes"] += 1
                    # (a) the flag the library itself publishes
                    ok = None
                    try:
                        ok = node.is_immutable()
                    except Exception as e:  # noqa: BLE001
                        ok = e
                    self.case("C11.immutable", (vid, name.labels, "is_immutable"))
                    if ok is not True:
                        self.fail(
                            "C11.immutable",
                            f"version {vid} (newest {self.order[-1]}): node {name} ({type(node).__name__}, id {getattr(node, 'id', None)}, {role}) has is_immutable() == {ok!r}",
                            {"check": "immutable_walk", "object": "node", "role": role, "how": "is_immutable()", "class": "not True"},
                        )
                        return
                    if id(node) in done:
                        continue  # the same object, shared with a version walked a moment ago
                    done.add(id(node))
                    if not self._mutate_node(vid, version, name, node, role):
                        return
            whole_after = [version_deep(r.version) for _v, r in probes] + [version_deep(t.version) for t, _v, _d, _c in self.readers.values()]
            if whole_after != whole_before:
                i = [a != b for a, b in zip(whole_before, whole_after)].index(True)
                self.fail(
                    "C11.immutable",
                    "the mutator calls of one walk changed a retained version / open reader other than the one called on: " + deep_diff(whole_before[i], whole_after[i]),
                    {"check": "immutable_walk", "object": "version", "role": "other", "how": "any", "class": "changed another snapshot"},
                )
        finally:
            for _vid, r in probes:
                r.rollback()

    def _mutate_node(self, vid, version, name, node, role):
        full = self.full_every_time or id(node) not in self.verified
        self.verified[id(node)] = node

        def local():
            return node_deep(name, node)

        cur = [local()]  # a failed attempt ends the walk, so this stays the valid 'before'

        def attempt(objkind, label, thunk, fp):
            before = cur[0] if fp is local else fp()
            raised = None
            try:
                thunk()
            except Exception as e:  # noqa: BLE001
                raised = e
            self.stats["calls"] += 1
            self.case("C11.immutable", (vid, name.labels, objkind, label))
            after = fp()
            if after != before:
                cls = "changed the snapshot"
            elif raised is None:
                cls = "did not raise"
            else:
                return True
            self.fail(
                "C11.immutable",
                f"version {vid} (newest {self.order[-1]}): {objkind} of {name} ({type(node).__name__}, id {getattr(node, 'id', None)}, {role}): {label} {cls}",
                {"check": "immutable_walk", "object": objkind, "role": role, "how": label, "class": cls},
            )
            return False

        for label, thunk in node_mutators(node, self.z):
            if (full or label in _LIGHT_NODE) and not attempt("node", label, thunk, local):
                return False
        for label, thunk in container_mutators(node):
            if (full or label in _LIGHT_NODE) and not attempt("node.rdatasets", label, thunk, local):
                return False
        for rds in list(node.rdatasets):
            rfull = self.full_every_time or id(rds) not in self.verified
            self.verified[id(rds)] = rds
            for label, thunk in rdataset_mutators(rds):
                if (rfull or label in _LIGHT_RDS) and not attempt("rdataset", label, thunk, local):
                    return False
            for label, thunk in items_mutators(rds):
                if (rfull or label in _LIGHT_RDS) and not attempt("rdataset.items", label, thunk, local):
                    return False
            if rfull:
                for r in list(rds)[:1]:
                    old = r.rdclass
                    ok = attempt("rdata", "rdclass = CH", lambda r=r: setattr(r, "rdclass", dns.rdataclass.CH), lambda r=r: (int(r.rdclass), int(r.rdtype)))
                    if not ok:
                        try:
                            object.__setattr__(r, "rdclass", old)  # pool rdatas are shared
                        except Exception:  # noqa: BLE001
                            pass
                        return False
        return True

    def close_all(self):
        for h in list(self.readers):
            try:
                self.readers.pop(h)[0].rollback()
            except Exception:  # noqa: BLE001
                pass


# ------------------------------------------------------------------ generation

_POLICIES = [["policy", "max", None], ["policy", "max", 3], ["pinned"], ["policy", "max", 5]]


def _prelude(pol):
    """Load the base content; arrange that earlier versions stay retained."""
    load = ["txn", True, [list(o) for o in BASE_OPS], "commit"]
    if pol == ["pinned"]:
        # default policy (retain one), but a reader on the first loaded version pins it and
        # everything after it
        return [load, ["open", "newest", None]]
    return [list(pol), load]


def _touch(i, variant):
    """An op that writes name i without changing its NS rdataset."""
    v = variant % 4
    if v == 0:
        return ["add", i, "a3"]
    if v == 1:
        return ["replace", i, ["t2"]]
    if v == 2:
        return ["del_rd", i, "a1"]  # every base node has a1 plus, for some, another rdataset
    return ["add", i, "q1"] if i != 3 else ["add", i, "t1"]


def _subsets(xs):
    out = [[]]
    for x in xs:
        out += [s + [x] for s in out]
    return out


def structured(quick):
    """The enumerated family: (label, relativize, steps, surface?)  For every cut P with
    descendants, every subset T of its descendants that the delegating transaction ALSO writes
    (before or after adding the NS), both ways of storing the NS; then a transaction that
    removes the delegation again (4 ways) while touching another subset."""
    out = []
    k = 0
    for p in (1, 2, 6):
        desc = descendants(p)
        subs = _subsets(desc)
        for ti, tset in enumerate(subs):
            for order in ("before", "after"):
                if not tset and order == "after":
                    continue
                for form in ("add", "replace"):
                    if quick and p == 1 and (ti + (order == "after") + (form == "add")) % 2:
                        continue  # quick: every (subset, order) of the big subtree with one of the two forms
                    ns = ["add", p, "n1"] if form == "add" else ["replace", p, ["n1", "n2"]]
                    touches = [_touch(i, k + j) for j, i in enumerate(tset)]
                    ops2 = touches + [ns] if order == "before" else [ns] + touches
                    way = k % 4
                    if way == 0:
                        rm = [["del_type", p, "NS"]]
                    elif way == 1:
                        rm = [["del_name", p]]
                    elif way == 2:
                        rm = [["del_rd", p, "n1"]] + ([["del_rd", p, "n2"]] if form == "replace" else [])
                    else:
                        rm = [["replace", p, ["n2"]], ["del_rd", p, "n2"]]
                    rset = subs[(ti * 3 + k) % len(subs)]
                    rt = [_touch(i, k + 2 + j) for j, i in enumerate(rset)]
                    ops3 = rt + rm if k % 2 else rm + rt
                    unrelated = ["txn", False, [["add", 8, "t1"], ["add", 5, "a2"]], "commit"]
                    rels = (True, False) if not quick else ((k % 2 == 0),)
                    for rel in rels:
                        steps = _prelude(_POLICIES[k % len(_POLICIES)])
                        steps.append(["txn", False, ops2, "commit"])
                        surf = not tset or (not quick and k % 5 == 0)
                        if surf:
                            steps.append(["surface", desc])
                        if k % 3 == 0:
                            steps.append(unrelated)
                        steps.append(["txn", False, ops3, "commit"])
                        if surf:
                            steps.append(["surface", [i for i in desc if i not in rset] or desc])
                        out.append((("glue", "enum", p, ti, order, form, rel), rel, steps))
                    k += 1
    # nested cuts: a cut below an existing cut and a cut above an existing cut, then removal of
    # either one, with nothing else written
    nested = [
        [[["add", 1, "n1"]], [["add", 2, "n2"]], [["del_type", 1, "NS"]], [["del_type", 2, "NS"]]],
        [[["add", 2, "n1"]], [["add", 1, "n2"]], [["del_type", 2, "NS"]], [["del_name", 1]]],
        [[["add", 2, "n1"]], [["add", 1, "n2"]], [["del_name", 1]], [["add", 3, "a2"]], [["del_rd", 2, "n1"]]],
        [[["add", 1, "n1"], ["add", 6, "n1"]], [["add", 4, "t1"]], [["del_type", 1, "NS"], ["del_type", 6, "NS"]]],
        [[["add", 1, "n1"]], [["del_name", 2]], [["add", 2, "a2"]], [["del_name", 1]], [["add", 1, "n2"]]],
        [[["add", 5, "n1"], ["add", 3, "n1"]], [["add", 1, "n1"]], [["del_type", 1, "NS"]]],
    ]
    for i, txns in enumerate(nested):
        for rel in (True, False):
            steps = _prelude(_POLICIES[i % len(_POLICIES)])
            for j, ops in enumerate(txns):
                steps.append(["txn", False, ops, "commit"])
                if j == 1:
                    steps.append(["open", "newest", None])
            if not quick or (i < 2 and rel):
                steps.append(["surface", [2, 3, 4]])
            out.append((("glue", "nested", i, rel), rel, steps))
    return out


def seeded(rng, nsteps):
    """One random history (steps after the prelude are drawn one by one; the model of where NS
    rdatasets currently are is only used to bias the choice)."""
    pol = rng.choice(_POLICIES)
    steps = _prelude(pol)
    model = GM()
    for op in BASE_OPS:
        model.apply(op)
    handles = 1 if pol == ["pinned"] else 0
    open_handles = list(range(handles))
    nver = 2
    cuts = [1, 1, 1, 2, 2, 6, 6, 5, 3, 4]
    for _ in range(nsteps):
        r = rng.random()
        if r < 0.62:
            replacement = rng.random() < 0.06
            m = GM() if replacement else model.copy()
            ops = []
            if replacement:
                ops += [["add", 0, "soa:9"], ["add", 0, "n1"]] + [["add", i, rng.choice(["a1", "a2"])] for i in range(1, len(NAMES)) if rng.random() < 0.8]
                for op in ops:
                    m.apply(op)
            for _k in range(rng.choice([1, 1, 2, 2, 3, 4, 5])):
                q = rng.random()
                if q < 0.40:
                    p = rng.choice(cuts)
                    have = m.c.get(p, {}).get("NS")
                    if have:
                        w = rng.randrange(4)
                        if w == 0:
                            op = ["del_type", p, "NS"]
                        elif w == 1:
                            op = ["del_name", p]
                        elif w == 2:
                            op = ["del_rd", p, sorted(have)[0]]
                        else:
                            op = ["replace", p, [rng.choice(["n1", "n2"])]]
                    else:
                        op = rng.choice([["add", p, rng.choice(["n1", "n2"])], ["replace", p, ["n1", "n2"]]])
                else:
                    if q < 0.70:
                        # a descendant of some cut
                        i = rng.choice([2, 3, 4, 7, 3, 4])
                    else:
                        i = rng.randrange(len(NAMES))
                    w = rng.random()
                    if w < 0.45:
                        op = ["add", i, rng.choice(_TOUCH_KEYS)]
                    elif w < 0.60:
                        op = ["replace", i, [rng.choice(_TOUCH_KEYS)]]
                    elif w < 0.75:
                        op = ["del_rd", i, rng.choice(_TOUCH_KEYS)]
                    elif w < 0.88:
                        op = ["del_type", i, rng.choice(["A", "TXT", "AAAA", "MX"])]
                    elif i != 0:
                        op = ["del_name", i]
                    else:
                        op = ["add", 0, "t1"]
                ops.append(op)
                m.apply(op)
            end = "commit" if rng.random() < 0.88 else "rollback"
            steps.append(["txn", replacement, ops, end])
            if end == "commit":
                model = m
                nver += 1
        elif r < 0.80:
            if rng.random() < 0.5:
                steps.append(["open", "newest", None])
            else:
                steps.append(["open", "id", rng.randrange(1, nver + 2)])
            open_handles.append(handles)
            handles += 1
        elif r < 0.93 and open_handles:
            h = rng.choice(open_handles)
            open_handles.remove(h)
            steps.append(["close", h])
        else:
            steps.append(rng.choice([["policy", "max", None], ["policy", "max", 2], ["policy", "max", 4], ["policy", "default", None]]))
    return steps


def run_steps(rel, steps, R=None, label=None, surface_fn=None, full_every_time=False):
    h = GlueHist(rel, R, label, surface_fn, full_every_time)
    try:
        with M.watchdog(120):
            for st in steps:
                if h.step([x for x in st]):
                    break
    finally:
        h.close_all()
    return h
